"""C18 — requested power poles power everything and form one grid."""
from bounded import gen
from bounded.geometry import run_geometry_scope
from checks.c08 import scope
from checks.common import CheckRun

EXPLANATION = (
    "B tier (bounded): blueprints emitted by the real pipeline for the C08 scope with --power-poles T, T in {small, "
    "medium, big, substation}, and without the option, are checked against S4 (supply_area_distance, maximum_wire_distance "
    "and energy source from the game data): every electricity consumer must intersect a supply area of type T; poles of "
    "type T must form one copper network; every copper wire must be within the reach of both ends; without the option no "
    "pole other than circuit relays and user-placed poles may be emitted. (That poles change neither behaviour nor user "
    "entities is checked by C09's pole modes.) Coverage of individual consumers and grid connectivity are NOT guaranteed "
    "by the code on the pinned tree (known findings KF-C18-*); a collapse of coverage, a missing grid, an over-long copper "
    "wire or stray poles are violations."
)


def classify(pid, opts, problem):
    if problem.startswith("[coverage]"):
        return "KF-C18-coverage-not-guaranteed"
    if problem.startswith("[grid-split]"):
        return "KF-C18-grid-split"
    return None


def run(tier):
    cr = CheckRun("C18", tier, "other", EXPLANATION, "DESIGN §4 C18")
    from pyvc import guards
    # a copper wire between two poles is added only within the reach of BOTH ends (game rule; contract on the emitter)
    cr.ext_obligations.append(guards.call_guarded_by_min_reach(
        "dsl_compiler/src/emission/emitter.py::BlueprintEmitter._connect_pole_to_nearest", "add_power_connection", "maximum_wire_distance"))
    cr.contracts(["contracts.c09"])  # _trim_power_poles: only compiler-added poles may be removed (tagged C18)
    progs = scope(tier)
    progs += [("far-cluster", 'Signal s = ("signal-A", 1);\nEntity a = place("small-lamp", 40, 40);\na.enable = s > 0;\nEntity b = place("small-lamp", 42, 40);\nb.enable = s > 1;\n')]
    modes = [{"optimize": True}, {"optimize": True, "power_pole_type": "small"}, {"optimize": True, "power_pole_type": "medium"},
             {"optimize": True, "power_pole_type": "big"}, {"optimize": True, "power_pole_type": "substation"}]
    if tier == "quick":
        progs = progs[::2] + progs[-1:]
    from bounded import pipeline
    from bounded.contract_enum import run_contract_enum
    from contracts import c18
    pipeline.ensure_repo()
    pargs = c18.connect_arg_sets()
    cr.bounded_check(run_contract_enum, "connect-pole-to-nearest-box", c18.connect_nearest, pargs,
                     f"{len(pargs)} pole sets (1..4 poles on six spots, reaches 7.5 / 9 / 32, 1 / 2 / 5 neighbours): nearest first, at most max_neighbors, each within the reach of "
                     "BOTH ends (contract evaluated on the real BlueprintEmitter._connect_pole_to_nearest with recording stand-ins for the draftsman blueprint)")
    cr.bounded_check(run_geometry_scope, "power", progs, modes, ("power",),
                     f"{len(progs)} programs x {len(modes)} option sets", cr.known, classify=classify)
    return cr.finish()
