"""./check <Cxx> --replay <file>: re-run ONE recorded violation against /repo's current tree.

exit 1: the violation is still there (the failing obligation / input is printed) · 0: it no longer fails ·
2: this kind of record can only be re-decided by the whole check (which is then run) and that was undecided · 3: crash.

P records        — the contract of the named function (and case) is verified again on the current source; a counter-model
                   the solver gives is replayed on the imported real function by the verifier itself.
geometry records — the recorded program is compiled by the real pipeline with the recorded options and measured again.
e2e records      — the recorded program is judged again (S3 value vs. the emitted circuit, SMT over all inputs) and, when
                   the record carries concrete input values, evaluated on them.
other records    — the property's quick check is run again and the outcome of the same named stand-in is reported."""
from __future__ import annotations

import importlib
import json
import pkgutil
from pathlib import Path

VERIF = Path(__file__).resolve().parent.parent


def _p_record(prop, d):
    from pyvc.verify import verify_function
    import contracts
    hits = []
    for m in pkgutil.iter_modules(contracts.__path__):
        mod = importlib.import_module(f"contracts.{m.name}")
        for c in getattr(mod, "CONTRACTS", []):
            if c.verify and c.qualname == d.get("qualname"):
                hits.append((mod, c))
    if not hits:
        print(f"replay: no contract for {d.get('qualname')} any more")
        return 2
    still = 0
    undecided = 0
    for mod, c in hits:
        rep = verify_function(c, getattr(mod, "REGISTRY", {}), frozenset())
        if rep.out_of_subset or rep.error:
            print(f"replay: {c.short} [{c.note or ''}]: undecided: {rep.out_of_subset or rep.error}")
            undecided += 1
            continue
        for r in rep.results:
            if r.status in ("violated", "violated-noinput") and (not d.get("obligation") or r.name == d["obligation"]):
                still += 1
                print(f"replay: STILL VIOLATED {c.short} [{c.note or ''}] {r.name}\n   path: {r.detail}\n   counter-model: {r.model}\n   on the real function: {r.replay}")
    if still:
        return 1
    if undecided == len(hits):
        return 2
    print(f"replay: every obligation of {d.get('qualname')} is discharged on the current tree")
    return 0


def _geometry_record(prop, d):
    from bounded import geometry, pipeline
    w = d["witness"] if isinstance(d["witness"], dict) else json.loads(d["witness"])
    cap = pipeline.compile_capture(w["program"], **w.get("options", {}))
    if not cap.ok:
        print(f"replay: the compiler refuses the program now: {cap.error[:300]}")
        return 2
    problems = geometry.check_pasteable(cap.bp)
    try:
        problems += geometry.check_relay_isolation(cap, cap.bp)
    except Exception as e:  # noqa: BLE001
        print(f"replay: relay isolation not evaluated: {e}")
    if w.get("options", {}).get("power_pole_type") and prop == "C18":
        problems += geometry.check_power(cap.bp, w["options"]["power_pole_type"])
    for p in problems:
        print("replay: STILL VIOLATED", p)
    if not problems:
        print("replay: the blueprint compiled now passes (note: the layout solver is time-limited and not deterministic; "
              "add \"layout_adversary\": true to the recorded options to replay against an adversarial placement)")
    return 1 if problems else 0


def _e2e_record(prop, d):
    from bounded import e2e
    w = d["witness"]
    opts = d.get("options") or {}
    pv = e2e.judge(w["program"], optimize=opts.get("optimize", True), power_pole_type=opts.get("power_pole_type"))
    for o in pv.outputs:
        print(f"replay: {o.name}: {o.status} {o.detail} {o.witness or ''}")
    if pv.status != "judged":
        print(f"replay: program {pv.status} now: {pv.detail[:300]}")
        return 2
    worst = pv.worst()
    return 1 if worst in ("mismatch", "crosstalk") else (2 if worst == "undecided" else 0)


def replay_file(prop, path):
    p = Path(path)
    if not p.is_absolute() and not p.exists():
        p = VERIF / path
    d = json.loads(p.read_text())
    if d.get("property") and d["property"] != prop:
        print(f"replay: record belongs to {d['property']}")
        return 3
    kind = d.get("kind", "")
    print(f"replay: {prop} {kind} {d.get('check') or d.get('qualname') or ''}: {str(d.get('what') or d.get('obligation'))[:300]}")
    if kind == "P":
        return _p_record(prop, d)
    w = d.get("witness")
    if isinstance(w, str):
        try:
            d["witness"] = w = json.loads(w)
        except ValueError:
            import ast
            d["witness"] = w = ast.literal_eval(w)
    if kind.startswith("B-enum(blueprint geometry)") and isinstance(w, dict) and "program" in w:
        return _geometry_record(prop, d)
    if kind == "B-enum" and isinstance(w, dict) and "program" in w and "e2e" in str(d.get("check", "")):
        try:
            return _e2e_record(prop, d)
        except Exception as e:  # noqa: BLE001
            print(f"replay: single-program judge failed ({type(e).__name__}: {e}); running the whole check")
    print("replay: this record is re-decided by the whole quick check")
    mod = importlib.import_module(f"checks.{prop.lower()}")
    rc = mod.run("quick")
    return rc
