"""C02 — bundle operations act member-wise and never leak foreign signals."""
from bounded import gen
from checks.e2e_common import run_e2e_property

EXPLANATION = (
    "K3/K7 for bundles. P tier: CSE key lemma (shared with C10) so that bundle deciders with different output modes are "
    "never merged; the IR builder's bundle constructors, the placer (each node one placement of its own carrying its operator, operands, output and separation flag) "
    "and the declaration lowering (a named bundle's producer is kept) are under contract. B tier (bounded): bundle programs (literals, nested/merged, each-arithmetic with constant / member / "
    "foreign scalar operands, filters copy/constant, gating, any/all, selection, zero members) are compiled by the real "
    "pipeline; EVERY signal on each result's anchor network is compared with the S3 bundle semantics by SMT for all "
    "int32 member values, so a leaked scalar or condition signal is visible."
)


def _merge_box(cr):
    from bounded import pipeline
    from bounded.contract_enum import run_contract_enum
    from contracts import c07b
    pipeline.ensure_repo()
    args = c07b.wire_merge_arg_sets()
    cr.bounded_check(run_contract_enum, "place-wire-merge-box", c07b.place_wire_merge, args,
                     f"{len(args)} merges of 2..3 sources x (signal / bundle reference, node resolved to another entity or not, materialised or not) x earlier memberships: "
                     "junction = sources in order, membership keyed by the PHYSICAL producer (contract evaluated on the real EntityPlacer._place_wire_merge)")



def _locked_box(cr):
    from bounded import pipeline
    from bounded.contract_enum import run_contract_enum
    from contracts import c02
    pipeline.ensure_repo()
    largs = c02.locked_colors_arg_sets()
    cr.bounded_check(run_contract_enum, "locked-wire-colours-box", c02.locked_colors, largs,
                     f"{len(largs)} plans: every subset of (gated cell, folded cell, bundle OP signal, each CMP signal, gate over a wire-merged bundle) next to an unrelated "
                     "computation: exactly the colour locks that keep data / enable and bundle / scalar apart (contract evaluated on the real LayoutPlanner._determine_locked_wire_colors)")


def _inject_box(cr):
    from bounded.contract_enum import run_contract_enum
    from contracts import c02
    iargs = c02.inject_colors_arg_sets()
    cr.bounded_check(run_contract_enum, "operand-wire-colours-box", c02.inject_colors, iargs,
                     f"{len(iargs)} combinators (operand plain / resolved through the graph / bundle member / wire-merged / integer; red / green): every signal operand reads "
                     "exactly the colour(s) it is delivered on (contract evaluated on the real LayoutPlanner._inject_wire_colors_into_placements)")


def _boxes(cr):
    _merge_box(cr)
    _locked_box(cr)
    _inject_box(cr)


def run(tier):
    progs = gen.c02_scope(tier)
    return run_e2e_property("C02", tier, EXPLANATION, "DESIGN §4 C02",
                            [("e2e-bundles", progs, "bundle operations over 3-member bundles incl. zero/negative members")],
                            contract_modules=["contracts.c10", "contracts.c20b", "contracts.c07", "contracts.c07b", "contracts.c02", "contracts.c01c", "contracts.c16b", "contracts.cdispatch", "contracts.c14b"], extra=_boxes)
