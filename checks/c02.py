"""C02 — bundle operations act member-wise and never leak foreign signals."""
from bounded import gen
from checks.e2e_common import run_e2e_property

EXPLANATION = (
    "K3/K7 for bundles. P tier: CSE key lemma (shared with C10) so that bundle deciders with different output modes are "
    "never merged. B tier (bounded): bundle programs (literals, nested/merged, each-arithmetic with constant / member / "
    "foreign scalar operands, filters copy/constant, gating, any/all, selection, zero members) are compiled by the real "
    "pipeline; EVERY signal on each result's anchor network is compared with the S3 bundle semantics by SMT for all "
    "int32 member values, so a leaked scalar or condition signal is visible."
)


def run(tier):
    progs = gen.c02_scope(tier)
    return run_e2e_property("C02", tier, EXPLANATION, "DESIGN §4 C02",
                            [("e2e-bundles", progs, "bundle operations over 3-member bundles incl. zero/negative members")],
                            contract_modules=["contracts.c10", "contracts.c20b", "contracts.c07", "contracts.c07b", "contracts.c02", "contracts.c16b", "contracts.c14b"])
