"""Contract boxes shared by several checks."""


def data_structure_boxes(cr, which=("graph", "plan")):
    """SignalGraph / LayoutPlan against their abstract views (contracts/cgraph.py): every public operation in every state reachable
    by up to three mutating operations (bounded)."""
    from bounded import pipeline
    from bounded.contract_enum import run_contract_enum
    from contracts import cgraph
    pipeline.ensure_repo()
    if "graph" in which:
        for name, c in cgraph.graph_contracts.items():
            args = cgraph.graph_arg_sets(name)
            cr.bounded_check(run_contract_enum, f"signal-graph-{name}-box", c, args,
                             f"{len(args)} (state, call) pairs: SignalGraph.{name} against the abstract view (producers / readers per signal, without repetition, in registration order) in "
                             "every state reachable by up to three mutating operations over two signals and two entities (contract evaluated on the real method)")
    if "plan" in which:
        for name, c in cgraph.plan_contracts.items():
            args = cgraph.plan_arg_sets(name)
            cr.bounded_check(run_contract_enum, f"layout-plan-{name}-box", c, args,
                             f"{len(args)} (plan, call) pairs: LayoutPlan.{name} against the placement map / wire list view (contract evaluated on the real method)")
