"""C03 — a gated memory cell latches the written value and holds it."""
from bounded import gen
from bounded.run_memory import run_history_scope
from checks.common import CheckRun

EXPLANATION = (
    "P tier (unbounded): on the real MemoryLowerer._lower_standard_write, on every path, the write enable handed to the IR is "
    "on the reserved signal-W (decider retyped in place, +0 projection, or the constant 1), with the expression lowerer and "
    "the IR builder used by contract. B tier (bounded, never counted as proved): programs with standard (when=) cells — enable given as comparison, named "
    "comparison, compound condition; data typed / untyped / computed; several readers; two cells sharing an enable — are "
    "compiled by the real pipeline. The blueprint is simulated tick by tick with the S2 model from the all-zero state; "
    "after every held input step (one input changed, held until the circuit is stable) every reader, output anchor and "
    "entity condition must equal the S3 memory semantics (0 before the first enabled write, follows v while the enable is "
    "positive, holds the last written value afterwards). Histories: all sequences of the stated length over the stated "
    "value pools (thinned with a fixed stride above the limit)."
)


def run(tier):
    cr = CheckRun("C03", tier, "other", EXPLANATION, "DESIGN §4 C03")
    cr.contracts(["contracts.c03"])
    progs = gen.c03_scope(tier)
    length, limit = (4, 60) if tier == "quick" else (5, 600)
    for optimize in (True, False):
        cr.bounded_check(run_history_scope, f"gated-cells-{'opt' if optimize else 'noopt'}", progs,
                         f"{len(progs)} programs x input histories of {length} single-input changes (<= {limit} per program); optimize={optimize}",
                         cr.known, length=length, limit=limit, optimize=optimize)
    return cr.finish()
