"""C03 — a gated memory cell latches the written value and holds it."""
from bounded import gen
from bounded.run_memory import run_template_scope, run_history_scope
from checks.common import CheckRun

EXPLANATION = (
    "Template lemmas (per program of the enumerated scope, decided by SMT for ALL data values, thresholds and input "
    "histories): for the blueprint the real pipeline emits, from every settled state and after any single-input change the "
    "circuit is settled again within K ticks and every reader shows S3's next state (step), the same from the all-zero "
    "state (base), and a settled state exists (cover) — resp. reader(step^L(s)) == f(reader(s)) for every state (C04). "
    "P tier (unbounded): on the real MemoryLowerer._lower_standard_write, on every path, the write enable handed to the IR is "
    "on the reserved signal-W (decider retyped in place, +0 projection, or the constant 1), with the expression lowerer and "
    "the IR builder used by contract. B tier (bounded, never counted as proved): programs with standard (when=) cells — enable given as comparison, named "
    "comparison, compound condition; data typed / untyped / computed; several readers; two cells sharing an enable — are "
    "compiled by the real pipeline. The blueprint is simulated tick by tick with the S2 model from the all-zero state; "
    "after every held input step (one input changed, held until the circuit is stable) every reader, output anchor and "
    "entity condition must equal the S3 memory semantics (0 before the first enabled write, follows v while the enable is "
    "positive, holds the last written value afterwards). Histories: all sequences of the stated length over the stated "
    "value pools (thinned with a fixed stride above the limit). Constant conditions (when=1, when=<integer>, folded constants) and plain unconditional writes are part of the scope: "
    "a positive constant always writes, zero never does. P: whatever the condition is, the enable handed to the IR is a reference ON signal-W carrying it (contracts.c03), the "
    "analyser's write rules (contracts.c14c); boxes: who reads what from a wire (SignalAnalyzer.analyze), colour locks, removal of unused gates."
)


def run(tier):
    cr = CheckRun("C03", tier, "other", EXPLANATION, "DESIGN §4 C03")
    cr.contracts(["contracts.c03", "contracts.c04", "contracts.c02", "contracts.c05b", "contracts.cdispatch", "contracts.c14c"])
    progs = gen.c03_scope(tier)
    length, limit = (4, 60) if tier == "quick" else (5, 600)
    for optimize in (True, False):
        cr.bounded_check(run_history_scope, f"gated-cells-{'opt' if optimize else 'noopt'}", progs,
                         f"{len(progs)} programs x input histories of {length} single-input changes (<= {limit} per program); optimize={optimize}",
                         cr.known, length=length, limit=limit, optimize=optimize)
    for optimize in (True, False):
        cr.bounded_check(run_template_scope, f"template-lemmas-{'opt' if optimize else 'noopt'}", "history", progs,
                         f"{len(progs)} programs: cover + base + step lemmas (history) / round-trip lemma (iteration) by SMT over the S2 tick function; optimize={optimize}",
                         cr.known, optimize=optimize)
    from contracts import c02 as _c02
    from bounded.contract_enum import run_contract_enum as _rce
    from bounded import pipeline as _pl
    _pl.ensure_repo()
    largs = _c02.locked_colors_arg_sets()
    cr.bounded_check(_rce, "locked-wire-colours-box", _c02.locked_colors, largs,
                     f"{len(largs)} plans: every subset of (gated cell, folded cell, bundle OP signal, each CMP signal, gate over a merged bundle): the cell's gates and data on red, "
                     "the write enable on green, the folded cell's feedback on red (contract evaluated on the real LayoutPlanner._determine_locked_wire_colors)")
    from contracts import c13 as _c13
    aargs = _c13.analyze_arg_sets()
    cr.bounded_check(_rce, "signal-usage-box", _c13.analyze_c, aargs,
                     f"{len(aargs)} IR lists (one consumer of every kind over anonymous / declared constants): operands make consumers; the data and the ENABLE of a memory write and an "
                     "entity property are read from a wire, so their constants exist as combinators; constants that only feed operands are inlined (contract evaluated on the real "
                     "SignalAnalyzer.analyze)")
    from contracts import c04 as _c04
    cargs = _c04.cleanup_arg_sets()
    cr.bounded_check(_rce, "cleanup-gates-box", _c04.cleanup_gates, cargs,
                     f"{len(cargs)} plans of two cells: exactly the unused gates and the enable constant of a folded cell disappear with their wires (contract evaluated on the real "
                     "MemoryBuilder.cleanup_unused_gates)")
    return cr.finish()
