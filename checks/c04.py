"""C04 — self-referential writes iterate the written function exactly."""
from bounded import gen
from bounded.run_memory import run_template_scope, run_iteration_scope
from checks.common import CheckRun

EXPLANATION = (
    "Template lemmas (per program of the enumerated scope, decided by SMT for ALL data values, thresholds and input "
    "histories): for the blueprint the real pipeline emits, from every settled state and after any single-input change the "
    "circuit is settled again within K ticks and every reader shows S3's next state (step), the same from the all-zero "
    "state (base), and a settled state exists (cover) — resp. reader(step^L(s)) == f(reader(s)) for every state (C04). "
    "P tier (unbounded): MemoryBuilder._is_always_write is true exactly when the write enable is the constant 1 (literal or constant node). B tier (bounded): programs m.write(f(m.read())) with f a chain of 1..3 arithmetic steps over the cell, constants "
    "and held inputs (counter, modulo clock, accumulator, LFSR-style mix), extra readers before/after the write — "
    "compiled by the real pipeline with and without optimisation. The blueprint is simulated with the S2 tick model "
    "from the all-zero state; there must be ONE latency L in 1..10 with value(t+L) == f(value(t)) at every tick (after the "
    "stated warm-up for programs whose held input passes through a combinator), f being the S3 value of the written "
    "expression."
)


def run(tier):
    cr = CheckRun("C04", tier, "other", EXPLANATION, "DESIGN §4 C04")
    cr.contracts(["contracts.c04", "contracts.c03", "contracts.c02", "contracts.c05b"])
    progs = gen.c04_scope(tier)
    ticks = 48 if tier == "quick" else 120
    for optimize in (True, False):
        cr.bounded_check(run_iteration_scope, f"iteration-{'opt' if optimize else 'noopt'}", progs,
                         f"{len(progs)} programs, {ticks} ticks each, listed constant input valuations; optimize={optimize}",
                         cr.known, optimize=optimize, ticks=ticks)
    for optimize in (True, False):
        cr.bounded_check(run_template_scope, f"template-lemmas-{'opt' if optimize else 'noopt'}", "iteration", progs,
                         f"{len(progs)} programs: cover + base + step lemmas (history) / round-trip lemma (iteration) by SMT over the S2 tick function; optimize={optimize}",
                         cr.known, optimize=optimize)
    from bounded import pipeline
    from bounded.contract_enum import run_contract_enum
    from contracts import c12
    pipeline.ensure_repo()
    bargs = c12.bidi_arg_sets()
    cr.bounded_check(run_contract_enum, "bidirectional-pairs-box", c12.bidi, bargs,
                     f"{len(bargs)} edge sets of up to 3 edges over 3 entities: a feedback self-loop is its own reverse and is routed directly "
                     "(contract evaluated on the real ConnectionPlanner._find_bidirectional_pairs)")
    from contracts import c04
    fargs = c04.feedback_arg_sets()
    cr.bounded_check(run_contract_enum, "arithmetic-feedback-box", c04.optimize_feedback, fargs,
                     f"{len(fargs)} cells: 0..2 readers x a reader of another memory x one-step / two-step f x gates present / absent "
                     "(contract evaluated on the real MemoryBuilder._optimize_to_arithmetic_feedback with real SignalGraph / IR / plan objects)")
    sargs = c04.self_feedback_arg_sets()
    cr.bounded_check(run_contract_enum, "self-feedback-wire-box", c04.self_feedback, sargs,
                     f"{len(sargs)} plans of three placements, each flagged / flagged without signal / unflagged (contract evaluated on the real "
                     "ConnectionPlanner._add_self_feedback_connections)")
    cargs = c04.cleanup_arg_sets()
    cr.bounded_check(run_contract_enum, "cleanup-unused-gates-box", c04.cleanup_gates, cargs,
                     f"{len(cargs)} pairs of cells x (no gate / write gate / hold gate / both unused) (contract evaluated on the real MemoryBuilder.cleanup_unused_gates)")
    from contracts import c02 as _c02
    from bounded.contract_enum import run_contract_enum as _rce
    from bounded import pipeline as _pl
    _pl.ensure_repo()
    largs = _c02.locked_colors_arg_sets()
    cr.bounded_check(_rce, "locked-wire-colours-box", _c02.locked_colors, largs,
                     f"{len(largs)} plans: every subset of (gated cell, folded cell, bundle OP signal, each CMP signal, gate over a merged bundle): the cell's gates and data on red, "
                     "the write enable on green, the folded cell's feedback on red (contract evaluated on the real LayoutPlanner._determine_locked_wire_colors)")
    return cr.finish()
