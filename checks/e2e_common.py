"""Shared shape of the checks whose bounded part is 'compile a scope of programs with the real pipeline and
judge the blueprint (S2) against the source semantics (S3) by SMT for all inputs'."""
from bounded.run_e2e import run_programs
from checks.common import CheckRun


def run_e2e_property(prop, tier, explanation, design_ref, scopes, contract_modules=(), extra=None,
                     optimize_modes=(True, False), level="other", extra_modes=()):
    """scopes: [(label, [(id, src)], description)]"""
    cr = CheckRun(prop, tier, level, explanation, design_ref)
    if contract_modules:
        cr.contracts(list(contract_modules))
    for label, progs, desc in scopes:
        for optimize in optimize_modes:
            cr.bounded_check(run_programs, f"{label}-{'opt' if optimize else 'noopt'}", progs,
                             f"{len(progs)} programs: {desc}; optimize={optimize}; inputs: all int32 (SMT)",
                             cr.known, opts={"optimize": optimize})
        for mlabel, opts in extra_modes:
            cr.bounded_check(run_programs, f"{label}-{mlabel}", progs,
                             f"{len(progs)} programs: {desc}; options={opts}; inputs: all int32 (SMT)",
                             cr.known, opts=dict(opts), option_refusal_ok="power_pole_type" in opts)
    if extra:
        extra(cr)
    return cr.finish()
