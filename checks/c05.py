"""C05 — set/reset latches obey set, reset, hold and the declared priority."""
from bounded import gen
from bounded.run_memory import run_template_scope, run_history_scope
from checks.common import CheckRun

EXPLANATION = (
    "Template lemmas (per program of the enumerated scope, decided by SMT for ALL data values, thresholds and input "
    "histories): for the blueprint the real pipeline emits, from every settled state and after any single-input change the "
    "circuit is settled again within K ticks and every reader shows S3's next state (step), the same from the all-zero "
    "state (base), and a settled state exists (cover) — resp. reader(step^L(s)) == f(reader(s)) for every state (C04). "
    "B tier (bounded): latch programs (both argument orders; set/reset as boolean signals, as comparisons on one shared "
    "input with disjoint and overlapping thresholds, on different inputs, with the constant on the left; v = 1, another "
    "constant, a signal; a lamp driven by the cell) are compiled by the real pipeline and simulated with the S2 tick "
    "model; after every held step the cell's readers must show the S3 latch semantics (set, reset, hold, and the state "
    "named first when both are active). Histories over the boundary values of the thresholds, one change per step."
)


def run(tier):
    cr = CheckRun("C05", tier, "other", EXPLANATION, "DESIGN §4 C05")
    cr.contracts(["contracts.c05", "contracts.c05b", "contracts.cdispatch", "contracts.c04", "contracts.c07", "contracts.c07b", "contracts.c02"])
    progs = gen.c05_scope(tier)
    length, limit = (4, 60) if tier == "quick" else (6, 800)
    for optimize in (True, False):
        cr.bounded_check(run_history_scope, f"latches-{'opt' if optimize else 'noopt'}", progs,
                         f"{len(progs)} programs x input histories of {length} single-input changes (<= {limit} per program); optimize={optimize}",
                         cr.known, length=length, limit=limit, optimize=optimize)
    for optimize in (True, False):
        cr.bounded_check(run_template_scope, f"template-lemmas-{'opt' if optimize else 'noopt'}", "history", progs,
                         f"{len(progs)} programs: cover + base + step lemmas (history) / round-trip lemma (iteration) by SMT over the S2 tick function; optimize={optimize}",
                         cr.known, optimize=optimize)
    from contracts import cparse as _cparse
    from bounded.contract_enum import run_contract_enum as _rce_parse
    from bounded import pipeline as _pl_parse
    _pl_parse.ensure_repo()
    _sargs = _cparse.statement_arg_sets()
    cr.bounded_check(_rce_parse, "statement-forms-box", _cparse.statement_c, _sargs,
                     f"{len(_sargs)} statement texts (loop headers with negative / named bounds and steps, value lists, declarations, memory writes with when / set / reset in both "
                     "orders, place arguments and property dictionaries, function parameters, bundle forms): the real parser's tree carries exactly what the text says — S3 takes its trees "
                     "from that parser (contract evaluated on the real DSLParser.parse)")
    return cr.finish()
