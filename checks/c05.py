"""C05 — set/reset latches obey set, reset, hold and the declared priority."""
from bounded import gen
from bounded.run_memory import run_history_scope
from checks.common import CheckRun

EXPLANATION = (
    "B tier (bounded): latch programs (both argument orders; set/reset as boolean signals, as comparisons on one shared "
    "input with disjoint and overlapping thresholds, on different inputs, with the constant on the left; v = 1, another "
    "constant, a signal; a lamp driven by the cell) are compiled by the real pipeline and simulated with the S2 tick "
    "model; after every held step the cell's readers must show the S3 latch semantics (set, reset, hold, and the state "
    "named first when both are active). Histories over the boundary values of the thresholds, one change per step."
)


def run(tier):
    cr = CheckRun("C05", tier, "other", EXPLANATION, "DESIGN §4 C05")
    progs = gen.c05_scope(tier)
    length, limit = (4, 60) if tier == "quick" else (6, 800)
    for optimize in (True, False):
        cr.bounded_check(run_history_scope, f"latches-{'opt' if optimize else 'noopt'}", progs,
                         f"{len(progs)} programs x input histories of {length} single-input changes (<= {limit} per program); optimize={optimize}",
                         cr.known, length=length, limit=limit, optimize=optimize)
    return cr.finish()
