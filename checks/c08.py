"""C08 — every emitted blueprint can be pasted: no overlaps, all wires reach."""
from bounded import gen
from bounded.geometry import run_geometry_scope
from checks.common import CheckRun

EXPLANATION = (
    "B tier (bounded): the blueprints the real pipeline emits for the placement, interleaving, optimisation, memory and "
    "latch scopes (user entities far apart, multi-tile prototypes, fan-out, relays) under {no poles, small, medium, big, "
    "substation} x {optimise on/off} are checked against S4 (prototype collision boxes and wire reach from the game data "
    "shipped with draftsman): no two collision boxes intersect; every wire joins two existing entities at connectors they "
    "have, with the same colour at both ends; every circuit wire is no longer than the reach of both ends; and no circuit "
    "network joins two different components of the compiler's own signal graph (relay isolation)."
)


def scope(tier):
    progs = [(p, s) for p, s in gen.c09_scope(tier) + gen.c12_scope(tier)[:8] + gen.c10_scope(tier)]
    progs += [(p, s) for p, s, _ in gen.c03_scope(tier)[:5] + gen.c05_scope(tier)[:5]]
    progs += [(p, s) for p, s, *_ in gen.c04_scope(tier)[:4]]
    return progs


MODES_QUICK = [{"optimize": True}, {"optimize": False}, {"optimize": True, "power_pole_type": "small"},
               {"optimize": True, "power_pole_type": "medium"}]
MODES_FULL = MODES_QUICK + [{"optimize": True, "power_pole_type": "big"}, {"optimize": True, "power_pole_type": "substation"},
                            {"optimize": False, "power_pole_type": "medium"}]


def run(tier):
    cr = CheckRun("C08", tier, "other", EXPLANATION, "DESIGN §4 C08")
    progs = scope(tier)
    modes = MODES_QUICK if tier == "quick" else MODES_FULL
    cr.bounded_check(run_geometry_scope, "pasteable", progs, modes, ("paste", "relay"),
                     f"{len(progs)} programs x {len(modes)} option sets", cr.known)
    return cr.finish()
