"""C08 — every emitted blueprint can be pasted: no overlaps, all wires reach."""
from bounded import gen
from bounded.geometry import run_geometry_scope
from checks.common import CheckRun

EXPLANATION = (
    "P tier (unbounded): on the real RelayNode.can_route_network / add_network the relay invariant 'at most one network per "
    "colour per relay' is preserved given the call-site precondition, which is discharged on the AST of "
    "_find_or_create_relay_near (every reused relay is returned under its can_route_network guard); TileGrid.is_available / "
    "mark_occupied / reserve_exact are proved against set-of-tiles postconditions (a relay is placed only on a tile that "
    "was free, and exactly its footprint becomes occupied); _route_connection_with_relays asks the relay network under the "
    "edge's own network id; _restore_preserved_connection re-attaches a memory / latch wire unchanged only within reach and "
    "otherwise bridges it on a private network id (or flags the attempt as failed); and, as a frame obligation on "
    "connection_planner.py, wires enter the plan only through those functions. B tier (bounded): the blueprints the real pipeline emits for the placement, interleaving, optimisation, memory and "
    "latch scopes (user entities far apart, multi-tile prototypes, fan-out, relays) under {no poles, small, medium, big, "
    "substation} x {optimise on/off} are checked against S4 (prototype collision boxes and wire reach from the game data "
    "shipped with draftsman): no two collision boxes intersect; every wire joins two existing entities at connectors they "
    "have, with the same colour at both ends; every circuit wire is no longer than the reach of both ends; and no circuit "
    "network joins two different components of the compiler's own signal graph (relay isolation). The same scope is compiled "
    "again under a LAYOUT ADVERSARY — the CP-SAT model the real engine builds, with its objective maximised instead of "
    "minimised (a feasible outcome of a time-limited search, about the worst one): every connection is then far longer than a "
    "wire reaches and must be bridged by relays, including the wires memories and latches add outside the routed edge set."
)


def scope(tier):
    progs = [(p, s) for p, s in gen.c09_scope(tier) + gen.c12_scope(tier)[:8] + gen.c10_scope(tier)]
    progs += [(p, s) for p, s, _ in gen.c03_scope(tier)[:5] + gen.c05_scope(tier)[:5]]
    progs += [(p, s) for p, s, *_ in gen.c04_scope(tier)[:4]]
    return progs


MODES_QUICK = [{"optimize": True}, {"optimize": False}, {"optimize": True, "power_pole_type": "small"},
               {"optimize": True, "power_pole_type": "medium"}]
# layout adversary (bounded.pipeline.adversarial_layout): the real CP-SAT model with its objective MAXIMISED — a feasible
# placement a time-limited / overloaded solver may return, with every connection as long as the hard constraints allow
ADVERSARY_QUICK = [{"optimize": True, "layout_adversary": True}, {"optimize": False, "layout_adversary": True}]
ADVERSARY_FULL = ADVERSARY_QUICK + [{"optimize": True, "power_pole_type": "medium", "layout_adversary": True},
                                    {"optimize": True, "power_pole_type": "substation", "layout_adversary": True}]
MODES_FULL = MODES_QUICK + [{"optimize": True, "power_pole_type": "big"}, {"optimize": True, "power_pole_type": "substation"},
                            {"optimize": False, "power_pole_type": "medium"}]


def run(tier):
    cr = CheckRun("C08", tier, "other", EXPLANATION, "DESIGN §4 C08")
    cr.contracts(["contracts.c08", "contracts.c12"])
    from pyvc import guards
    cr.ext_obligations.append(guards.guarded_returns(
        "dsl_compiler/src/layout/connection_planner.py::RelayNetwork._find_or_create_relay_near",
        "can_route_network", ("network_id", "wire_color"), allowed_calls=("_create_relay_directed",)))
    # frame: a wire enters the plan only through the relay-chain builder (hops within the span, contracts above), the
    # preserved-wire restorer (contract: unchanged only within reach) or the zero-length self-feedback wire
    cr.ext_obligations.append(guards.writes_only_through(
        "dsl_compiler/src/layout/connection_planner.py", "wire_connections", "add_wire_connection",
        {"_create_relay_chain", "_restore_preserved_connection", "_add_self_feedback_connections"}))
    from bounded import pipeline
    from bounded.contract_enum import run_contract_enum
    from contracts import c08 as _c08
    pipeline.ensure_repo()
    rargs = _c08.route_signal_arg_sets()
    cr.bounded_check(run_contract_enum, "relay-routing-box", _c08.route_signal_box, rargs,
                     f"{len(rargs)} routes (distances 5..60 in eight directions x free / walled / scattered ground x no / same-network / other-network earlier routes on the same or the other "
                     "colour): every hop within the span, every relay carries this network alone on this colour, new relays on free tiles and in the plan, a path is always found on "
                     "free ground (contract evaluated on the real RelayNetwork.route_signal and the five functions below it)")
    from contracts import c12 as _c12
    pcargs = _c12.plan_connections_arg_sets()
    cr.bounded_check(run_contract_enum, "plan-connections-box", _c12.plan_connections_c, pcargs,
                     f"{len(pcargs)} wire plans (1..5 graph edges incl. an internal feedback signal and a memory feedback edge x merge / lock modes x earlier wires x failing step): circuit "
                     "edges = graph edges minus internal feedback; colour = edge lock, else planned, none for memory feedback; earlier wires restored once each after the new ones; "
                     "True iff nothing flagged a routing failure (contract evaluated on the real ConnectionPlanner.plan_connections, sub-steps recorded)")
    progs = scope(tier)
    modes = MODES_QUICK if tier == "quick" else MODES_FULL
    cr.bounded_check(run_geometry_scope, "pasteable", progs, modes, ("paste", "relay"),
                     f"{len(progs)} programs x {len(modes)} option sets", cr.known)
    amodes = ADVERSARY_QUICK if tier == "quick" else ADVERSARY_FULL
    cr.bounded_check(run_geometry_scope, "pasteable-adversarial-layout", progs, amodes, ("paste", "relay"),
                     f"{len(progs)} programs x {len(amodes)} option sets, each under the layout adversary (objective of the real CP-SAT model "
                     "maximised, single worker, deterministic work limit): placements as bad as the hard constraints allow", cr.known)
    return cr.finish()
