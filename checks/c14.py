"""C14 — ill-formed programs are rejected and produce no blueprint."""
from bounded import gen
from bounded.reject import run_reject_scope
from checks.common import CheckRun

EXPLANATION = (
    "P tier (unbounded): exceptional postconditions on the real ProgramDiagnostics.error (raises iff raise_errors, "
    "else counts the error so has_errors() holds), SymbolTable.define (raises iff the name is bound in THIS scope, "
    "otherwise binds exactly that name) and SymbolTable.lookup (innermost binding; recursion by contract); the analyser's rules for declarations, assignments, calls, "
    "loops, memory writes (one error per violated rule: one write per cell through every scope and loop, type contradiction, latch arguments) and every leaf of infer_expr_type; "
    "the lowering's refusal of a cell written again through a call or an iteration; in both pipeline drivers "
    "(compile_dsl_source, compile_dsl_file) every stage is followed by an abort on recorded errors before any success "
    "return (AST control dependence). B tier "
    "(bounded): for each documented static rule a minimal violating construct is embedded at top level, in a called "
    "function body, in loop bodies and nested positions of an accepted host program; the real compile_dsl_source must "
    "refuse it with an error message and return nothing that looks like a blueprint; the hosts themselves must be accepted."
)


def run(tier):
    cr = CheckRun("C14", tier, "other", EXPLANATION, "DESIGN §4 C14")
    cr.contracts(["contracts.c14", "contracts.c14b", "contracts.c14c", "contracts.c14d", "contracts.c05b"])
    from pyvc import guards
    stages = ["parse", "visit", "lower_program", "plan_layout", "emit_from_plan"]
    for q in ("dsl_compiler/cli.py::compile_dsl_source", "compile.py::compile_dsl_file"):
        cr.ext_obligations.append(guards.stage_guards(q, stages))
    progs = gen.c14_scope(tier)
    cr.bounded_check(run_reject_scope, "ill-formed-embeddings", progs, gen.c14_accepted_hosts(),
                     f"{len(progs)} programs = 22 rules x violating snippets x embeddings; {len(gen.c14_accepted_hosts())} accepted controls", cr.known)
    from contracts import cparse as _cparse
    from bounded.contract_enum import run_contract_enum as _rce_parse
    from bounded import pipeline as _pl_parse
    _pl_parse.ensure_repo()
    _sargs = _cparse.statement_arg_sets()
    cr.bounded_check(_rce_parse, "statement-forms-box", _cparse.statement_c, _sargs,
                     f"{len(_sargs)} statement texts (loop headers with negative / named bounds and steps, value lists, declarations, memory writes with when / set / reset in both "
                     "orders, place arguments and property dictionaries, function parameters, bundle forms): the real parser's tree carries exactly what the text says — S3 takes its trees "
                     "from that parser (contract evaluated on the real DSLParser.parse)")
    return cr.finish()
