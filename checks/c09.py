"""C09 — user-placed entities appear once, where and how the program says."""
from bounded import gen
from checks.e2e_common import run_e2e_property

EXPLANATION = (
    "P tier: constant extraction for coordinates (ConstantFolder contracts shared with C11). B tier (bounded): programs "
    "placing entities at literal / int-variable / loop-iterator / function-argument coordinates (negative coordinates, "
    "multi-tile prototypes) are compiled by the real pipeline, with and without power poles; the multiset of "
    "non-compiler entities of the blueprint must be exactly one entity of the given prototype per executed place(), "
    "with top-left tile (x, y) computed by S3."
)


def run(tier):
    progs = gen.c09_scope(tier)
    return run_e2e_property("C09", tier, EXPLANATION, "DESIGN §4 C09",
                            [("e2e-placement", progs, "place() at constant coordinates: literals, int variables, loops, calls, multi-tile")],
                            contract_modules=["contracts.c11", "contracts.c15", "contracts.c09", "contracts.c02"],
                            extra_modes=[("poles-medium", {"power_pole_type": "medium"})] + (
                                [("poles-small", {"power_pole_type": "small"}), ("poles-big", {"power_pole_type": "big"}),
                                 ("poles-substation", {"power_pole_type": "substation"})] if tier != "quick" else []))
