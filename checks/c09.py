"""C09 — user-placed entities appear once, where and how the program says."""
from bounded import gen
from checks.e2e_common import run_e2e_property

EXPLANATION = (
    "P tier: constant extraction for coordinates (ConstantFolder contracts shared with C11; _try_extract_const_value; _extract_coordinate), the IR builder's place_entity, "
    "and the placer: a place() becomes exactly one placement with the user's prototype at the user's tile (_place_user_entity). B tier (bounded): programs "
    "placing entities at literal / int-variable / loop-iterator / function-argument coordinates (negative coordinates, "
    "multi-tile prototypes) are compiled by the real pipeline, with and without power poles; the multiset of "
    "non-compiler entities of the blueprint must be exactly one entity of the given prototype per executed place(), "
    "with top-left tile (x, y) computed by S3."
)


def _fixed_box(cr):
    from bounded import pipeline
    from bounded.contract_enum import run_contract_enum
    from contracts import c09
    pipeline.ensure_repo()
    args = c09.fixed_positions_arg_sets()
    cr.bounded_check(run_contract_enum, "fixed-positions-box", c09.fixed_positions, args,
                     f"{len(args)} plans (user entity at 15 tiles x 3 footprints, a grid pole at 3 centres, a free combinator): the user's tile is the ONLY value in the "
                     "entity's CP-SAT domain, so no solver outcome can move it (contract evaluated on the real IntegerLayoutEngine._identify_fixed_positions / "
                     "_create_position_variables with a real CP-SAT model)")


def run(tier):
    progs = gen.c09_scope(tier)
    return run_e2e_property("C09", tier, EXPLANATION, "DESIGN §4 C09",
                            [("e2e-placement", progs, "place() at constant coordinates: literals, int variables, loops, calls, multi-tile")],
                            contract_modules=["contracts.c11", "contracts.c15", "contracts.c09", "contracts.c02", "contracts.cdispatch", "contracts.c01c", "contracts.c14d"], extra=_fixed_box,
                            extra_modes=[("poles-medium", {"power_pole_type": "medium"})] + (
                                [("poles-small", {"power_pole_type": "small"}), ("poles-big", {"power_pole_type": "big"}),
                                 ("poles-substation", {"power_pole_type": "substation"})] if tier != "quick" else []))
