"""C07 — the printed blueprint string carries the whole circuit."""
from bounded.cli_matrix import PROGRAMS, configs, run_cli_matrix
from checks.common import CheckRun

EXPLANATION = (
    "K8/K9. P tier: on the real PlanEntityEmitter._configure_decider, for each comparator, the emitted condition (draftsman "
    "constructors used by assumed contract) means `left CMP right` for all operand kinds and each operand keeps its wire "
    "selection, incl. the mirrored constant-first form; the call-site precondition of the (assumed) draftsman serialisation contract — every to_dict / to_string "
    "call in cli.py and compile.py passes version=blueprint.version_tuple() — is discharged on the AST of the real files; in both pipeline drivers every stage object is constructed after the stage it "
    "depends on has run (the emitter after layout, which completes the signal map the emitter keeps). B tier (bounded): the real CLIs (python -m dsl_compiler.cli, python -m dsl_compiler, compile.py) are run as "
    "subprocesses over {file, -i} x {string, --json} x {stdout, -o} x {default, --no-optimize, --power-poles, --name}; the "
    "emitted text is decoded with the standard library (base64 + zlib + JSON / JSON); every combinator must carry its "
    "configuration, wires must be present, all invocations of one program must describe the same configured entities, and "
    "the decoded blueprint is executed by the S2 model and compared with S3 for all int32 inputs (SMT) — so a dropped "
    "control_behavior, operand, network selection or wire changes the verdict."
)


def run(tier):
    cr = CheckRun("C07", tier, "other", EXPLANATION, "DESIGN §4 C07")
    cr.contracts(["contracts.c07", "contracts.c07b", "contracts.c11"])
    from pyvc import guards
    for f in ("dsl_compiler/cli.py", "compile.py"):
        for m in ("to_dict", "to_string"):
            cr.ext_obligations.append(guards.call_has_keyword(f, m, "version", "blueprint.version_tuple()"))
    order = {"BlueprintEmitter": "plan_layout", "LayoutPlanner": "lower_program", "ASTLowerer": "visit"}
    for q in ("dsl_compiler/cli.py::compile_dsl_source", "compile.py::compile_dsl_file"):
        cr.ext_obligations.append(guards.stage_order(q, order))
    cr.trusted.append("ASSUMED contract on draftsman 4.0.0: Blueprint.to_dict/to_string(version=v) is lossless for the 2.0 fields "
                      "iff the converter selected by v is the 2.0 one (measured: default 2.1 converter drops control_behavior)")
    cr.bounded_check(run_cli_matrix, "cli-matrix", tier,
                     f"{len(PROGRAMS)} programs x {len(configs(tier))} invocation modes" + (" (every third pairing in quick)" if tier == "quick" else ""),
                     cr.known)
    from checks.boxes import data_structure_boxes
    data_structure_boxes(cr, ("plan",))
    return cr.finish()
