"""Entry point: python -m checks.run <Cxx> [--tier quick|thorough] [--replay FILE] [--selftest]"""
from __future__ import annotations

import argparse
import importlib
import os
import sys
import traceback


def main():
    ap = argparse.ArgumentParser()
    ap.add_argument("prop")
    ap.add_argument("--tier", default=os.environ.get("VERIF_TIER", "quick"), choices=["quick", "thorough"])
    ap.add_argument("--replay")
    args = ap.parse_args()
    prop = args.prop.upper()
    try:
        mod = importlib.import_module(f"checks.{prop.lower()}")
    except ModuleNotFoundError:
        print(f"CHECKER-FAILURE: no check for {prop}")
        return 3
    try:
        if args.replay:
            from checks.replay import replay_file
            return replay_file(prop, args.replay)
        return mod.run(args.tier)
    except Exception:
        traceback.print_exc()
        print(f"CHECKER-FAILURE: {prop} crashed")
        return 3


if __name__ == "__main__":
    sys.exit(main())
