"""C17 — imports are textual inclusion and the standard library meets its contracts."""
from bounded import gen
from bounded.imports import run_import_scope
from bounded.run_e2e import run_programs
from bounded.library import library_obligations
from checks.common import CheckRun

EXPLANATION = (
    "Library (deductive, all int32 arguments): lib/math.facto is parsed by the repo's own parser on every run; each "
    "function body is evaluated by the S3 source semantics to a bit-vector term over symbolic arguments and proved by SMT "
    "to satisfy its documented meaning (spec/libdocs.py, written from doc/LIBRARY_REFERENCE.md) on the documented domain "
    "— one discharged obligation per function; this verifies the library TEXT and assumes C01 (the compiler implements "
    "S3). Imports (bounded): all import graphs over three generated files and the main file (chains, diamonds, repeated "
    "imports, self- and mutual cycles, cycles through the main file) in several working directories are compiled by the "
    "real pipeline; the result must equal (S2 vs S3 by SMT) the program with every file pasted in once; at function level the TEXT preprocess_imports returns is "
    "compared line by line with the documented inclusion, and resolve_import_path with the documented search order (both bounded, on the real functions)."
)


def run(tier):
    cr = CheckRun("C17", tier, "other", EXPLANATION, "DESIGN §4 C17")
    cr.contracts(["contracts.c15", "contracts.c10", "contracts.c11"])  # name resolution; folding of library bodies called with literals inside inlined library bodies (parameter shadows an outer name)
    from pyvc import guards
    # each file is expanded at most once: the recursion shares ONE processed_files set (a copy forgets what siblings imported)
    cr.ext_obligations.append(guards.call_passes_param(
        "dsl_compiler/src/parsing/preprocessor.py::preprocess_imports", "preprocess_imports", 2, "processed_files", keyword="processed_files"))
    cr.ext_obligations.extend(library_obligations(60000 if tier == "quick" else 300000))
    cr.trusted.append("S3 (spec/facto_sem.py) as the meaning of the library text; spec/libdocs.py as the meaning of the documentation")
    progs = gen.c17_library_scope(tier)
    for optimize in (True, False):
        cr.bounded_check(run_programs, f"library-calls-{'opt' if optimize else 'noopt'}", progs,
                         f"{len(progs)} programs importing lib/math.facto whose own int names collide with library parameter names; optimize={optimize}",
                         cr.known, opts={"optimize": optimize})
    cr.bounded_check(run_import_scope, "import-graphs", tier, "import graphs over 3 files + main x working directories", cr.known)
    from bounded import pipeline
    from bounded.contract_enum import run_contract_enum
    from contracts import c17
    pipeline.ensure_repo()
    try:
        rargs = c17.resolve_arg_sets()
        cr.bounded_check(run_contract_enum, "resolve-import-path-box", c17.resolve_path, rargs,
                         f"{len(rargs)} directory layouts (file present / absent next to the importer and in two FACTORIO_IMPORT_PATH directories; with and without an importing "
                         "directory): the first existing candidate in the documented order (contract evaluated on the real resolve_import_path)")
        pargs = c17.preprocess_arg_sets(tier)
        cr.bounded_check(run_contract_enum, "preprocess-imports-text-box", c17.preprocess, pargs,
                         f"{len(pargs)} import graphs (three library files, one in a sub-directory, x four main programs, written to a scratch directory): the expanded TEXT is the "
                         "line-by-line inclusion — first import pasted, later ones one comment line, every other line kept once, in order, unchanged (contract evaluated on the real "
                         "preprocess_imports)")
    finally:
        c17.cleanup()
    return cr.finish()
