"""Shared check driver: runs P-tier contracts (pyvc) and B-tier bounded stand-ins, writes evidence,
prints VIOLATION / KNOWN-FINDING lines, maps verdicts to exit codes.

Exit codes: 0 held (proved / bounded-held / known finding) · 1 violation · 2 undecided · 3 checker failure.
"""
from __future__ import annotations

import concurrent.futures as cf
import importlib
import json
import multiprocessing as mp
import os
import sys
import time
import traceback
from dataclasses import asdict, dataclass, field
from pathlib import Path

VERIF = Path(__file__).resolve().parent.parent
REPO = Path(os.environ.get("FACTO_REPO", "/repo"))
_OUT = Path(os.environ["VERIF_OUT"]) if os.environ.get("VERIF_OUT") else VERIF
EVIDENCE = _OUT / "evidence"
REPLAYS = _OUT / "replays"
KNOWN_FILE = VERIF / "KNOWN_FINDINGS.jsonl"
NPROC = int(os.environ.get("VERIF_NPROC", "16"))

COMPOSITION = ("composition lemma (DESIGN §3.3): the per-stage contracts K1..K9 compose to the end-to-end "
               "property; argued on paper, not machine-checked")


def load_known():
    """{finding id -> entry} for entries that are *open* known findings (fixed: lines suppress nothing)."""
    out = {}
    if KNOWN_FILE.exists():
        for line in KNOWN_FILE.read_text().splitlines():
            line = line.strip()
            if not line or line.startswith("#") or line.startswith("fixed:"):
                continue
            e = json.loads(line)
            out[e["id"]] = e
    return out


@dataclass
class BoundedResult:
    name: str
    scope: str
    cases: int = 0
    distinct: int = 0
    exhaustive: bool = False
    violations: list = field(default_factory=list)  # [{what, witness, finding?}]
    known_hits: list = field(default_factory=list)  # [{id, what}]
    undecided: list = field(default_factory=list)
    samples: list = field(default_factory=list)
    monitors: dict = field(default_factory=dict)  # contract name -> evaluations
    wall_s: float = 0.0
    error: str | None = None
    assumptions: list = field(default_factory=list)
    kind: str = "B-enum"
    function: str | None = None  # contract boxes: the real function the contract is evaluated on


def _verify_worker(job):
    modname, idx, known_ids, case_key, case_vals = job
    sys.path.insert(0, str(VERIF))
    import copy
    from pyvc.verify import verify_function
    mod = importlib.import_module(modname)
    c = mod.CONTRACTS[idx]
    if case_key is not None:
        c = copy.copy(c)
        c.case_split = dict(c.case_split)
        c.case_split[case_key] = list(case_vals)
        c.min_obligations = 0
    reg = getattr(mod, "REGISTRY", {})
    rep = verify_function(c, reg, frozenset(known_ids))
    rep.assumptions = sorted(rep.assumptions)
    return modname, idx, rep


def _merge(a, b):
    a.paths += b.paths
    a.paths_covered += b.paths_covered
    a.results.extend(b.results)
    a.out_of_subset = a.out_of_subset or b.out_of_subset
    a.error = a.error or b.error
    a.assumptions = sorted(set(a.assumptions) | set(b.assumptions))
    a.solver_ms += b.solver_ms
    a.wall_s = max(a.wall_s, b.wall_s)
    a.canary_ok = a.canary_ok or b.canary_ok
    return a


def run_contracts(modnames, known_ids, only_property=None):
    """Verify every contract of the given sidecar modules in a process pool."""
    jobs = []
    meta = {}
    for m in modnames:
        mod = importlib.import_module(m)
        for i, c in enumerate(mod.CONTRACTS):
            if not c.verify:
                continue
            if only_property and c.properties and only_property not in c.properties:
                continue
            meta[(m, i)] = c
            if c.case_split:
                k0 = next(iter(c.case_split))
                for v in c.case_split[k0]:
                    jobs.append((m, i, sorted(known_ids), k0, [v]))
            else:
                jobs.append((m, i, sorted(known_ids), None, None))
    reports = []
    if not jobs:
        return reports, meta
    ctx = mp.get_context("spawn")
    with cf.ProcessPoolExecutor(max_workers=min(NPROC, len(jobs)), mp_context=ctx) as ex:
        merged = {}
        for m, i, rep in ex.map(_verify_worker, jobs):
            if (m, i) in merged:
                _merge(merged[(m, i)], rep)
            else:
                merged[(m, i)] = rep
        reports = list(merged.items())
    return reports, meta


def assumed_contracts(modnames):
    out = []
    for m in modnames:
        mod = importlib.import_module(m)
        for c in mod.CONTRACTS:
            if not c.verify and "bounded stand-in" in (c.note or ""):
                out.append(f"BOUNDED contract (evaluated on the real function over an enumerated box, never counted as proved): {c.qualname}")
            elif not c.verify:
                out.append(f"ASSUMED contract (dependency, not verified): {c.qualname} — {c.note}")
        out.extend(getattr(mod, "TRUSTED", []))
    return out


class CheckRun:
    def __init__(self, prop, tier, level, explanation, design_ref=""):
        self.prop = prop
        self.tier = tier
        self.level = level
        self.explanation = explanation
        self.seed = int(os.environ.get("VERIF_SEED", "0"))
        self.t0 = time.time()
        self.known = load_known()
        self.reports = []  # [((mod, idx), FunctionReport)]
        self.meta = {}
        self.bounded = []
        self.violations = []  # (replay path, suffix)
        self.known_lines = []
        self.undecided = []
        self.failures = []
        self.trusted = []
        self.assumptions = []
        self.selftest = None
        self.extra = {}
        self.ext_obligations = []  # [{name,status,backend,ms,vc,witness?,detail?}] discharged outside pyvc

    # ------------------------------------------------------------------ P tier
    def contracts(self, modnames):
        kids = {k for k, e in self.known.items() if e.get("property") == self.prop or self.prop in e.get("also", [])}
        kids |= {k for k, e in self.known.items()}  # class predicates are obligation-specific anyway
        reps, meta = run_contracts(modnames, kids, self.prop)
        self.reports.extend(reps)
        self.meta.update(meta)
        self.trusted.extend(assumed_contracts(modnames))

    # ------------------------------------------------------------------ B tier
    def bounded_check(self, fn, *args, **kw):
        t0 = time.time()
        try:
            r = fn(*args, **kw)
        except Exception as e:
            r = BoundedResult(getattr(fn, "__name__", "bounded"), "?")
            r.error = f"{type(e).__name__}: {e}\n{traceback.format_exc()[-2000:]}"
        r.wall_s = round(time.time() - t0, 2)
        self.bounded.append(r)
        return r

    # ------------------------------------------------------------------ finish
    def finish(self):
        (REPLAYS / self.prop).mkdir(parents=True, exist_ok=True)
        for old in (REPLAYS / self.prop).glob("*.json"):  # records of earlier runs say nothing about this tree
            old.unlink()
        EVIDENCE.mkdir(parents=True, exist_ok=True)
        obligations = discharged = 0
        functions = []
        samples = []
        backends = {}
        solver_ms = 0.0
        known_hit_ids = {}
        for key, rep in self.reports:
            c = self.meta[key]
            f = {"qualname": rep.qualname, "file": rep.file, "lines": list(rep.lines), "sha256": rep.sha256,
                 "tier": "P", "paths": rep.paths, "obligations": rep.obligations, "proved": rep.proved,
                 "solver_ms": round(rep.solver_ms, 1), "wall_s": round(rep.wall_s, 2)}
            inlined = sorted(k for k, v in (c.uses or {}).items() if v == "inline" and not k.startswith(("opaque.", "fn:")))
            if inlined:
                f["inlined_callees"] = inlined   # executed as part of this function's paths (their bodies are verified text too)
            if rep.error:
                f["error"] = rep.error
                self.failures.append(f"{rep.qualname}: {rep.error[:300]}")
            if rep.out_of_subset:
                f["undecided"] = rep.out_of_subset
                self.undecided.append(f"{rep.qualname}: out of subset / drift: {rep.out_of_subset}")
            elif not rep.error:
                if rep.obligations < c.min_obligations:
                    self.failures.append(f"{rep.qualname}: only {rep.obligations} obligations (< {c.min_obligations}): vacuous")
                if not rep.canary_ok:
                    self.failures.append(f"{rep.qualname}: no path reaches a postcondition (vacuous requires?)")
            functions.append(f)
            solver_ms += rep.solver_ms
            self.assumptions.extend(rep.assumptions)
            for r in rep.results:
                obligations += 1
                oname = f"{c.short}:{r.case}:{r.name}:path{r.path_id}".replace(" ", "_")
                if r.status == "proved":
                    discharged += 1
                    backends[r.backend] = backends.get(r.backend, 0) + 1
                    if len(samples) < 6:
                        samples.append({"obligation": oname, "status": "proved", "backend": r.backend,
                                        "ms": round(r.ms, 1), "vc": r.smt_head})
                elif r.status == "known-finding":
                    # the re-posed obligation `post OR class(finding)` was discharged by the solver
                    discharged += 1
                    backends[r.backend] = backends.get(r.backend, 0) + 1
                    known_hit_ids.setdefault(r.finding, []).append(oname)
                elif r.status in ("violated", "violated-noinput"):
                    path = REPLAYS / self.prop / (_safe(oname) + ".json")
                    path.write_text(json.dumps({
                        "property": self.prop, "kind": "P", "qualname": rep.qualname, "obligation": r.name,
                        "case": r.case, "path": r.detail, "counter_model": r.model, "replay": r.replay,
                        "solver": r.backend, "vc": r.smt_head,
                        "how": f"./check {self.prop} --replay {_rel(path)}"}, indent=1, default=str))
                    suffix = "" if r.status == "violated" else " no-failing-input-found"
                    self.violations.append((str(_rel(path)), suffix, oname))
                else:
                    self.undecided.append(f"{oname}: {r.status} {r.detail[:200]}")
        for ob in self.ext_obligations:
            obligations += 1
            solver_ms += ob.get("ms", 0.0)
            if ob["status"] == "proved":
                discharged += 1
                backends[ob["backend"]] = backends.get(ob["backend"], 0) + 1
                if len(samples) < 8:
                    samples.append({"obligation": ob["name"], "status": "proved", "backend": ob["backend"], "ms": round(ob["ms"], 1), "vc": ob.get("vc", "")})
            elif ob["status"] == "violated":
                path = REPLAYS / self.prop / (_safe(ob["name"]) + ".json")
                path.write_text(json.dumps({"property": self.prop, "kind": "P(library)", **ob,
                                            "how": f"./check {self.prop} --replay {_rel(path)}"}, indent=1, default=str))
                self.violations.append((str(_rel(path)), "" if ob.get("witness") else " no-failing-input-found", ob["name"]))
            else:
                self.undecided.append(f"{ob['name']}: {ob.get('detail', 'undecided')}")
        for fid, obls in known_hit_ids.items():
            e = self.known.get(fid, {})
            self.known_lines.append(f"KNOWN-FINDING: property={self.prop} {fid}: {e.get('what', '')} [{len(obls)} obligation(s)]")
        bsum = []
        for b in self.bounded:
            d = {"name": b.name, "kind": b.kind, "scope": b.scope, "cases": b.cases, "distinct_nontrivial": b.distinct,
                 "exhaustive": b.exhaustive, "violations": len(b.violations), "known_findings": [k["id"] for k in b.known_hits],
                 "monitors": b.monitors, "wall_s": b.wall_s, "label": "bounded (never counted as proved)"}
            if b.function:
                d["function"] = b.function
            if b.error:
                d["error"] = b.error
                self.failures.append(f"bounded {b.name}: {b.error[:400]}")
            bsum.append(d)
            for s in b.samples[:3]:
                samples.append({"bounded": b.name, "case": s})
            self.assumptions.extend(b.assumptions)
            for u in b.undecided:
                self.undecided.append(f"bounded {b.name}: {u}")
            seen = set()
            for k in b.known_hits:
                if k["id"] in seen:
                    continue
                seen.add(k["id"])
                n = sum(1 for x in b.known_hits if x["id"] == k["id"])
                e = self.known.get(k["id"], {})
                self.known_lines.append(f"KNOWN-FINDING: property={self.prop} {k['id']}: {e.get('what', k.get('what', ''))} [{n} case(s) in {b.name}]")
            for i, v in enumerate(b.violations):
                path = REPLAYS / self.prop / (_safe(f"{b.name}_{i}") + ".json")
                path.write_text(json.dumps({"property": self.prop, "kind": b.kind, "check": b.name, "scope": b.scope,
                                            **v, "how": f"./check {self.prop} --replay {_rel(path)}"},
                                           indent=1, default=str))
                suffix = "" if v.get("witness") is not None else " no-failing-input-found"
                self.violations.append((str(_rel(path)), suffix, f"{b.name}#{i}"))
        wall = time.time() - self.t0
        cov = {
            "explanation": self.explanation,
            "obligations": obligations, "discharged": discharged,
            "discharged_only_as_known_finding_variant": sum(len(v) for v in known_hit_ids.values()),
            "known_finding_note": "an obligation that fails exactly on a recorded known finding is re-posed as "
                                  "`post OR class(finding)`; that variant is what is counted as discharged for it",
            "functions_under_contract": functions,
            "distinct_functions_under_contract": len({f["qualname"] for f in functions}),
            "backends": backends, "solver_ms": round(solver_ms, 1),
            "bounded": bsum,
            "bounded_obligations": sum(b.cases for b in self.bounded),
            "checker_cmd": f"./check {self.prop} --tier {self.tier}",
            "trusted_base": sorted(set(self.trusted)),
            "samples": samples[:12] or [{"note": "no obligations generated"}],
            "known_findings_reported": self.known_lines,
            "undecided": self.undecided, "checker_failures": self.failures,
            "evaluations": obligations + sum(b.cases for b in self.bounded),
            "distinct_nontrivial": obligations + sum(b.distinct for b in self.bounded),
            "rule": "P: one obligation per (path, contract clause) of the real function's current source; "
                    "B: one case per enumerated input of the stated finite scope; distinct = distinct inputs",
            "exhaustive": bool(self.bounded) and all(b.exhaustive for b in self.bounded),
        }
        if self.selftest is not None:
            cov["selftest"] = self.selftest
        cov.update(self.extra)
        ev = {"property_id": self.prop, "tier": self.tier, "seed": self.seed, "level": self.level,
              "coverage": cov, "assumptions": sorted(set(self.assumptions + [COMPOSITION])),
              "wall_s": round(wall, 2), "violations": len(self.violations)}
        (EVIDENCE / f"{self.prop}.json").write_text(json.dumps(ev, indent=1, default=str))
        for line in self.known_lines:
            print(line)
        print(f"[{self.prop}] tier={self.tier} P: {discharged}/{obligations} obligations discharged over "
              f"{len(functions)} contracts on {len({f['qualname'] for f in functions})} functions ({solver_ms:.0f} ms solver); B: {sum(b.cases for b in self.bounded)} bounded cases "
              f"in {len(self.bounded)} stand-ins; wall {wall:.1f}s")
        if self.failures:
            for f in self.failures:
                print(f"CHECKER-FAILURE: {f}")
            return 3
        if self.violations:
            for path, suffix, oname in self.violations:
                print(f"VIOLATION property={self.prop} replay={path}{suffix}")
            return 1
        if self.undecided:
            for u in self.undecided:
                print(f"UNDECIDED: {u}")
            return 2
        return 0


_SYM = {"+": "add", "-": "sub", "*": "mul", "/": "div", "%": "mod", "<": "lt", ">": "gt", "=": "eq", "!": "not",
        "&": "amp", "|": "bar", "^": "xor"}


def _rel(path):
    try:
        return path.relative_to(VERIF)
    except ValueError:
        return path


def _safe(s):
    s = s.replace("ensures[", "ens[").replace("'", "")
    for k, v in _SYM.items():
        if k != "-":
            s = s.replace(k, v)
    return "".join(ch if ch.isalnum() or ch in "-_." else "_" for ch in s)[:150]
