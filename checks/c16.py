"""C16 — a for loop equals its unrolling."""
from checks.common import CheckRun

EXPLANATION = (
    "P tier: the iteration value sequence (ForStmt.get_iteration_values) is proved for all (start, stop, step) "
    "triples and list iterators with inductive loop invariants and variants (unbounded)."
)


def run(tier):
    cr = CheckRun("C16", tier, "other", EXPLANATION, "DESIGN §4 C16")
    cr.contracts(["contracts.c16"])
    return cr.finish()
