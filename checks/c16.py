"""C16 — a for loop equals its unrolling."""
import itertools

from bounded import gen
from bounded.contract_enum import run_contract_enum
from bounded.run_e2e import run_programs
from checks.common import CheckRun

EXPLANATION = (
    "P tier: the iteration value sequence (ForStmt.get_iteration_values) is proved for all (start, stop, step) "
    "triples and list iterators with inductive loop invariants and variants (unbounded). B tier (bounded): the same "
    "contract evaluated on the real function over a box of triples (stand-in if the function drifts out of the "
    "verifier's subset), and loop programs compiled end to end and compared with the S3 unrolling semantics."
)


def _giv_args(bound):
    from bounded.pipeline import ensure_repo
    ensure_repo()
    from dsl_compiler.src.ast.statements import ForStmt
    out = []
    rng = range(-bound, bound + 1)
    for a, b in itertools.product(rng, rng):
        for s in list(rng) + [None]:
            out.append({"self": ForStmt("i", a, b, s, None, []), "constant_resolver": None})
    for vals in ([], [3], [5, -1, 5], [0, 0], [7, 8, 9, 10]):
        out.append({"self": ForStmt("i", None, None, None, list(vals), []), "constant_resolver": None})
    table = {"a": 2, "b": -3, "c": 0, "d": 7}
    for a, b, s in itertools.product(["a", "b", 1], ["d", "c", 4], ["a", "b", None]):
        out.append({"self": ForStmt("i", a, b, s, None, []), "constant_resolver": table.__getitem__})
    out.append({"self": ForStmt("i", "a", 3, None, None, []), "constant_resolver": None})
    return out


def run(tier):
    from contracts import c16
    cr = CheckRun("C16", tier, "other", EXPLANATION, "DESIGN §4 C16")
    cr.contracts(["contracts.c16", "contracts.c15", "contracts.c03", "contracts.c16b", "contracts.c14b", "contracts.cdispatch"])
    bound = 6 if tier == "quick" else 12
    cr.bounded_check(run_contract_enum, "get_iteration_values-box", c16.giv_contract, _giv_args(bound),
                     f"all (start, stop, step) in [-{bound},{bound}]^2 x ([-{bound},{bound}] + default), list iterators, variable bounds through a resolver")
    progs = gen.c16_scope(tier)
    for optimize in (True, False):
        cr.bounded_check(run_programs, f"e2e-loops-{'opt' if optimize else 'noopt'}", progs,
                         f"{len(progs)} loop programs (ranges incl. descending / non-dividing steps / empty, lists, variable bounds, nesting, "
                         f"body locals, iterator in literals, calls in bodies, parameters shadowing the iterator) judged against S3's unrolling; optimize={optimize}",
                         cr.known, opts={"optimize": optimize})
    from contracts import cparse as _cparse
    from bounded.contract_enum import run_contract_enum as _rce_parse
    from bounded import pipeline as _pl_parse
    _pl_parse.ensure_repo()
    _sargs = _cparse.statement_arg_sets()
    cr.bounded_check(_rce_parse, "statement-forms-box", _cparse.statement_c, _sargs,
                     f"{len(_sargs)} statement texts (loop headers with negative / named bounds and steps, value lists, declarations, memory writes with when / set / reset in both "
                     "orders, place arguments and property dictionaries, function parameters, bundle forms): the real parser's tree carries exactly what the text says — S3 takes its trees "
                     "from that parser (contract evaluated on the real DSLParser.parse)")
    return cr.finish()
