"""C13 — compiler-chosen signals are fresh: renaming them changes nothing."""
from bounded import gen
from checks.e2e_common import run_e2e_property

EXPLANATION = (
    "P tier (unbounded): on the real SignalAnalyzer._allocate_factorio_virtual_signal the result is pool[cursor] with the "
    "cursor advanced by one (hence pairwise distinct results until the pool is exhausted), wrap-around happens only after "
    "the warning flag is set, and the result is recorded as allocated; MemoryLowerer._coerce_to_signal_type puts a written value on the "
    "cell's signal by projection / constant and never re-labels an implicit type in the signal registry (frame). B tier (bounded): programs mixing untyped values with explicitly typed ones (arithmetic, bundles, entity conditions, "
    "more untyped values than letter signals) are compiled by the real pipeline; outputs are compared with S3 for all "
    "inputs (an untyped value's signal is read from the label the compiler gave it, so a collision with an explicit "
    "signal on the same wire shows up as a wrong value), and every compiler-chosen signal is checked against the "
    "wildcards, the reserved write-enable signal and the signals the program names explicitly."
)


def _reserve_box(cr):
    from bounded import pipeline
    from bounded.contract_enum import run_contract_enum
    from contracts import c13
    pipeline.ensure_repo()
    args = c13.reserve_arg_sets()
    cr.bounded_check(run_contract_enum, "reserve-explicit-names-box", c13.reserve, args,
                     f"{len(args)} IR nodes (one per kind / reference position: constant bundles, condition rows, merges, latch conditions, "
                     "entity properties, inlined bundle conditions): every explicit signal name leaves the allocation pool (contract evaluated on the real function)")
    pargs = c13.pool_arg_sets()
    cr.bounded_check(run_contract_enum, "signal-pool-box", c13.pool_contract, pargs,
                     f"{len(pargs)} analyser states: the pool is the virtual signals minus signal-W, the wildcards, allocated and referenced names (contract evaluated on the real method)")
    nargs = c13.resolve_name_arg_sets()
    cr.bounded_check(run_contract_enum, "resolve-signal-name-box", c13.resolve_name, nargs,
                     f"{len(nargs)} (type, entry, mapping) cases: explicit names as they are, else the entry's name, else the mapping; an implicit type gets ONE fresh signal, stable across "
                     "calls (contract evaluated on the real SignalAnalyzer.resolve_signal_name)")
    rargs = c13.resolve_identity_arg_sets()
    cr.bounded_check(run_contract_enum, "resolve-signal-identity-box", c13.resolve_identity, rargs,
                     f"{len(rargs)} entries x analyser states: explicit / literal-declared types keep their signal, a mapped implicit type its mapped signal, an unmapped one a FRESH signal that is "
                     "recorded (same type -> same signal, another type -> another signal, never one in use) (contract evaluated on the real SignalAnalyzer._resolve_signal_identity)")


def run(tier):
    progs = gen.c13_scope(tier)
    return run_e2e_property("C13", tier, EXPLANATION, "DESIGN §4 C13",
                            [("e2e-implicit-signals", progs, "untyped values next to explicit signals")],
                            contract_modules=["contracts.c13", "contracts.c03", "contracts.c14b", "contracts.c14d", "contracts.c01b", "contracts.c01c"], extra=_reserve_box)
