"""C13 — compiler-chosen signals are fresh: renaming them changes nothing."""
from bounded import gen
from checks.e2e_common import run_e2e_property

EXPLANATION = (
    "P tier (unbounded): on the real SignalAnalyzer._allocate_factorio_virtual_signal the result is pool[cursor] with the "
    "cursor advanced by one (hence pairwise distinct results until the pool is exhausted), wrap-around happens only after "
    "the warning flag is set, and the result is recorded as allocated. B tier (bounded): programs mixing untyped values with explicitly typed ones (arithmetic, bundles, entity conditions, "
    "more untyped values than letter signals) are compiled by the real pipeline; outputs are compared with S3 for all "
    "inputs (an untyped value's signal is read from the label the compiler gave it, so a collision with an explicit "
    "signal on the same wire shows up as a wrong value), and every compiler-chosen signal is checked against the "
    "wildcards, the reserved write-enable signal and the signals the program names explicitly."
)


def run(tier):
    progs = gen.c13_scope(tier)
    return run_e2e_property("C13", tier, EXPLANATION, "DESIGN §4 C13",
                            [("e2e-implicit-signals", progs, "untyped values next to explicit signals")],
                            contract_modules=["contracts.c13"])
