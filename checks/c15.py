"""C15 — calling a function equals substituting its body."""
from bounded import gen
from checks.e2e_common import run_e2e_property

EXPLANATION = (
    "The substitution semantics is S3's definition of a call. P tier (unbounded): ExpressionLowerer._resolve_constant_symbol "
    "— the one place where a name in an inlined body becomes a compile-time integer — resolves by the innermost binding "
    "(parameter, then caller variable / iterator, then global) and never resolves a Signal-bound name to an outer integer "
    "(lexical scoping is what makes inlining equal substitution). B tier (bounded): programs with int/Signal/Entity "
    "parameters, int<->Signal coercion, locals shadowing outer names, nested calls, calls in loops, parameters shadowing "
    "loop iterators and entity-returning functions are compiled by the real pipeline and every output / entity "
    "condition / entity position is compared with S3 (body substituted, parameters bound to the arguments) for all "
    "int32 inputs by SMT."
)


def run(tier):
    progs = gen.c15_scope(tier)
    return run_e2e_property("C15", tier, EXPLANATION, "DESIGN §4 C15",
                            [("e2e-calls", progs, "function-call shapes (coercion, shadowing, nesting, loops, entity params/returns)")],
                            contract_modules=["contracts.c11", "contracts.cdispatch", "contracts.c15", "contracts.c03", "contracts.c01c"])
