"""C12 — independent computations do not interfere."""
from bounded import gen
from checks.e2e_common import run_e2e_property

EXPLANATION = (
    "Corollary of the unary chain applied to the combined program (S3 of P;Q restricted to P's names is S3 of P). "
    "B tier (bounded): pairs of computations with disjoint variables but overlapping explicit signal names are "
    "interleaved in every order-preserving way and the combined program is compiled by the real pipeline; every output "
    "and entity condition of either computation must equal its S3 value for all int32 inputs (SMT). A difference that "
    "vanishes under ideal isolation (producers without a signal-graph edge disconnected) is the recorded wire-isolation "
    "finding KF-K7-crosstalk; any other difference is a violation. P tier: relay network-id invariant (RelayNode), the relay router is asked with the "
    "network id stored for (source, sink, resolved signal) (_route_connection_with_relays), signal allocation, "
    "and the CSE key lemma (two nodes are merged only if they agree in operator, operands, output type and mode — independent "
    "computations over different inputs are never identified)."
)


def _colour_box(cr):
    from bounded import pipeline
    from bounded.contract_enum import run_contract_enum
    from contracts import c12
    pipeline.ensure_repo()
    args = c12.arg_sets(cr.tier)
    cr.bounded_check(run_contract_enum, "plan_wire_colors-box", c12.plan_colors, args,
                     f"{len(args)} edge sets over 3 producers x 2 consumers x 2 signal names x merge / no merge, with and without a locked colour: "
                     "a colouring reported conflict-free separates competing producers (contract evaluated on the real function)")
    nargs = c12.network_arg_sets(cr.tier)
    cr.bounded_check(run_contract_enum, "network-ids-box", c12.network_ids, nargs,
                     f"{len(nargs)} edge sets x colour maps: same relay network id iff same source entity and colour (contract evaluated on the real method)")
    eargs = c12.collect_edges_arg_sets()
    cr.bounded_check(run_contract_enum, "collect-circuit-edges-box", c12.collect_edges, eargs,
                     f"{len(eargs)} signal graphs (two signals, 0..2 sources x 0..2 sinks each, resolved / unresolved names): one edge per (signal, source, sink) triple under the "
                     "resolved name (contract evaluated on the real collect_circuit_edges / SignalGraph.iter_source_sink_pairs)")
    pargs = c12.populate_arg_sets()
    cr.bounded_check(run_contract_enum, "populate-wire-connections-box", c12.populate, pargs,
                     f"{len(pargs)} cases: edge sets of up to 3 edges over 3 entities x 2 signals, three colour maps, spanning tree on / off / failing: every edge is routed "
                     "exactly once under its own source, signal and planned colour; two-way pairs directly (contract evaluated on the real method, the two routers recorded)")
    xargs = c12.expand_merges_arg_sets()
    cr.bounded_check(run_contract_enum, "expand-merge-edges-box", c12.expand_merges, xargs,
                     f"{len(xargs)} edge sets over flat / nested / repeated merges, resolved and unresolved members: one edge per leaf member from its physical producer, the merge remembered; "
                     "edges into a junction vanish (contract evaluated on the real ConnectionPlanner._expand_merge_edges)")
    largs = c12.edge_locks_arg_sets()
    cr.bounded_check(run_contract_enum, "edge-locked-colours-box", c12.edge_locks, largs,
                     f"{len(largs)} merge memberships (one, two, three merges; chained or not; resolved member; edges for all / one merge): locks exactly for members of chained merges, "
                     "alternating in merge creation order (contract evaluated on the real ConnectionPlanner._compute_edge_locked_colors)")
    pcargs = c12.plan_connections_arg_sets()
    cr.bounded_check(run_contract_enum, "plan-connections-box", c12.plan_connections_c, pcargs,
                     f"{len(pcargs)} wire plans: circuit edges = graph edges minus internal feedback; colour = edge lock, else planned; earlier wires restored once each "
                     "(contract evaluated on the real ConnectionPlanner.plan_connections, sub-steps recorded)")
    from checks.boxes import data_structure_boxes
    data_structure_boxes(cr, ("graph",))
    bargs = c12.bidi_arg_sets()
    cr.bounded_check(run_contract_enum, "bidirectional-pairs-box", c12.bidi, bargs,
                     f"{len(bargs)} edge sets of up to 3 edges over 3 entities (self-loops and source-less edges included): "
                     "the pairs routed directly are exactly the edges whose reverse is an edge (contract evaluated on the real method)")


def run(tier):
    progs = gen.c12_scope(tier)
    return run_e2e_property("C12", tier, EXPLANATION, "DESIGN §4 C12",
                            [("e2e-interleavings", progs, "7 pairs of independent computations x order-preserving interleavings")],
                            contract_modules=["contracts.c08", "contracts.c13", "contracts.c10", "contracts.c12", "contracts.c07b", "contracts.c01b", "contracts.c02"], extra=_colour_box)
