"""C01 — scalar expressions compute what the source says, for every input."""
from bounded import gen
from bounded.run_e2e import run_programs
from checks.common import CheckRun

EXPLANATION = (
    "Contract chain K1..K9 (DESIGN §3). P tier (unbounded): K3 contracts on the real _lower_logical_and / _lower_logical_or "
    "(result denotes [l != 0 and/or r != 0] on the requested type, IR builder and _is_boolean_producer used by contract) "
    "and the constant-folding functions the expression lowering relies on (shared with C11). B tier (bounded, never "
    "counted as proved): every program of an enumerated scope of expression shapes is compiled by the real pipeline; the "
    "emitted blueprint is executed symbolically by the S2 circuit model and compared by SMT, for ALL int32 valuations of "
    "the named inputs, with the S3 source semantics, output by output (value and signal type)."
)


def run(tier):
    cr = CheckRun("C01", tier, "other", EXPLANATION, "DESIGN §4 C01")
    cr.contracts(["contracts.c01", "contracts.c01b", "contracts.c13", "contracts.c14b", "contracts.c11", "contracts.c07", "contracts.c07b", "contracts.c10", "contracts.c20b", "contracts.c02"])
    progs = gen.c01_scope(tier)
    for optimize in (True, False):
        cr.bounded_check(
            run_programs, f"e2e-expressions-{'opt' if optimize else 'noopt'}", progs,
            f"{len(progs)} programs: all binary operators over leaf pairs, unary, projection, cond:value, nested "
            f"(precedence/associativity) and DAG reuse; optimize={optimize}; inputs: all int32 (SMT)",
            cr.known, opts={"optimize": optimize})
    return cr.finish()
