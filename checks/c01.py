"""C01 — scalar expressions compute what the source says, for every input."""
from bounded import gen
from bounded.run_e2e import run_programs
from checks.common import CheckRun

EXPLANATION = (
    "Contract chain K1..K9 (DESIGN §3). P tier (unbounded): K3 contracts on the real _lower_logical_and / _lower_logical_or "
    "(result denotes [l != 0 and/or r != 0] on the requested type, IR builder and _is_boolean_producer used by contract) "
    "and the constant-folding functions the expression lowering relies on (shared with C11); lower_binary_op for all 19 operators, the logical-chain fold, the "
    "conditional value, the wire-merge rewriting of additions (_attempt_wire_merge, from the S2 network-sum assumption), the result typing of binary "
    "operators, the IR builder's constructors, the placer (one placement per node carrying its operator and operands in order) and the emitter's "
    "combinator configuration are under contract. B tier (bounded, never "
    "counted as proved): every program of an enumerated scope of expression shapes is compiled by the real pipeline; the "
    "emitted blueprint is executed symbolically by the S2 circuit model and compared by SMT, for ALL int32 valuations of "
    "the named inputs, with the S3 source semantics, output by output (value and signal type); the repository's own stateless example programs are judged the same way; "
    "and because S3 takes its syntax trees from the compiler's parser, that parser is checked on its own against the documented precedence / associativity table."
)


def run(tier):
    cr = CheckRun("C01", tier, "other", EXPLANATION, "DESIGN §4 C01")
    cr.contracts(["contracts.c01", "contracts.c01b", "contracts.c01c", "contracts.cdispatch", "contracts.c13", "contracts.c14b", "contracts.c14d", "contracts.c11", "contracts.c07", "contracts.c07b", "contracts.c10", "contracts.c20b", "contracts.c02"])
    progs = gen.c01_scope(tier)
    for optimize in (True, False):
        cr.bounded_check(
            run_programs, f"e2e-expressions-{'opt' if optimize else 'noopt'}", progs,
            f"{len(progs)} programs: all binary operators over leaf pairs, unary, projection, cond:value, nested "
            f"(precedence/associativity) and DAG reuse; optimize={optimize}; inputs: all int32 (SMT)",
            cr.known, opts={"optimize": optimize})
    examples = gen.repo_example_programs()
    if examples:
        cr.bounded_check(run_programs, "repo-example-programs", examples,
                         f"{len(examples)} stateless programs of the repository's own example_programs/ directory (read from the working tree): every named result and every entity "
                         "condition against S3, all int32 inputs (SMT)", cr.known, opts={"optimize": True}, skip_rejected=True)
    from bounded import pipeline
    from bounded.contract_enum import run_contract_enum
    from contracts import c02
    pipeline.ensure_repo()
    iargs = c02.inject_colors_arg_sets()
    cr.bounded_check(run_contract_enum, "operand-wire-colours-box", c02.inject_colors, iargs,
                     f"{len(iargs)} combinators: left operand plain / produced by an optimised-away node / selected from a bundle / wire-merged (same or split colours) / integer, right "
                     "operand signal / integer, red / green, arithmetic / decider with condition rows: every signal operand reads exactly the colour(s) it is delivered on "
                     "(contract evaluated on the real LayoutPlanner._inject_wire_colors_into_placements)")
    from contracts import c13
    vargs = c13.inline_value_arg_sets()
    cr.bounded_check(run_contract_enum, "inline-value-box", c13.inline_value_c, vargs,
                     f"{len(vargs)} usage entries (constant / arithmetic / no producer / unknown reference x materialised or not x literal values): an operand becomes an integer only for an "
                     "unmaterialised constant, and then its literal (contract evaluated on the real SignalAnalyzer.inline_value / can_inline_constant)")
    from contracts import cparse
    pargs = cparse.parse_arg_sets()
    cr.bounded_check(run_contract_enum, "documented-precedence-box", cparse.parse_c, pargs,
                     f"{len(pargs)} expression texts (every ordered pair of binary operators as `a OP1 b OP2 c`, unary operators on either side, projection and output specifier next to "
                     "every operator): the real parser's tree is the one the documented precedence / associativity table prescribes — S3 and the e2e judge take their trees from that "
                     "parser, so this is the only place a precedence fault can show (contract evaluated on the real DSLParser.parse)")
    return cr.finish()
