"""C06 — entities are driven by exactly the condition the program assigns."""
from bounded import gen
from checks.e2e_common import run_e2e_property

EXPLANATION = (
    "P tier (unbounded): EntityPlacer._try_inline_comparison returns data only for `signal CMP int-constant -> 1` deciders with at most one consumer in the usage analysis, and the data are that comparison; "
    "_place_entity_prop_write records exactly the assigned value (bundle condition / that comparison / a reference / the integer) and makes the entity a reader of what it needs; "
    "entity output reads are sourced by the entity. K6/K8 for entity conditions. B tier (bounded): for each program of the scope (entity prototypes x enable "
    "expressions, entities sharing sources, any()/all() inlining, chest outputs reused in several merges) the real "
    "pipeline's blueprint is decoded; the entity at the user-given tile must exist exactly once and its circuit "
    "condition, evaluated by the S2 model on the network actually wired to it, must be true exactly when the S3 value "
    "of the enable expression is positive — decided by SMT for all int32 inputs and all chest contents (free inputs)."
)


def _apply_writes_box(cr):
    from bounded import pipeline
    from bounded.contract_enum import run_contract_enum
    from contracts import c06
    pipeline.ensure_repo()
    args = c06.apply_writes_arg_sets()
    cr.bounded_check(run_contract_enum, "apply-property-writes-box", c06.apply_writes, args,
                     f"{len(args)} cases: 3 entity kinds (flag + setter / setter only / bare) x {{signal, inlined comparison x 6 comparators x 3 constants, "
                     "bundle condition}}: the condition written means enable > 0 and circuit control is on (contract evaluated on the real method)")
    from contracts import c07b
    cargs = c07b.cleanup_entities_arg_sets()
    cr.bounded_check(run_contract_enum, "cleanup-unused-entities-box", c07b.cleanup_entities, cargs,
                     f"{len(cargs)} plans of two lamps, each driven by an inlined comparison / a signal / nothing: exactly the inlined deciders, their wires and graph "
                     "edges disappear (contract evaluated on the real EntityPlacer.cleanup_unused_entities)")


def run(tier):
    progs = gen.c06_scope(tier)
    return run_e2e_property("C06", tier, EXPLANATION, "DESIGN §4 C06",
                            [("e2e-entity-conditions", progs, "entity prototypes x enable expressions, shared sources, entity outputs")],
                            contract_modules=["contracts.c06", "contracts.c01b", "contracts.c01c", "contracts.c07b", "contracts.c16b", "contracts.cdispatch"], extra=_apply_writes_box)
