"""C20 — every named result is exposed and labelled."""
from bounded import gen
from checks.e2e_common import run_e2e_property

EXPLANATION = (
    "P tier: EntityPlacer.create_output_anchors creates exactly the anchors the alias bookkeeping asks for — one per alias "
    "(minus the name a constant's own combinator already carries), else one for the entry's label — each an empty constant "
    "combinator labelled with the alias and wired as a sink of the signal (names range over a 3-name alphabet: finite "
    "abstraction, names matter only up to equality). B tier (bounded): programs with consumed / unconsumed names, aliases, constant, arithmetic, decider, merge, bundle "
    "and function-return producers are compiled by the real pipeline; every S3 output name must have its anchor (or "
    "labelled constant) in the decoded blueprint and the anchor network must carry exactly the S3 value (SMT, all inputs)."
)


def _analyze_box(cr):
    from bounded import pipeline
    from bounded.contract_enum import run_contract_enum
    from contracts import c20b
    pipeline.ensure_repo()
    args = c20b.analyze_arg_sets()
    cr.bounded_check(run_contract_enum, "analyze-alias-box", c20b.analyze_contract, args,
                     f"{len(args)} cases: a three-node program with four names x every subset of names the program reads: consumers, "
                     "output aliases and output marks (contract evaluated on the real method)")
    from contracts import c20
    dargs = c20.describe_arg_sets()
    cr.bounded_check(run_contract_enum, "entity-description-box", c20.describe, dargs,
                     f"{len(dargs)} debug records (named / intermediate / unnamed producers x context x line x file spellings x operation x signal): the description carries the "
                     "name (or the name it computes), the source line, the anchor mark and the signal (contract evaluated on the real format_entity_description)")


    bargs = c20.build_debug_info_arg_sets()
    cr.bounded_check(run_contract_enum, "debug-info-box", c20.build_debug_info, bargs,
                     f"{len(bargs)} (node, usage entry) pairs over constant / arithmetic / decider / memory nodes: the placement's record names the declared name (else the usage label, the "
                     "node label, the id), the source line (else the expression context's), the resolved signal, the operation (contract evaluated on the real EntityPlacer._build_debug_info)")


def run(tier):
    progs = gen.c20_scope(tier)
    return run_e2e_property("C20", tier, EXPLANATION, "DESIGN §4 C20",
                            [("e2e-named-results", progs, "named results of every producer kind, aliases, consumed names")],
                            contract_modules=["contracts.c20", "contracts.c20b", "contracts.c16b", "contracts.cdispatch"], extra=_analyze_box)
