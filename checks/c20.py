"""C20 — every named result is exposed and labelled."""
from bounded import gen
from checks.e2e_common import run_e2e_property

EXPLANATION = (
    "B tier (bounded): programs with consumed / unconsumed names, aliases, constant, arithmetic, decider, merge, bundle "
    "and function-return producers are compiled by the real pipeline; every S3 output name must have its anchor (or "
    "labelled constant) in the decoded blueprint and the anchor network must carry exactly the S3 value (SMT, all inputs)."
)


def run(tier):
    progs = gen.c20_scope(tier)
    return run_e2e_property("C20", tier, EXPLANATION, "DESIGN §4 C20",
                            [("e2e-named-results", progs, "named results of every producer kind, aliases, consumed names")])
