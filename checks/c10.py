"""C10 — optimisation never changes what the circuit does."""
from bounded import gen
from bounded.run_e2e import run_programs
from checks.common import CheckRun

EXPLANATION = (
    "K4 (DESIGN §3.2). P tier: (1) relational lemma on the real CSEOptimizer._make_key/_value_key: equal keys imply equal "
    "operator, operands (modulo the replacement map), output type and output mode — proved for every pair of paths; "
    "(1b) ConstantPropagationOptimizer._maybe_mark_dead marks a constant dead only if no live operation of any kind reads it "
    "(reader kinds per the IR node table; operation lists of length 1-2, i.e. bounded list length), and every call site "
    "passes the whole operation list (AST call-site obligation); (1c) _update_value of both passes re-points a reference to its canonical node on the same signal type; "
    "(2) IR-level folding functions against S1 for all int32 operands. B tier (bounded): programs with repeated "
    "sub-expressions, folded constants and fan-out are compiled with and without optimisation and each build is "
    "compared with the S3 source semantics for all inputs by SMT (both equal to S3 => observationally equivalent)."
)


def run(tier):
    cr = CheckRun("C10", tier, "other", EXPLANATION, "DESIGN §4 C10")
    cr.contracts(["contracts.c10", "contracts.c11", "contracts.c16b"])
    from pyvc import guards
    # precondition of _maybe_mark_dead at its call sites: liveness is decided over the WHOLE operation list
    cr.ext_obligations.append(guards.call_passes_param(
        "dsl_compiler/src/ir/optimizer.py::ConstantPropagationOptimizer.optimize", "_maybe_mark_dead", 2, "ir_operations", min_calls=2))
    progs = gen.c10_scope(tier) + (gen.c01_scope("quick")[::4] if tier != "quick" else [])
    for optimize in (True, False):
        cr.bounded_check(
            run_programs, f"e2e-optimisation-{'on' if optimize else 'off'}", progs,
            f"{len(progs)} programs (CSE candidates differing in type/mode, folded constants in every consumer kind, "
            f"fan-out 2..8); optimize={optimize}; inputs: all int32 (SMT)",
            cr.known, opts={"optimize": optimize})
    from bounded import pipeline
    from bounded.contract_enum import run_contract_enum
    from contracts import c10
    pipeline.ensure_repo()
    targs = c10.mst_arg_sets()
    cr.bounded_check(run_contract_enum, "spanning-tree-box", c10.mst, targs,
                     f"{len(targs)} entity sets (1..5 entities on a small grid in every order, some without a position): a spanning tree of the positioned entities, grown from the "
                     "first, of minimal total length (contract evaluated on the real ConnectionPlanner._build_minimum_spanning_tree)")
    margs = c10.map_operands_arg_sets()
    cr.bounded_check(run_contract_enum, "map-operands-box", c10.map_operands, margs,
                     f"{len(margs)} nodes: one of every IR node kind (deciders with and without condition rows, latch writes with and without inline conditions): every "
                     "operand place holds fn(old operand), nothing else changed (contract evaluated on the real optimizer._map_operands; the function is a case distinction "
                     "over node kinds and parametric in the operands)")
    return cr.finish()
