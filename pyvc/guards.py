"""Control-flow obligations decided on the AST of the real function (for functions whose data — dicts of
objects, floats — is outside the symbolic executor's subset, but whose property-carrying fact is a guard):

  * guarded_returns: every `return <var>` (var not None) in the function is control-dependent on a given
    guard call on that same variable being true, or returns the result of an allowed constructor call;
  * call_has_keyword: every call of a given method passes a given keyword argument of a given shape.

Each check returns obligation records in the same shape as bounded/library.py (name, status, backend...).
A violated obligation has no input to replay: it is reported with `no-failing-input-found`."""
from __future__ import annotations

import ast

from . import source


def _parents(tree):
    par = {}
    for n in ast.walk(tree):
        for ch in ast.iter_child_nodes(n):
            par[ch] = n
    return par


def _conjuncts(test):
    if isinstance(test, ast.BoolOp) and isinstance(test.op, ast.And):
        out = []
        for v in test.values:
            out.extend(_conjuncts(v))
        return out
    return [test]


def _is_guard_call(node, var, method, arg_names):
    return (isinstance(node, ast.Call) and isinstance(node.func, ast.Attribute) and node.func.attr == method
            and isinstance(node.func.value, ast.Name) and node.func.value.id == var
            and [a.id if isinstance(a, ast.Name) else None for a in node.args] == list(arg_names))


def guarded_returns(qualname, guard_method, guard_args, allowed_calls=(), prop=""):
    """Every `return X` (X a variable) lies in the true-branch of an `if` whose test has the conjunct
    X.guard_method(*guard_args); `return None`, and `return self.<allowed>(...)` are accepted as they are."""
    rec = {"name": f"{qualname.split('::')[1]}: every returned node satisfies {guard_method}({', '.join(guard_args)})",
           "status": "undecided", "backend": "ast-control-dependence", "ms": 0.0}
    try:
        fs = source.get_function(qualname)
    except Exception as e:
        rec["detail"] = f"contract drift: {e}"
        return rec
    rec["vc"] = f"forall return r in {fs.qualname} (sha256 {fs.sha256[:12]}): r is None or guard(r) dominates the return or r is a fresh relay"
    par = _parents(fs.node)
    n_ret = 0
    for node in ast.walk(fs.node):
        if not isinstance(node, ast.Return):
            continue
        n_ret += 1
        v = node.value
        if v is None or (isinstance(v, ast.Constant) and v.value is None):
            continue
        if isinstance(v, ast.Call) and isinstance(v.func, ast.Attribute) and v.func.attr in allowed_calls:
            continue
        if not isinstance(v, ast.Name):
            rec["status"], rec["detail"] = "violated", f"line {node.lineno}: returns an expression that is neither a guarded variable nor an allowed call"
            return rec
        ok = False
        cur = node
        while cur in par:
            p = par[cur]
            if isinstance(p, ast.If) and cur in p.body:
                if any(_is_guard_call(c, v.id, guard_method, guard_args) for c in _conjuncts(p.test)):
                    ok = True
                    break
            cur = p
        if not ok:
            rec["status"] = "violated"
            rec["detail"] = f"line {node.lineno}: `return {v.id}` is not guarded by {v.id}.{guard_method}({', '.join(guard_args)})"
            return rec
    if n_ret == 0:
        rec["detail"] = "no return statement found (contract drift)"
        return rec
    rec["status"] = "proved"
    return rec


def guarded_appends(qualname, var_attr_guard, prop=""):
    """Inside the function, a relay may only enter the result path inside the true-branch of its guard:
    every `X.can_route_network(n, c)` style guard ... (used for _find_path_through_existing_relays)."""
    raise NotImplementedError


def call_has_keyword(file, method, keyword, expected_src, min_calls=1):
    """Every call `<obj>.<method>(...)` in `file` passes `keyword=<expected_src>` (compared as unparsed
    source)."""
    rec = {"name": f"{file}: every .{method}() call passes {keyword}={expected_src}", "status": "undecided",
           "backend": "ast-call-site", "ms": 0.0}
    try:
        m = source.load_module(file)
    except Exception as e:
        rec["detail"] = f"contract drift: {e}"
        return rec
    calls = [n for n in ast.walk(m.tree) if isinstance(n, ast.Call) and isinstance(n.func, ast.Attribute) and n.func.attr == method]
    rec["vc"] = f"{len(calls)} call site(s) of .{method}() in {file}"
    if len(calls) < min_calls:
        rec["detail"] = f"only {len(calls)} call sites found, expected >= {min_calls} (contract drift)"
        return rec
    for c in calls:
        kw = {k.arg: ast.unparse(k.value) for k in c.keywords if k.arg}
        if kw.get(keyword) != expected_src:
            rec["status"] = "violated"
            rec["detail"] = f"line {c.lineno}: .{method}({ast.unparse(c)[:80]}) has {keyword}={kw.get(keyword)!r}, expected {expected_src!r}"
            return rec
    rec["status"] = "proved"
    return rec


def call_passes_param(qualname, method, arg_index, param, min_calls=1, keyword=None):
    """Precondition-at-call-site obligation: inside the function `qualname`, every call `<obj>.<method>(...)`
    passes the function's own parameter `param` — the whole object, not a slice or copy — as positional
    argument `arg_index`, and `param` is never re-bound in the function."""
    rec = {"name": f"{qualname.split('::')[-1]}: every .{method}() call passes the whole parameter `{param}` as argument {arg_index}",
           "status": "undecided", "backend": "ast-call-site", "ms": 0.0}
    try:
        fs = source.get_function(qualname)
    except Exception as e:
        rec["detail"] = f"contract drift: {e}"
        return rec
    fn = fs.node
    if param not in [a.arg for a in fn.args.args]:
        rec["detail"] = f"contract drift: no parameter {param}"
        return rec
    none_defaults = set()  # statements of `if <param> is None: <param> = ...` (creating the default object is not a re-binding of a passed one)
    for n in fn.body:
        if isinstance(n, ast.If) and isinstance(n.test, ast.Compare) and isinstance(n.test.left, ast.Name) and n.test.left.id == param \
                and len(n.test.ops) == 1 and isinstance(n.test.ops[0], ast.Is) and isinstance(n.test.comparators[0], ast.Constant) \
                and n.test.comparators[0].value is None and not n.orelse:
            none_defaults.update(id(x) for x in n.body)
    for n in ast.walk(fn):
        if id(n) in none_defaults:
            continue
        targets = []
        if isinstance(n, ast.Assign):
            targets = n.targets
        elif isinstance(n, (ast.AugAssign, ast.AnnAssign)):
            targets = [n.target]
        elif isinstance(n, (ast.For, ast.comprehension)):
            targets = [n.target]
        for t in targets:
            for sub in ast.walk(t):
                if isinstance(sub, ast.Name) and sub.id == param:
                    rec["status"] = "violated"
                    rec["detail"] = f"line {getattr(n, 'lineno', '?')}: parameter {param} is re-bound"
                    return rec
    calls = [n for n in ast.walk(fn) if isinstance(n, ast.Call) and (
        (isinstance(n.func, ast.Attribute) and n.func.attr == method) or (isinstance(n.func, ast.Name) and n.func.id == method))]
    rec["vc"] = f"{len(calls)} call site(s) of {method}() in {qualname}"
    if len(calls) < min_calls:
        rec["detail"] = f"only {len(calls)} call sites found, expected >= {min_calls} (contract drift)"
        return rec
    for c in calls:
        actual = c.args[arg_index] if len(c.args) > arg_index else None
        if actual is None and keyword is not None:
            actual = next((k.value for k in c.keywords if k.arg == keyword), None)
        if not (isinstance(actual, ast.Name) and actual.id == param):
            got = ast.unparse(actual) if actual is not None else "<missing>"
            rec["status"] = "violated"
            rec["detail"] = f"line {c.lineno}: .{method}(...) receives `{got}` where the whole `{param}` is required"
            return rec
    rec["status"] = "proved"
    return rec


def stage_order(qualname, constructed_after):
    """Stage-order obligation for a pipeline driver: every stage object is constructed only after the stage it depends on
    has run — `constructed_after = {"BlueprintEmitter": "plan_layout", ...}` means the first call `BlueprintEmitter(...)`
    in the function's top-level body comes after the statement calling `.plan_layout(...)` (constructors may snapshot
    state that the earlier stage still completes, e.g. the signal map that layout fills in)."""
    rec = {"name": f"{qualname.split('::')[-1]}: stage objects are constructed after the stage they depend on ({', '.join(f'{k} after .{v}()' for k, v in constructed_after.items())})",
           "status": "undecided", "backend": "ast-control-dependence", "ms": 0.0}
    try:
        fs = source.get_function(qualname)
    except Exception as e:
        rec["detail"] = f"contract drift: {e}"
        return rec
    body = fs.node.body

    def index_of(pred):
        for i, stmt in enumerate(body):
            for n in ast.walk(stmt):
                if pred(n):
                    return i
        return None
    for ctor, stage in constructed_after.items():
        ic = index_of(lambda n: isinstance(n, ast.Call) and isinstance(n.func, ast.Name) and n.func.id == ctor)
        ist = index_of(lambda n: isinstance(n, ast.Call) and isinstance(n.func, ast.Attribute) and n.func.attr == stage)
        if ic is None or ist is None:
            rec["detail"] = f"{ctor}(...) or .{stage}() not found at the top level (contract drift)"
            return rec
        if ic <= ist:
            rec["status"] = "violated"
            rec["detail"] = f"line {body[ic].lineno}: {ctor}(...) is constructed before .{stage}() has run (line {body[ist].lineno})"
            return rec
    rec["status"] = "proved"
    return rec


def stage_guards(qualname, stages, success_prefix="True"):
    """Abort-on-error obligation for a pipeline driver: in the top-level body of `qualname`, every statement that
    calls one of the `stages` methods is followed — before the next stage call and before any `return True, ...` —
    by `if <diag>.has_errors(): return False, ...`; so no success return is reachable with a recorded error."""
    rec = {"name": f"{qualname.split('::')[-1]}: every stage ({', '.join(stages)}) is followed by an abort on recorded errors before any success return",
           "status": "undecided", "backend": "ast-control-dependence", "ms": 0.0}
    try:
        fs = source.get_function(qualname)
    except Exception as e:
        rec["detail"] = f"contract drift: {e}"
        return rec
    body = fs.node.body

    def stage_of(stmt):
        for n in ast.walk(stmt):
            if isinstance(n, ast.Call) and isinstance(n.func, ast.Attribute) and n.func.attr in stages:
                return n.func.attr
        return None

    def is_abort(stmt):
        if not isinstance(stmt, ast.If):
            return False
        t = stmt.test
        if not (isinstance(t, ast.Call) and isinstance(t.func, ast.Attribute) and t.func.attr == "has_errors"):
            return False
        last = stmt.body[-1]
        return (isinstance(last, ast.Return) and isinstance(last.value, ast.Tuple) and last.value.elts
                and isinstance(last.value.elts[0], ast.Constant) and last.value.elts[0].value is False)

    def is_success(stmt):
        for n in ast.walk(stmt):
            if isinstance(n, ast.Return) and isinstance(n.value, ast.Tuple) and n.value.elts and \
                    isinstance(n.value.elts[0], ast.Constant) and n.value.elts[0].value is True:
                return True
        return False

    seen = []
    pending = None
    for stmt in body:
        if is_abort(stmt):
            pending = None
            continue
        st = stage_of(stmt)
        if st is not None:
            if isinstance(stmt, (ast.If, ast.For, ast.While, ast.Try, ast.With)) and st not in ("optimize",):
                pass  # a stage inside a compound statement still needs its abort after the statement
            if pending is not None:
                rec["status"] = "violated"
                rec["detail"] = f"line {stmt.lineno}: stage .{st}() starts although .{pending}() was not followed by an abort on has_errors()"
                return rec
            pending = st
            seen.append(st)
        if is_success(stmt) and pending is not None:
            rec["status"] = "violated"
            rec["detail"] = f"line {stmt.lineno}: success return reachable after .{pending}() without an abort on has_errors()"
            return rec
    missing = [s for s in stages if s not in seen]
    rec["vc"] = f"stages found in order: {seen}"
    if missing:
        rec["detail"] = f"stage call(s) {missing} not found at the top level of the function (contract drift)"
        return rec
    if not any(is_success(s) for s in body):
        rec["detail"] = "no success return found (contract drift)"
        return rec
    rec["status"] = "proved"
    return rec


def call_guarded_by_min_reach(qualname, method, attr):
    """Every call `<obj>.<method>(a, b)` in the function is control-dependent on a test `d <= min(..., a.<attr>, b.<attr>, ...)`
    (or `<`): a wire between two poles is added only within the reach of BOTH ends."""
    rec = {"name": f"{qualname.split('::')[-1]}: every .{method}(a, b) is guarded by d <= min(a.{attr}, b.{attr})",
           "status": "undecided", "backend": "ast-control-dependence", "ms": 0.0}
    try:
        fs = source.get_function(qualname)
    except Exception as e:
        rec["detail"] = f"contract drift: {e}"
        return rec
    par = _parents(fs.node)
    calls = [n for n in ast.walk(fs.node) if isinstance(n, ast.Call) and isinstance(n.func, ast.Attribute) and n.func.attr == method]
    rec["vc"] = f"{len(calls)} call site(s) of .{method}()"
    if not calls:
        rec["detail"] = "no call site found (contract drift)"
        return rec

    def attr_of(node, name):
        return isinstance(node, ast.Attribute) and node.attr == attr and isinstance(node.value, ast.Name) and node.value.id == name

    def test_ok(test, a, b):
        for n in ast.walk(test):
            if isinstance(n, ast.Compare) and len(n.ops) == 1 and isinstance(n.ops[0], (ast.LtE, ast.Lt)):
                rhs = n.comparators[0]
                if isinstance(rhs, ast.Call) and isinstance(rhs.func, ast.Name) and rhs.func.id == "min":
                    if any(attr_of(x, a) for x in rhs.args) and any(attr_of(x, b) for x in rhs.args):
                        return True
        return False

    for c in calls:
        if len(c.args) < 2 or not all(isinstance(x, ast.Name) for x in c.args[:2]):
            rec["status"] = "violated"
            rec["detail"] = f"line {c.lineno}: .{method}() not called on two named entities"
            return rec
        a, b = c.args[0].id, c.args[1].id
        n, ok = c, False
        while n in par:
            p = par[n]
            if isinstance(p, ast.If) and n in ast.walk(ast.Module(body=p.body, type_ignores=[])) and test_ok(p.test, a, b):
                ok = True
                break
            n = p
        if not ok:
            rec["status"] = "violated"
            rec["detail"] = f"line {c.lineno}: .{method}({a}, {b}) is not inside `if d <= min({a}.{attr}, {b}.{attr})`"
            return rec
    rec["status"] = "proved"
    return rec


def writes_only_through(file, attr, adder, allowed_adder_callers, allowed_ops=("clear",)):
    """Frame obligation for a list-valued plan attribute: in `file`, the list `<obj>.<attr>` is never assigned, extended,
    appended to or concatenated directly (only the operations in `allowed_ops` are applied to it), and the adder method
    `<obj>.<adder>(...)` is called only inside the functions named in `allowed_adder_callers` — so every element that
    enters the list passed through one of those functions (whose contracts say what they let in)."""
    rec = {"name": f"{file}: .{attr} is written only through .{adder}() called from {sorted(allowed_adder_callers)}", "status": "undecided",
           "backend": "ast-frame", "ms": 0.0}
    try:
        m = source.load_module(file)
    except Exception as e:
        rec["detail"] = f"contract drift: {e}"
        return rec
    parents = _parents(m.tree)

    def enclosing(n):
        while n is not None:
            n = parents.get(n)
            if isinstance(n, (ast.FunctionDef, ast.AsyncFunctionDef)):
                return n.name
        return "<module>"

    def is_attr(n):
        return isinstance(n, ast.Attribute) and n.attr == attr

    n_adders = 0
    for n in ast.walk(m.tree):
        bad = None
        if isinstance(n, ast.Call) and isinstance(n.func, ast.Attribute):
            if is_attr(n.func.value) and n.func.attr not in allowed_ops:
                bad = f".{attr}.{n.func.attr}(...)"
            elif n.func.attr == adder:
                n_adders += 1
                if enclosing(n) not in allowed_adder_callers:
                    bad = f".{adder}(...) called from {enclosing(n)}"
        elif isinstance(n, ast.Assign) and any(is_attr(t) for t in n.targets):
            bad = f".{attr} = ..."
        elif isinstance(n, ast.AugAssign) and is_attr(n.target):
            bad = f".{attr} {type(n.op).__name__}= ..."
        if bad:
            rec["status"] = "violated"
            rec["detail"] = f"line {n.lineno} ({enclosing(n)}): {bad}"
            return rec
    rec["vc"] = f"{n_adders} call site(s) of .{adder}() in {file}"
    if n_adders == 0:
        rec["detail"] = "no adder call found (contract drift)"
        return rec
    rec["status"] = "proved"
    return rec
