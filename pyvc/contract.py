"""Contract objects (sidecars under /verif/contracts build these; /repo is never edited)."""
from __future__ import annotations

from dataclasses import dataclass, field

from . import types as ty


@dataclass
class LoopSpec:
    inv: object  # fn(L) -> bool term ; L has the locals, L.old (locals at loop entry), L.a (args), L.idx/L.n for `for`
    variant: object = None  # fn(L) -> int term, must be >= 0 at body entry and strictly decrease
    note: str = ""


@dataclass
class Contract:
    qualname: str  # "dsl_compiler/src/.../file.py::Class.method"
    params: dict  # name -> T (in call order; includes self/cls for methods)
    requires: list = field(default_factory=list)  # [(name, fn(a))]
    ensures: list = field(default_factory=list)  # [(name, fn(a, res))] for normal return
    raises: dict = field(default_factory=dict)  # exc name -> fn(a) (condition that must hold when it is raised) ; others forbidden
    loops: dict = field(default_factory=dict)  # ordinal -> LoopSpec
    uses: dict = field(default_factory=dict)  # "Class.method" -> Contract | "inline" | "skip"
    returns: ty.T = ty.TOpaque("result")  # result sort when used as a callee
    callee_ensures: list | None = None  # what callers may assume (default: ensures)
    may_raise: dict = field(default_factory=dict)  # callee side: exc -> fn(a)|None
    effect: object = None  # callee side: fn(executor, a) -> result, for contracts with heap effects
    defaults: dict = field(default_factory=dict)
    known: dict = field(default_factory=dict)  # ensures-name -> [(finding_id, fn(a,res) class predicate)]
    replay: object = None  # custom replay fn(model_values) -> ReplayResult
    build_args: object = None  # fn(values) -> (args, kwargs) for the real function
    min_obligations: int = 1
    verify: bool = True  # False: assumed contract on a dependency (listed in trusted_base)
    properties: tuple = ()
    note: str = ""
    case_split: dict = field(default_factory=dict)  # param -> list of concrete values to enumerate
    dynamic_types: dict = field(default_factory=dict)
    # relational lemma over TWO calls of the same function (e.g. injectivity of a key function):
    # pair_ensures: [(name, fn(a, res_a, b, res_b))]; params listed in pair_shared are the same in both calls
    pair_ensures: list = field(default_factory=list)
    pair_shared: tuple = ()
    name_prefix: str = ""
    max_paths: int = 0  # 0: the verifier's default limit
    no_replay: bool = False  # inputs cannot be rebuilt as real objects (third-party classes, captured effects)

    @property
    def short(self):
        return self.qualname.split("::")[1]
