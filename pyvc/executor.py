"""Statements, loops (cut by invariants), calls (by contract / inline / builtins)."""
from __future__ import annotations

import ast

import z3

from spec import ops
from . import source, types as ty
from .engine import (NS, Exec, Obligation, _Builtin, _FakeSrc, _scalar, as_int, is_z3, lift, sort_of)
from .values import (ADict, AList, ASet, BoundMethod, BreakSignal, ClassRef, ContinueSignal, Env, FStr,
                     ModRef, OMap, Opaque, OutOfSubset, PathEnd, PyRaise, ReturnSignal, SClosure, SFun, UMap,
                     SObj, fresh_name)

MAX_INLINE_DEPTH = 12
MAX_UNROLL = 64

_EXC_PARENTS = {
    "ZeroDivisionError": "ArithmeticError", "OverflowError": "ArithmeticError",
    "ArithmeticError": "Exception", "ValueError": "Exception", "TypeError": "Exception",
    "KeyError": "LookupError", "IndexError": "LookupError", "LookupError": "Exception",
    "RuntimeError": "Exception", "AssertionError": "Exception", "AttributeError": "Exception",
    "NotImplementedError": "RuntimeError", "SyntaxError": "Exception", "Exception": "BaseException",
    "StopIteration": "Exception",
}


def exc_is(name, base):
    tab = source.class_table()
    seen = set()
    while name and name not in seen:
        if name == base:
            return True
        seen.add(name)
        if name in _EXC_PARENTS:
            name = _EXC_PARENTS[name]
        elif name in tab and tab[name].bases:
            name = tab[name].bases[0]
        else:
            return False
    return False


class Executor(Exec):
    # ------------------------------------------------------------------ statements
    def exec_block(self, stmts, env, ctx):
        for s in stmts:
            self.exec_stmt(s, env, ctx)

    def exec_stmt(self, s, env, ctx):
        m = getattr(self, "s_" + type(s).__name__, None)
        if m is None:
            raise OutOfSubset(f"statement {type(s).__name__}")
        m(s, env, ctx)

    def s_Pass(self, s, env, ctx):
        pass

    def s_Expr(self, s, env, ctx):
        if isinstance(s.value, ast.Constant):
            return  # docstring
        self.eval(s.value, env)

    def s_Assign(self, s, env, ctx):
        v = self.eval(s.value, env)
        for t in s.targets:
            self.bind_target(t, v, env, ctx.get("nonlocal", ()))

    def s_AnnAssign(self, s, env, ctx):
        if s.value is not None:
            self.bind_target(s.target, self.eval(s.value, env), env, ctx.get("nonlocal", ()))

    def s_AugAssign(self, s, env, ctx):
        load = ast.copy_location(_as_load(s.target), s.target)
        cur = self.eval(load, env)
        rhs = self.eval(s.value, env)
        if isinstance(cur, AList) and isinstance(s.op, ast.Add):
            raise OutOfSubset("+= on symbolic list")
        if isinstance(cur, list) and isinstance(s.op, ast.Add):
            cur.extend(rhs)
            return
        self.bind_target(s.target, self.binop(s.op, cur, rhs), env, ctx.get("nonlocal", ()))

    def s_Return(self, s, env, ctx):
        raise ReturnSignal(self.eval(s.value, env) if s.value is not None else None)

    def s_If(self, s, env, ctx):
        c = self.truth(self.eval(s.test, env))
        if self.branch(c, label=f"if@{s.lineno}"):
            self.exec_block(s.body, env, ctx)
        else:
            self.exec_block(s.orelse, env, ctx)

    def s_Raise(self, s, env, ctx):
        if s.exc is None:
            if ctx.get("handling"):
                raise ctx["handling"]
            raise OutOfSubset("bare raise")
        e = s.exc
        name = None
        msg = None
        if isinstance(e, ast.Call):
            fn = e.func
            name = fn.id if isinstance(fn, ast.Name) else (fn.attr if isinstance(fn, ast.Attribute) else None)
            try:
                msg = [self.eval(a, env) for a in e.args]
            except OutOfSubset:
                msg = None
        elif isinstance(e, ast.Name):
            v = env.lookup(e.id) if env.has(e.id) else None
            if isinstance(v, PyRaise):
                raise v
            name = e.id
        if name is None:
            raise OutOfSubset("raise of computed exception")
        raise PyRaise(name, msg)

    def s_Assert(self, s, env, ctx):
        c = self.truth(self.eval(s.test, env))
        if not self.branch(c, label=f"assert@{s.lineno}"):
            raise PyRaise("AssertionError")

    def s_Try(self, s, env, ctx):
        try:
            try:
                self.exec_block(s.body, env, ctx)
            except PyRaise as ex:
                for h in s.handlers:
                    if self._handler_matches(h, ex, env):
                        if h.name:
                            env.set(h.name, ex)
                        ctx2 = dict(ctx)
                        ctx2["handling"] = ex
                        self.exec_block(h.body, env, ctx2)
                        break
                else:
                    raise
            else:
                self.exec_block(s.orelse, env, ctx)
        finally:
            import sys
            et = sys.exc_info()[0]
            if s.finalbody and (et is None or issubclass(et, (PyRaise, ReturnSignal, BreakSignal, ContinueSignal))):
                self.exec_block(s.finalbody, env, ctx)

    def _handler_matches(self, h, ex, env):
        if h.type is None:
            return True
        names = []
        t = h.type
        for e in (t.elts if isinstance(t, ast.Tuple) else [t]):
            names.append(e.id if isinstance(e, ast.Name) else getattr(e, "attr", "?"))
        return any(exc_is(ex.cls_name, n) for n in names)

    def s_FunctionDef(self, s, env, ctx):
        env.set(s.name, SClosure(s, env, self.fsrc))

    def s_Nonlocal(self, s, env, ctx):
        ctx.setdefault("nonlocal", set()).update(s.names)

    def s_Global(self, s, env, ctx):
        raise OutOfSubset("global statement")

    def s_Break(self, s, env, ctx):
        raise BreakSignal()

    def s_Continue(self, s, env, ctx):
        raise ContinueSignal()

    def s_Import(self, s, env, ctx):
        for a in s.names:
            env.set(a.asname or a.name, ModRef(a.name))

    def s_ImportFrom(self, s, env, ctx):
        """Function-local import: names from repository modules resolve to the repository's definitions
        (classes, functions, constants) exactly like module-level imports; third-party names are opaque."""
        mod = s.module or ""
        if s.level:  # relative import: resolve against the package of the file under execution
            base = self.fsrc.module.dotted.split(".")[: -s.level]
            mod = ".".join(base + ([mod] if mod else []))
        rel = mod.replace(".", "/") + ".py"
        for a in s.names:
            target = a.asname or a.name
            if (source.REPO / rel).exists():
                env.set(target, self.lookup_global(a.name, source.load_module(rel)))
            elif a.name in source.class_table() and mod.split(".")[0] in ("dsl_compiler",):
                env.set(target, ClassRef(a.name))
            else:
                env.set(target, Opaque(f"import {mod}.{a.name}"))

    def s_Delete(self, s, env, ctx):
        for t in s.targets:
            if isinstance(t, ast.Subscript):
                base = self.eval(t.value, env)
                k = self.eval(t.slice, env)
                if isinstance(base, dict) and not is_z3(k):
                    if k not in base:
                        raise PyRaise("KeyError")
                    del base[k]
                    continue
                if isinstance(base, ADict):
                    kk = lift(k)
                    if not self.branch(z3.Select(base.present, kk)):
                        raise PyRaise("KeyError")
                    base.present = z3.Store(base.present, kk, z3.BoolVal(False))
                    continue
            raise OutOfSubset("del")

    # ------------------------------------------------------------------ loops
    def _loop_spec(self, s):
        k = self.loop_ordinals.get(id(s))
        if k is None or self.contract is None:
            return None, k
        return self.contract.loops.get(k), k

    def _assigned_names(self, body):
        names = set()
        for st in body:
            for n in ast.walk(st):
                if isinstance(n, (ast.Assign, ast.AugAssign, ast.AnnAssign)):
                    tgts = n.targets if isinstance(n, ast.Assign) else [n.target]
                    for t in tgts:
                        for x in ast.walk(t):
                            if isinstance(x, ast.Name) and isinstance(x.ctx, ast.Store):
                                names.add(x.id)
                elif isinstance(n, ast.For):
                    for x in ast.walk(n.target):
                        if isinstance(x, ast.Name):
                            names.add(x.id)
                elif isinstance(n, ast.Call) and isinstance(n.func, ast.Attribute) and isinstance(n.func.value, ast.Name):
                    if n.func.attr in ("append", "add", "update", "extend", "pop", "remove", "insert", "clear", "discard", "setdefault"):
                        names.add(n.func.value.id)
                elif isinstance(n, ast.Subscript) and isinstance(n.ctx, ast.Store) and isinstance(n.value, ast.Name):
                    names.add(n.value.id)
        return names

    def _havoc(self, v, name):
        if isinstance(v, bool):
            return z3.Const(fresh_name(name), z3.BoolSort())
        if isinstance(v, int):
            return z3.Const(fresh_name(name), z3.IntSort())
        if isinstance(v, str):
            return z3.Const(fresh_name(name), z3.StringSort())
        if is_z3(v):
            return z3.Const(fresh_name(name), v.sort())
        if isinstance(v, AList):
            ln = z3.Int(fresh_name(name + "#len"))
            self.assume(ln >= 0)
            return AList(ln, z3.Array(fresh_name(name + "#arr"), z3.IntSort(), v.elem_sort), v.elem_sort)
        if isinstance(v, ADict):
            return ADict(z3.Array(fresh_name(name + "#has"), v.key_sort, z3.BoolSort()),
                         z3.Array(fresh_name(name + "#val"), v.key_sort, v.val_sort), v.key_sort, v.val_sort)
        if isinstance(v, ASet):
            return ASet(z3.Array(fresh_name(name + "#in"), v.key_sort, z3.BoolSort()), v.key_sort)
        if v is None:
            raise OutOfSubset(f"loop-modified variable {name} is None at loop entry (sort unknown)")
        raise OutOfSubset(f"cannot havoc loop-modified {name}: {type(v).__name__}")

    def _loop_ns(self, env, old, extra=None):
        d = {}
        e = env
        chain = []
        while e is not None:
            chain.append(e)
            e = e.parent
        for e in reversed(chain):
            d.update(e.vars)
        d["old"] = NS(old)
        d["a"] = self.args_ns
        if extra:
            d.update(extra)
        return NS(d)

    def s_While(self, s, env, ctx):
        spec, k = self._loop_spec(s)
        if spec is None:
            # bounded concrete unrolling is only allowed when the guard is concrete each time
            n = 0
            while True:
                c = self.truth(self.eval(s.test, env))
                if not isinstance(c, bool):
                    # no invariant given: the loop is executed path by path (each evaluation of the guard is a branch); exact as long
                    # as every path leaves the loop within the unroll limit (a walk over a concrete chain of objects does) — a path
                    # that does not is out of subset, never silently cut
                    c = self.branch(c, label=f"while{k}#{n}")
                if not c:
                    break
                n += 1
                if n > MAX_UNROLL:
                    raise OutOfSubset("unroll limit")
                try:
                    self.exec_block(s.body, env, ctx)
                except BreakSignal:
                    return
                except ContinueSignal:
                    continue
            self.exec_block(s.orelse, env, ctx)
            return
        self._promote_lists(env, s.body)
        old = self._loop_ns(env, {})._asdict()
        old.pop("old", None)
        old.pop("a", None)
        old = {n: (v.copy() if isinstance(v, (AList, ADict, ASet)) else v) for n, v in old.items()}
        L = self._loop_ns(env, old)
        self.oblige(f"loop{k}.establish", spec.inv(L), "loop-establish")
        for name in sorted(self._assigned_names(s.body)):
            if env.has(name):
                self._set_existing(env, name, self._havoc(env.lookup(name), name))
        L = self._loop_ns(env, old)
        self.assume(_tobool(spec.inv(L)))
        c = self.truth(self.eval(s.test, env))
        if self.branch(c, label=f"while{k}"):
            v0 = spec.variant(L) if spec.variant else None
            try:
                self.exec_block(s.body, env, ctx)
            except ContinueSignal:
                pass
            except BreakSignal:
                return
            L2 = self._loop_ns(env, old)
            self.oblige(f"loop{k}.preserve", spec.inv(L2), "loop-preserve")
            if v0 is not None:
                v1 = spec.variant(L2)
                self.oblige(f"loop{k}.variant", ops.And(v0 >= 0, v1 < v0), "loop-variant")
            raise PathEnd()
        self.exec_block(s.orelse, env, ctx)

    def _promote_lists(self, env, body):
        """Concrete lists of scalars that the loop body modifies become (length, array) lists."""
        for name in sorted(self._assigned_names(body)):
            if env.has(name):
                v = env.lookup(name)
                if isinstance(v, list) and all(_scalar(x) for x in v):
                    srt = lift(v[0]).sort() if v else z3.IntSort()
                    arr = z3.K(z3.IntSort(), lift(v[0])) if v else z3.Array(fresh_name(name + "#arr"), z3.IntSort(), srt)
                    for i, x in enumerate(v):
                        arr = z3.Store(arr, i, lift(x))
                    self._set_existing(env, name, AList(z3.IntVal(len(v)), arr, srt))

    def _set_existing(self, env, name, value):
        e = env
        while e is not None:
            if name in e.vars:
                e.vars[name] = value
                return
            e = e.parent
        env.vars[name] = value

    def s_For(self, s, env, ctx):
        spec, k = self._loop_spec(s)
        it = self.eval(s.iter, env)
        if isinstance(it, _SymRange):
            if spec is None:
                raise OutOfSubset(f"for loop #{k} over a symbolic range needs an invariant")
            return self._for_cut(s, env, ctx, spec, k, it.length(), lambda i: it.at(i))
        if isinstance(it, AList):
            if spec is None:
                raise OutOfSubset(f"for loop #{k} over a symbolic list needs an invariant")
            snap = it.copy()
            return self._for_cut(s, env, ctx, spec, k, snap.length, lambda i: snap.sym_at(i))
        if isinstance(it, (ADict, ASet)):
            raise OutOfSubset("iteration over symbolic map/set")
        items = self.concrete_iter(it)
        if len(items) > MAX_UNROLL:
            raise OutOfSubset("unroll limit")
        for item in items:
            self.bind_target(s.target, item, env, ctx.get("nonlocal", ()))
            try:
                self.exec_block(s.body, env, ctx)
            except BreakSignal:
                return
            except ContinueSignal:
                continue
        self.exec_block(s.orelse, env, ctx)

    def _for_cut(self, s, env, ctx, spec, k, n, at):
        self._promote_lists(env, s.body)
        old = self._loop_ns(env, {})._asdict()
        old.pop("old", None)
        old.pop("a", None)
        old = {nm: (v.copy() if isinstance(v, (AList, ADict, ASet)) else v) for nm, v in old.items()}
        L = self._loop_ns(env, old, {"idx": z3.IntVal(0), "n": n})
        self.oblige(f"loop{k}.establish", spec.inv(L), "loop-establish")
        for name in sorted(self._assigned_names(s.body)):
            if env.has(name):
                self._set_existing(env, name, self._havoc(env.lookup(name), name))
        idx = z3.Int(fresh_name(f"idx{k}"))
        self.assume(z3.And(idx >= 0, idx <= n))
        L = self._loop_ns(env, old, {"idx": idx, "n": n})
        self.assume(_tobool(spec.inv(L)))
        if self.branch(idx < n, label=f"for{k}"):
            self.bind_target(s.target, at(idx), env, ctx.get("nonlocal", ()))
            try:
                self.exec_block(s.body, env, ctx)
            except ContinueSignal:
                pass
            except BreakSignal:
                return
            L2 = self._loop_ns(env, old, {"idx": idx + 1, "n": n})
            self.oblige(f"loop{k}.preserve", spec.inv(L2), "loop-preserve")
            raise PathEnd()
        self.exec_block(s.orelse, env, ctx)

    # ------------------------------------------------------------------ calls
    def e_Call(self, node, env):
        # diagnostics.info / warning, logging.*: dropped by the extraction (documented)
        if isinstance(node.func, ast.Attribute):
            recv = node.func.value
            rname = recv.attr if isinstance(recv, ast.Attribute) else (recv.id if isinstance(recv, ast.Name) else "")
            if rname in ("diagnostics", "diag", "_diagnostics") and node.func.attr in ("info", "warning") \
                    and f"ProgramDiagnostics.{node.func.attr}" not in getattr(self.contract, "uses", {}):
                return None   # (a contract that says something about warnings binds ProgramDiagnostics.warning: then the call is executed)
            if rname in ("logging", "logger", "log", "_logger"):
                return None
        # super().method(...): the method of the next class in the (single-inheritance) base chain, on the current receiver
        if isinstance(node.func, ast.Attribute) and isinstance(node.func.value, ast.Call) and isinstance(node.func.value.func, ast.Name) \
                and node.func.value.func.id == "super" and not node.func.value.args and self.fsrc.cls:
            fnode_cur = self.fsrc.node
            recv_name = fnode_cur.args.args[0].arg if fnode_cur.args.args else None
            recv_obj = env.lookup(recv_name) if recv_name and env.has(recv_name) else None
            info = source.class_table().get(self.fsrc.cls)
            target = None
            for b in (info.bases if info else []):
                found = source.find_method(b, node.func.attr)
                if found:
                    target = found
                    break
            s_args = [self.eval(a, env) for a in node.args]
            s_kwargs = {k.arg: self.eval(k.value, env) for k in node.keywords if k.arg}
            if target is None:
                if node.func.attr == "__init__":
                    return None  # object.__init__
                raise OutOfSubset(f"super().{node.func.attr} not found in the repository classes")
            if recv_obj is None:
                raise OutOfSubset("super() outside a method")
            return self.call_method_inline(recv_obj, target[0], target[1], s_args, s_kwargs)
        fn = self.eval(node.func, env)
        args = []
        for a in node.args:
            if isinstance(a, ast.Starred):
                v = self.eval(a.value, env)
                if not isinstance(v, (list, tuple)):
                    raise OutOfSubset("*args of symbolic sequence")
                args.extend(v)
            else:
                args.append(self.eval(a, env))
        kwargs = {}
        for kw in node.keywords:
            if kw.arg is None:
                v = self.eval(kw.value, env)
                if not isinstance(v, dict):
                    raise OutOfSubset("**kwargs of symbolic dict")
                kwargs.update(v)
            else:
                kwargs[kw.arg] = self.eval(kw.value, env)
        return self.call(fn, args, kwargs, node)

    def call(self, fn, args, kwargs, node=None):
        if isinstance(fn, _Builtin):
            return self.call_builtin(fn.name, args, kwargs)
        if isinstance(fn, SClosure):
            return self.call_closure(fn, args, kwargs)
        if isinstance(fn, SFun):
            zargs = [lift(a) for a in args]
            if fn.none_fn is not None:
                if self.branch(fn.none_fn(*zargs), label=f"{fn.name}()->None"):
                    return None
            return fn.val_fn(*zargs)
        if isinstance(fn, ClassRef):
            return self.construct(fn.name, args, kwargs)
        if isinstance(fn, BoundMethod):
            return self.call_bound(fn, args, kwargs)
        if fn is None:
            raise PyRaise("TypeError", "None is not callable")
        if isinstance(fn, Opaque) and fn.label.startswith("import "):
            # constructor / function of a third-party package: only by an (assumed) contract given as effect
            short = fn.label.rsplit(".", 1)[-1]
            if fn.label == "import dataclasses.field":  # default of a dataclass field
                if "default_factory" in kwargs:
                    return self.call(kwargs["default_factory"], [], {})
                if "default" in kwargs:
                    return kwargs["default"]
                raise OutOfSubset("dataclasses.field without default")
            u = self._uses(f"opaque.{short}")
            if u == "skip":
                return None
            if u is not None and u != "inline" and getattr(u, "effect", None) is not None:
                return u.effect(self, NS({"args": list(args), "kwargs": dict(kwargs), "recv": fn}))
            raise OutOfSubset(f"call of third-party {fn.label} without contract")
        raise OutOfSubset(f"call of {type(fn).__name__}")

    def _uses(self, *keys):
        uses = self.contract.uses if self.contract is not None else {}
        for k in keys:
            if k in uses:
                return uses[k]
        for k in keys:
            if k in self.registry:
                return self.registry[k]
        return None

    def call_bound(self, bm, args, kwargs):
        recv, name = bm.recv, bm.name
        if isinstance(recv, SObj):
            for c in recv._cls_set:
                u = self._uses(f"{c}.{name}")
                if u is not None:
                    break
            else:
                u = None
            found = None
            for c in recv._cls_set:
                found = source.find_method(c, name)
                if found:
                    break
            if u is None and found is not None:
                u = self._uses(f"{found[0]}.{name}")
            if u is None and found is not None and self.fsrc.cls is not None and found[0] == self.fsrc.cls \
                    and name.startswith("_") and len(found[1].body) <= 12:
                u = "inline"  # small private helper of the class under verification (same subset rules apply)
            if u is None:
                raise OutOfSubset(f"call of {recv}.{name} has no contract and is not marked inline")
            if u == "skip":
                return None
            if u == "inline":
                if len({source.find_method(c, name) and source.find_method(c, name)[0] for c in recv._cls_set}) != 1:
                    raise OutOfSubset(f"dynamic dispatch of {name} over {recv._cls_set}")
                return self.call_method_inline(recv, found[0], found[1], args, kwargs)
            return self.apply_contract(u, [recv] + list(args), kwargs)
        if isinstance(recv, ClassRef):
            found = source.find_method(recv.name, name)
            u = self._uses(f"{recv.name}.{name}", f"{found[0]}.{name}" if found else name)
            if u is None:
                raise OutOfSubset(f"call of {recv.name}.{name} has no contract and is not marked inline")
            fnode = found[1]
            is_cm = any(isinstance(d, ast.Name) and d.id == "classmethod" for d in fnode.decorator_list)
            is_sm = any(isinstance(d, ast.Name) and d.id == "staticmethod" for d in fnode.decorator_list)
            pre = [recv] if is_cm else []
            if u == "inline":
                fs = source.get_function(f"{source.class_table()[found[0]].file}::{found[0]}.{name}")
                return self.call_closure(SClosure(fnode, Env(None, {}), fs), pre + list(args), kwargs)
            if u == "skip":
                return None
            return self.apply_contract(u, pre + list(args), kwargs)
        if isinstance(recv, ModRef):
            return self.call_module(recv.name, name, args, kwargs)
        if isinstance(recv, Opaque):
            u = self._uses(f"opaque.{name}")
            if u == "skip":
                return None
            if u is not None and u != "inline" and getattr(u, "effect", None) is not None:
                from .engine import NS
                return u.effect(self, NS({"args": list(args), "kwargs": dict(kwargs), "recv": recv}))
            raise OutOfSubset(f"method {name} on opaque value {recv.label}")
        return self.call_container_method(recv, name, args, kwargs)

    def call_method_inline(self, recv, defcls, fnode, args, kwargs):
        fs = source.get_function(f"{source.class_table()[defcls].file}::{defcls}.{fnode.name}")
        decos = [d.id for d in fnode.decorator_list if isinstance(d, ast.Name)]
        if "staticmethod" in decos:
            pre = []
        elif "classmethod" in decos:
            pre = [ClassRef(defcls)]
        else:
            pre = [recv]
        return self.call_closure(SClosure(fnode, Env(None, {}), fs), pre + list(args), kwargs)

    def call_closure(self, clo, args, kwargs):
        if self.call_depth > MAX_INLINE_DEPTH:
            raise OutOfSubset("inline depth")
        node = clo.node
        u = self._uses(f"fn:{getattr(node, 'name', '')}")
        if u == "skip":
            return None
        if u is not None and u != "inline":
            return self.apply_contract(u, list(args), kwargs)
        env = Env(clo.env, {})
        a = node.args
        params = [p.arg for p in a.posonlyargs + a.args]
        defaults = a.defaults
        if len(args) > len(params) and a.vararg is None:
            raise PyRaise("TypeError", "too many arguments")
        saved = self.fsrc
        self.fsrc = clo.fsrc
        self.call_depth += 1
        try:
            for i, p in enumerate(params):
                if i < len(args):
                    env.vars[p] = args[i]
                elif p in kwargs:
                    env.vars[p] = kwargs[p]
                else:
                    di = i - (len(params) - len(defaults))
                    if di < 0:
                        raise PyRaise("TypeError", f"missing argument {p}")
                    env.vars[p] = self.eval(defaults[di], clo.env)
            if a.vararg is not None:
                env.vars[a.vararg.arg] = tuple(args[len(params):])
            for p, d in zip(a.kwonlyargs, a.kw_defaults):
                if p.arg in kwargs:
                    env.vars[p.arg] = kwargs[p.arg]
                elif d is not None:
                    env.vars[p.arg] = self.eval(d, clo.env)
                else:
                    raise PyRaise("TypeError", f"missing kw-only {p.arg}")
            extra = set(kwargs) - set(params) - {p.arg for p in a.kwonlyargs}
            if extra:
                if a.kwarg is None:
                    raise PyRaise("TypeError", f"unexpected keyword {sorted(extra)}")
                env.vars[a.kwarg.arg] = {k: kwargs[k] for k in extra}
            elif a.kwarg is not None:
                env.vars[a.kwarg.arg] = {}
            if isinstance(node, ast.Lambda):
                return self.eval(node.body, env)
            try:
                self.exec_block(node.body, env, {})
            except ReturnSignal as r:
                return r.value
            return None
        finally:
            self.call_depth -= 1
            self.fsrc = saved

    def construct(self, cname, args, kwargs):
        u = self._uses(cname)
        if u is not None and u not in ("inline",):
            if u == "opaque":
                return Opaque(cname)
            return self.apply_contract(u, list(args), kwargs)
        tab = source.class_table()
        if cname not in tab:
            if cname in _EXC_PARENTS:
                return PyRaise(cname, list(args))
            raise OutOfSubset(f"construction of unknown class {cname}")
        o = SObj([cname], fresh_name(cname), lazy=False)
        init = source.find_method(cname, "__init__")
        if init is not None:
            self.call_method_inline(o, init[0], init[1], args, kwargs)
            return o
        ci = tab[cname]
        if ci.is_dataclass:
            names = list(source.all_fields(cname).keys())
            for i, f in enumerate(names):
                if i < len(args):
                    o._fields[f] = args[i]
                elif f in kwargs:
                    o._fields[f] = kwargs[f]
                else:
                    v = self._class_attr(cname, f)
                    if isinstance(v, type(_Builtin)):
                        pass
                    o._fields[f] = v
            return o
        if exc_is(cname, "Exception"):
            return PyRaise(cname, list(args))
        if args or kwargs:
            raise OutOfSubset(f"constructor of {cname}")
        return o

    def super_call(self, env):
        raise OutOfSubset("super()")

    # --- contracts at call sites --------------------------------------------------------
    def apply_contract(self, c, args, kwargs):
        """Modular call: assert requires, havoc frame, assume ensures."""
        names = list(c.params.keys())
        bound = {}
        for i, a in enumerate(args):
            if i >= len(names):
                raise PyRaise("TypeError", "too many arguments")
            bound[names[i]] = a
        for k, v in kwargs.items():
            if k not in c.params:
                raise PyRaise("TypeError", f"unexpected keyword {k}")
            bound[k] = v
        for n in names:
            if n not in bound:
                if n in c.defaults:
                    bound[n] = c.defaults[n]
                else:
                    raise PyRaise("TypeError", f"missing argument {n}")
        a = NS(bound)
        for rname, rfn in c.requires:
            self.oblige(f"call:{c.short}.requires[{rname}]", rfn(a), "requires-at-call")
        if c.effect is not None:
            return c.effect(self, a)
        res = self.mk(c.returns, fresh_name(f"{c.short}()"), register=False)
        for ename, efn in (c.callee_ensures if c.callee_ensures is not None else c.ensures):
            self.assume(_tobool(efn(a, res)))
        if c.may_raise:
            for exc_name, cond in c.may_raise.items():
                cnd = cond(a) if cond is not None else z3.Bool(fresh_name(f"{c.short}#raises"))
                if self.branch(_tobool(cnd), label=f"{c.short} raises {exc_name}"):
                    raise PyRaise(exc_name)
        self.assumptions_used.add(f"contract of callee {c.qualname} ({'proved here' if c.verify else 'ASSUMED'})")
        return res

    # --- builtins --------------------------------------------------------------------------
    def call_builtin(self, name, args, kw):
        if name == "isinstance":
            return self.isinstance_(args[0], args[1])
        if name == "len":
            v = args[0]
            if isinstance(v, AList):
                return v.length
            if isinstance(v, ASet):
                from .engine import SetLen
                return SetLen(v)
            if isinstance(v, (list, tuple, dict, set, frozenset, str)):
                return len(v)
            if is_z3(v) and z3.is_string(v):
                return z3.Length(v)
            raise OutOfSubset(f"len of {type(v).__name__}")
        if name == "abs":
            v = as_int(args[0])
            return ops.absv(v) if is_z3(v) else abs(v)
        if name == "pow":
            if len(args) == 2:
                return self.binop(ast.Pow(), args[0], args[1])
            b, e, m = (as_int(x) for x in args)
            if not any(is_z3(x) for x in (b, e, m)):
                return pow(b, e, m)
            if self.branch(lift(e) < 0, label="negexp"):
                raise OutOfSubset("modular inverse")
            if self.branch(lift(m) == 0, label="mod0"):
                raise PyRaise("ValueError")
            self.pow_used = True
            return ops.floormod(self.powf(lift(b), lift(e)), m)
        if name in ("min", "max"):
            vals = list(args[0]) if len(args) == 1 and isinstance(args[0], (list, tuple)) else list(args)
            if not vals:
                if "default" in kw:
                    return kw["default"]
                raise PyRaise("ValueError")
            if kw.get("key") is not None:
                raise OutOfSubset("min/max with key")
            res = as_int(vals[0])
            for v in vals[1:]:
                v = as_int(v)
                res = ops.ite(v < res, v, res) if name == "min" else ops.ite(v > res, v, res)
            return res
        if name == "int":
            if not args:
                return 0
            v = args[0]
            if len(args) > 1:
                raise OutOfSubset("int(text, base)")
            if isinstance(v, (int, float, bool)):
                return int(v)
            if isinstance(v, str):
                try:
                    return int(v)
                except ValueError:
                    raise PyRaise("ValueError")
            if is_z3(v):
                if z3.is_int(v):
                    return v
                if z3.is_bool(v):
                    return as_int(v)
                if z3.is_real(v):
                    self.assumptions_used.add("int(float) modelled as truncation of a real")
                    fl = z3.ToInt(v)
                    return z3.If(v >= 0, fl, -z3.ToInt(-v))
            raise OutOfSubset("int() of this value")
        if name == "float":
            v = args[0]
            if is_z3(v):
                return z3.ToReal(as_int(v)) if not z3.is_real(v) else v
            return float(v)
        if name == "bool":
            return self.truth(args[0]) if args else False
        if name == "str":
            v = args[0] if args else ""
            if isinstance(v, (int, str, bool, float)) or v is None:
                return str(v)
            if is_z3(v) and z3.is_string(v):
                return v
            return Opaque("str()")
        if name == "repr":
            v = args[0]
            if isinstance(v, (int, str, bool)) or v is None:
                return repr(v)
            if isinstance(v, SObj) and not any(source.find_method(c, "__repr__") for c in v._cls_set):
                return FStr(("<default repr of object>", v._nm), [])  # identity-based
            return Opaque("repr()")
        if name in ("list", "tuple"):
            if not args:
                return [] if name == "list" else ()
            v = args[0]
            if isinstance(v, AList):
                if name == "list":
                    return v.copy()
                raise OutOfSubset("tuple(symbolic list)")
            return (list if name == "list" else tuple)(self.concrete_iter(v))
        if name in ("set", "frozenset"):
            if not args:
                return set() if name == "set" else frozenset()
            if isinstance(args[0], ASet):
                return args[0].copy()
            items = self.concrete_iter(args[0])
            if any(is_z3(i) for i in items):
                return self._distinct_set(items)
            return (set if name == "set" else frozenset)(items)
        if name == "dict":
            if not args:
                return dict(kw)
            if isinstance(args[0], dict):
                d = dict(args[0])
                d.update(kw)
                return d
            if isinstance(args[0], ADict):
                return args[0].copy()
            raise OutOfSubset("dict()")
        if name == "range":
            vals = [as_int(a) for a in args]
            if all(not is_z3(v) for v in vals):
                return range(*vals)
            return _SymRange(vals)
        if name == "sorted":
            v = self.concrete_iter(args[0])
            if any(is_z3(x) for x in v) or kw.get("key") is not None and not isinstance(kw.get("key"), SClosure):
                raise OutOfSubset("sorted of symbolic values")
            if kw.get("key") is not None:
                keys = [self.call(kw["key"], [x], {}) for x in v]
                if any(is_z3(k) for k in keys):
                    raise OutOfSubset("sorted with symbolic keys")
                return [x for _, x in sorted(zip(keys, v), key=lambda p: p[0], reverse=bool(kw.get("reverse")))]
            if any(not isinstance(x, (int, str, tuple, float)) for x in v):
                raise OutOfSubset("sorted() over symbolic values")
            return sorted(v, reverse=bool(kw.get("reverse")))
        if name == "sum":
            v = self.concrete_iter(args[0])
            res = args[1] if len(args) > 1 else 0
            for x in v:
                res = self.binop(ast.Add(), res, x)
            return res
        if name in ("any", "all"):
            v = self.concrete_iter(args[0])
            ts = [self.truth(x) for x in v]
            return (ops.Or if name == "any" else ops.And)(*ts) if ts else (name == "all")
        if name == "enumerate":
            v = self.concrete_iter(args[0])
            start = args[1] if len(args) > 1 else kw.get("start", 0)
            return [(i + start, x) for i, x in enumerate(v)]
        if name == "zip":
            return list(zip(*[self.concrete_iter(a) for a in args]))
        if name == "reversed":
            return list(reversed(self.concrete_iter(args[0])))
        if name == "round":
            v = args[0]
            if not is_z3(v):
                return round(*args)
            if len(args) > 1:
                raise OutOfSubset("round(x, n)")
            self.assumptions_used.add("round() modelled as banker's rounding of a real")
            if z3.is_int(v):
                return v
            fl = z3.ToInt(v)
            frac = v - z3.ToReal(fl)
            return z3.If(frac < z3.RealVal("1/2"), fl, z3.If(frac > z3.RealVal("1/2"), fl + 1,
                         z3.If(fl % 2 == 0, fl, fl + 1)))
        if name == "type":
            v = args[0]
            if isinstance(v, SObj) and v._cls:
                return ClassRef(v._cls)
            if isinstance(v, SObj):
                return _Builtin("<one of " + "|".join(v._cls_set) + ">")  # only its __name__ (a message text) can be taken
            if v is None:
                return _Builtin("NoneType")
            if isinstance(v, bool):
                return _Builtin("bool")
            if isinstance(v, int) or (is_z3(v) and z3.is_int(v)):
                return _Builtin("int")
            if isinstance(v, str) or (is_z3(v) and z3.is_string(v)):
                return _Builtin("str")
            raise OutOfSubset("type()")
        if name == "id":
            # identity of an object as an uninterpreted integer (the object's handle). Two objects that may alias (lazy
            # inputs) may have equal ids: an over-approximation
            if len(args) == 1 and isinstance(args[0], SObj):
                return self.handle(args[0])
            raise OutOfSubset("id() of a non-object")
        if name == "hasattr":
            v, attr = args
            if isinstance(v, SObj) and isinstance(attr, str):
                if attr in v._fields:
                    return True
                res = [attr in source.all_fields(c) or source.find_method(c, attr) is not None for c in v._cls_set]
                if all(res):
                    return True
                if not any(res):
                    return False
            raise OutOfSubset("hasattr")
        if name == "getattr":
            v, attr = args[0], args[1]
            if isinstance(attr, str):
                try:
                    return self.get_attr(v, attr)
                except PyRaise:
                    if len(args) > 2:
                        return args[2]
                    raise
            raise OutOfSubset("getattr with symbolic name")
        if name == "print":
            return None
        if name == "callable":
            return isinstance(args[0], (SClosure, SFun, BoundMethod, ClassRef))
        if name == "divmod":
            return (self.binop(ast.FloorDiv(), args[0], args[1]), self.binop(ast.Mod(), args[0], args[1]))
        if name in _EXC_PARENTS:
            return PyRaise(name, list(args))
        raise OutOfSubset(f"builtin {name}")

    def isinstance_(self, v, cls):
        classes = list(cls) if isinstance(cls, tuple) else [cls]
        names = []
        for c in classes:
            if isinstance(c, ClassRef):
                names.append(c.name)
            elif isinstance(c, _Builtin):
                names.append(c.name)
            elif isinstance(c, Opaque) and c.label.startswith("import "):
                # a class imported from a third-party package: no repo object and no scalar is an instance
                names.append("<external:" + c.label + ">")
                self.assumptions_used.add("classes of the repository do not derive from third-party classes tested with isinstance (lark Tree/Token)")
            else:
                raise OutOfSubset("isinstance against computed class")
        if isinstance(v, SObj):
            yes = [c for c in v._cls_set if any(source.is_subclass(c, n) for n in names)]
            if len(yes) == len(v._cls_set):
                return True
            if not yes:
                return False
            flag = z3.Bool(f"{v._nm}#is#{'|'.join(yes)}")
            self.inputs[f"{v._nm}#is#{'|'.join(yes)}"] = (flag, ty.Bool)
            if self.branch(flag, label=f"{v._nm}:{'|'.join(yes)}"):
                v._cls_set = tuple(yes)
                return True
            v._cls_set = tuple(c for c in v._cls_set if c not in yes)
            return False
        kinds = set()
        if isinstance(v, bool) or (is_z3(v) and z3.is_bool(v)):
            kinds = {"bool", "int", "object"}
        elif isinstance(v, int) or (is_z3(v) and z3.is_int(v)):
            kinds = {"int", "object"}
        elif isinstance(v, float) or (is_z3(v) and z3.is_real(v)):
            kinds = {"float", "object"}
        elif isinstance(v, str) or (is_z3(v) and z3.is_string(v)):
            kinds = {"str", "object"}
        elif v is None:
            kinds = {"object", "NoneType"}
        elif isinstance(v, (list, AList)):
            kinds = {"list", "object"}
        elif isinstance(v, tuple):
            kinds = {"tuple", "object"}
        elif isinstance(v, (dict, ADict)):
            kinds = {"dict", "object"}
        elif isinstance(v, (set, ASet)):
            kinds = {"set", "object"}
        elif isinstance(v, frozenset):
            kinds = {"frozenset", "object"}
        elif isinstance(v, PyRaise):
            return any(exc_is(v.cls_name, n) for n in names)
        else:
            raise OutOfSubset(f"isinstance on {type(v).__name__}")
        return any(n in kinds for n in names)

    def call_module(self, mod, name, args, kw):
        if mod == "math":
            if name == "dist":
                pts = [tuple(a) for a in args] if all(isinstance(a, (tuple, list)) for a in args) else None
                if pts and all(isinstance(c, (int, float)) for p in pts for c in p):
                    import math
                    return math.dist(*pts)  # concrete points: exact Python semantics
                u = self._uses("math.dist")
                if u is not None and getattr(u, "effect", None) is not None:  # by contract: an abstract non-negative distance
                    from .engine import NS
                    return u.effect(self, NS({"args": list(args), "kwargs": dict(kw), "recv": None}))
                raise OutOfSubset("math.dist (use squared distance contract)")
            if name in ("floor", "ceil"):
                v = args[0]
                if not is_z3(v):
                    import math
                    return getattr(math, name)(v)
                if z3.is_int(v):
                    return v
                fl = z3.ToInt(v)
                return fl if name == "floor" else z3.If(z3.ToReal(fl) == v, fl, fl + 1)
            if name == "sqrt":
                raise OutOfSubset("math.sqrt")
        raise OutOfSubset(f"{mod}.{name}")

    def call_container_method(self, recv, name, args, kw):
        from .values import DSet
        if isinstance(recv, DSet):
            raise OutOfSubset(f"method {name} on a set of symbolic elements")
        if isinstance(recv, list):
            if name == "append":
                recv.append(args[0])
                return None
            if name == "extend":
                recv.extend(self.concrete_iter(args[0]))
                return None
            if name == "pop":
                try:
                    return recv.pop(*args)
                except IndexError:
                    raise PyRaise("IndexError")
            if name == "copy":
                return list(recv)
            if name == "insert":
                recv.insert(*args)
                return None
            if name == "index" and not any(is_z3(x) for x in recv) and not is_z3(args[0]):
                try:
                    return recv.index(args[0])
                except ValueError:
                    raise PyRaise("ValueError")
            if name == "clear":
                recv.clear()
                return None
        if isinstance(recv, AList):
            if name == "append":
                recv.arr = z3.Store(recv.arr, recv.length, lift(args[0]))
                recv.length = recv.length + 1
                return None
            if name == "copy":
                return recv.copy()
        if isinstance(recv, dict):
            if name == "get":
                k = args[0]
                d = args[1] if len(args) > 1 else kw.get("default")
                if is_z3(k):
                    for kk in recv:
                        if self.branch(self.py_eq(k, kk), label=f"get=={kk!r}"):
                            return recv[kk]
                    return d
                return recv.get(k, d)
            if name == "keys":
                return recv.keys()  # a live view, as in Python (set operations with sets are defined on it)
            if name in ("items", "values"):
                return list(getattr(recv, name)())
            if name == "setdefault":
                if is_z3(args[0]):
                    raise OutOfSubset("setdefault with symbolic key")
                return recv.setdefault(args[0], args[1] if len(args) > 1 else None)
            if name == "update":
                if args:
                    if not isinstance(args[0], dict):
                        raise OutOfSubset("dict.update(symbolic)")
                    recv.update(args[0])
                recv.update(kw)
                return None
            if name == "pop":
                if is_z3(args[0]):
                    raise OutOfSubset("pop with symbolic key")
                if args[0] in recv:
                    return recv.pop(args[0])
                if len(args) > 1:
                    return args[1]
                raise PyRaise("KeyError")
            if name == "copy":
                return dict(recv)
            if name == "clear":
                recv.clear()
                return None
        if isinstance(recv, UMap):
            if name == "get":
                k = lift(args[0])
                d = args[1] if len(args) > 1 else None
                if not self.branch(z3.Select(recv.present, k), label="get-present"):
                    return d
                if self.branch(z3.Select(recv.isint, k), label="value-is-int"):
                    return z3.Select(recv.ival, k)
                return self.mk(recv.obj_type, fresh_name(recv.name + "[]"), register=True)
        if isinstance(recv, OMap):
            if name == "get":
                memo = [(k, r) for (k, r) in recv.lookups if self._same_key(k, args[0])]
                if memo:
                    r = memo[-1][1]  # same key term, no store in between: same answer (None included)
                else:
                    r = self.mk(ty.TOpt(recv.val_type), fresh_name(recv.name + "[]"), register=True)
                    recv.lookups.append((args[0], r))
                    if r is not None:
                        recv.tests.append((args[0], z3.BoolVal(True)))
                if r is None and len(args) > 1:
                    r = args[1]
                return r
        if isinstance(recv, ADict):
            if name == "get":
                k = lift(args[0])
                d = args[1] if len(args) > 1 else None
                if d is not None and not isinstance(d, bool) and ((isinstance(d, int) and z3.is_int(z3.Select(recv.vals, k))) or (isinstance(d, str) and z3.is_string(z3.Select(recv.vals, k)))):
                    # a scalar default of the value sort: one term instead of two paths
                    return z3.If(z3.Select(recv.present, k), z3.Select(recv.vals, k), lift(d))
                if self.branch(z3.Select(recv.present, k), label="get-present"):
                    return z3.Select(recv.vals, k)
                return d
            if name == "copy":
                return recv.copy()
            if name == "pop":
                k = lift(args[0])
                if self.branch(z3.Select(recv.present, k)):
                    v = z3.Select(recv.vals, k)
                    recv.present = z3.Store(recv.present, k, z3.BoolVal(False))
                    return v
                if len(args) > 1:
                    return args[1]
                raise PyRaise("KeyError")
        if isinstance(recv, set):
            if name == "add":
                recv.add(args[0] if not is_z3(args[0]) else _no("symbolic element into concrete set"))
                return None
            if name == "update":
                items = self.concrete_iter(args[0])
                if any(is_z3(i) for i in items):
                    _no("symbolic element into concrete set")
                recv.update(items)
                return None
            if name == "discard":
                if is_z3(args[0]) or any(is_z3(i) for i in recv):
                    _no("symbolic discard on a concrete set")
                recv.discard(args[0])
                return None
            if name == "copy":
                return set(recv)
        if isinstance(recv, ADict) and name == "keys" and not args:
            return ASet(recv.present, recv.key_sort)  # the key set at this moment (snapshot; enough for set(d.keys()) / membership)
        if isinstance(recv, ASet):
            if name == "add":
                recv.member = z3.Store(recv.member, lift(args[0]), z3.BoolVal(True))
                return None
            if name == "discard":
                recv.member = z3.Store(recv.member, lift(args[0]), z3.BoolVal(False))
                return None
            if name == "clear":
                recv.member = z3.K(recv.key_sort, z3.BoolVal(False))
                return None
            if name == "copy":
                return recv.copy()
        if isinstance(recv, str) and name == "join" and isinstance(args[0], (list, tuple)) and any(
                not isinstance(x, str) for x in args[0]):
            return FStr(("join", recv, len(args[0])) + (None,) * len(args[0]), list(args[0]))
        if isinstance(recv, str):
            if name == "join" and len(args) == 1 and isinstance(args[0], (list, tuple)) and all(isinstance(x, str) for x in args[0]):
                return recv.join(args[0])
            if all(isinstance(a, (str, int, tuple)) for a in args) and name in (
                "startswith", "endswith", "lower", "upper", "strip", "split", "replace", "join", "format", "lstrip", "rstrip", "isdigit"):
                return getattr(recv, name)(*args)
        if is_z3(recv) and z3.is_string(recv):
            if name == "startswith" and isinstance(args[0], str):
                return z3.PrefixOf(z3.StringVal(args[0]), recv)
            if name == "endswith" and isinstance(args[0], str):
                return z3.SuffixOf(z3.StringVal(args[0]), recv)
        if isinstance(recv, tuple) and name in ("index", "count"):
            return getattr(recv, name)(*args)
        raise OutOfSubset(f"method {name} on {type(recv).__name__}")


class _SymRange:
    def __init__(self, vals):
        if len(vals) == 1:
            self.start, self.stop, self.step = 0, vals[0], 1
        elif len(vals) == 2:
            self.start, self.stop, self.step = vals[0], vals[1], 1
        else:
            self.start, self.stop, self.step = vals
        if is_z3(self.step) or self.step != 1:
            raise OutOfSubset("symbolic range with step != 1")

    def length(self):
        d = lift(self.stop) - lift(self.start)
        return z3.If(d > 0, d, z3.IntVal(0))

    def at(self, i):
        return lift(self.start) + i


def _no(msg):
    raise OutOfSubset(msg)


def _tobool(x):
    if isinstance(x, bool):
        return x
    if is_z3(x):
        return x
    return bool(x)


def _as_load(t):
    import copy
    t2 = copy.deepcopy(t)
    for n in ast.walk(t2):
        if hasattr(n, "ctx"):
            n.ctx = ast.Load()
    return t2
