"""Driver: enumerate paths of a real function, generate obligations, discharge, replay."""
from __future__ import annotations

import importlib
import itertools
import os
import subprocess
import sys
import tempfile
import time
import traceback
from dataclasses import dataclass, field

import z3

from . import source, types as ty
from .contract import Contract
from .engine import NS, is_z3
from .executor import Executor, _tobool
from .values import (ADict, AList, ASet, ClassRef, Opaque, OutOfSubset, PathEnd, PyRaise, ReturnSignal, SFun, SObj)

Z3_TIMEOUT_MS = int(os.environ.get("PYVC_Z3_TIMEOUT_MS", "15000"))
CVC5_TIMEOUT_S = int(os.environ.get("PYVC_CVC5_TIMEOUT_S", "30"))
MAX_PATHS = 4000


@dataclass
class OblResult:
    name: str
    kind: str
    path_id: int
    case: str
    status: str  # proved | violated | known-finding | undecided | spurious
    backend: str = ""
    ms: float = 0.0
    detail: str = ""
    model: dict | None = None
    replay: dict | None = None
    finding: str | None = None
    smt_head: str = ""
    failing: list = field(default_factory=list)  # conjuncts of the goal that are false in the counter-model


def _failing_parts(goal, model):
    """Which conjuncts of a refuted goal the counter-model falsifies (diagnosis only)."""
    out = []
    try:
        parts = goal.children() if z3.is_and(goal) else [goal]
        for p in parts:
            if z3.is_false(model.eval(p, model_completion=True)):
                out.append(str(p).replace("\n", " ")[:240])
    except Exception:
        pass
    return out[:6]


@dataclass
class FunctionReport:
    qualname: str
    file: str = ""
    lines: tuple = ()
    sha256: str = ""
    paths: int = 0
    paths_covered: int = 0
    results: list = field(default_factory=list)
    out_of_subset: str | None = None
    error: str | None = None
    assumptions: set = field(default_factory=set)
    solver_ms: float = 0.0
    wall_s: float = 0.0
    canary_ok: bool = False

    @property
    def obligations(self):
        return len(self.results)

    @property
    def proved(self):
        return sum(1 for r in self.results if r.status == "proved")

    def by_status(self, st):
        return [r for r in self.results if r.status == st]


def _pow_axioms(powf):
    a, b = z3.Ints("pa pb")
    return [
        z3.ForAll([a], powf(a, 0) == 1),
        z3.ForAll([a, b], z3.Implies(b >= 0, powf(a, b + 1) == a * powf(a, b)), patterns=[powf(a, b + 1)]),
    ]


def solve_valid(pc, goal, extra=(), want_model=True):
    """Is pc => goal valid?  -> (status, backend, ms, model|None, reason)."""
    t0 = time.time()
    s = z3.Solver()
    s.set("timeout", Z3_TIMEOUT_MS)
    for c in pc:
        s.add(c)
    for c in extra:
        s.add(c)
    s.add(z3.Not(goal))
    r = s.check()
    ms = (time.time() - t0) * 1000
    if r == z3.unsat:
        return "valid", "z3-" + z3.get_version_string(), ms, None, ""
    if r == z3.sat:
        return "invalid", "z3-" + z3.get_version_string(), ms, s.model(), ""
    reason = s.reason_unknown()
    # non-linear power: look for a counterexample among ground exponents (refutation only)
    m = _pow_refute(pc, goal)
    if m is not None:
        return "invalid", "z3-pow-ground", (time.time() - t0) * 1000, m, ""
    # second opinion: cvc5 on the SMT-LIB dump
    smt = s.to_smt2()
    st, why = _cvc5(smt)
    ms = (time.time() - t0) * 1000
    if st == "unsat":
        return "valid", "cvc5", ms, None, ""
    # third: z3 with another arithmetic solver / seed
    s2 = z3.Solver()
    s2.set("timeout", Z3_TIMEOUT_MS)
    s2.set("smt.arith.solver", 2)
    s2.set("smt.random_seed", 7)
    s2.from_string(smt)
    r2 = s2.check()
    ms = (time.time() - t0) * 1000
    if r2 == z3.unsat:
        return "valid", "z3-arith2", ms, None, ""
    if r2 == z3.sat:
        return "invalid", "z3-arith2", ms, s2.model(), ""
    return "unknown", "", ms, None, f"z3: {reason}; cvc5: {st} {why}"


def _pow_apps(e, acc):
    if z3.is_app(e):
        if e.decl().name() == "pow" and e.num_args() == 2:
            acc[e.get_id()] = e
        for ch in e.children():
            _pow_apps(ch, acc)
    elif z3.is_quantifier(e):
        pass


def _pow_refute(pc, goal):
    """Ground instances pow(x, k), k = 0..40, expanded as products; any model found is replayed."""
    acc = {}
    for c in list(pc) + [goal]:
        _pow_apps(c, acc)
    if not acc:
        return None
    for k in (2, 3, 31, 32, 1, 0, 5, 16, 33, 40):
        s = z3.Solver()
        s.set("timeout", 4000)
        for c in pc:
            s.add(c)
        s.add(z3.Not(goal))
        for app in acc.values():
            x, y = app.arg(0), app.arg(1)
            prod = z3.IntVal(1)
            for _ in range(k):
                prod = prod * x
            s.add(y == k, app == prod)
        if s.check() == z3.sat:
            return s.model()
    return None


def _cvc5(smt: str):
    exe = "/usr/bin/cvc5"
    if not os.path.exists(exe):
        return "unavailable", ""
    with tempfile.NamedTemporaryFile("w", suffix=".smt2", delete=False) as f:
        f.write("(set-logic ALL)\n" + smt)
        path = f.name
    try:
        p = subprocess.run([exe, "--strings-exp", f"--tlimit={CVC5_TIMEOUT_S * 1000}", path],
                           capture_output=True, text=True, timeout=CVC5_TIMEOUT_S + 5)
        out = p.stdout.strip().splitlines()
        return (out[0] if out else "error"), p.stderr.strip()[:200]
    except subprocess.TimeoutExpired:
        return "timeout", ""
    finally:
        os.unlink(path)


# ---------------------------------------------------------------------------- model decoding
def _val(model, term):
    v = model.eval(term, model_completion=True)
    if z3.is_int_value(v):
        return v.as_long()
    if z3.is_true(v):
        return True
    if z3.is_false(v):
        return False
    if z3.is_string_value(v):
        return v.as_string()
    if z3.is_rational_value(v):
        return float(v.numerator_as_long()) / float(v.denominator_as_long())
    return str(v)


def decode_inputs(model, inputs):
    out = {}
    for name, (c, t) in inputs.items():
        if is_z3(c):
            out[name] = _val(model, c)
        elif isinstance(c, AList):
            n = _val(model, c.length)
            n = n if isinstance(n, int) else 0
            out[name] = [_val(model, c.sym_at(i)) for i in range(min(max(n, 0), 64))]
        elif isinstance(c, SObj):
            out[name] = {"class": list(c._cls_set)}
        elif isinstance(c, SFun):
            out[name] = "<function>"
    return out


class ModelFun:
    """Python callable backed by the model's interpretation of an uninterpreted function."""

    def __init__(self, model, sfun):
        self.model, self.f = model, sfun
        self.calls = []

    def __call__(self, *args):
        zargs = []
        for a, s in zip(args, self.f.arg_sorts):
            if s == z3.StringSort():
                zargs.append(z3.StringVal(a))
            elif s == z3.IntSort():
                zargs.append(z3.IntVal(a))
            elif s == z3.BoolSort():
                zargs.append(z3.BoolVal(a))
            else:
                raise TypeError("sort")
        self.calls.append(args)
        if self.f.none_fn is not None and _val(self.model, self.f.none_fn(*zargs)) is True:
            return None
        return _val(self.model, self.f.val_fn(*zargs))


BUILD_OBJ_HOOK = None


def build_value(model, v, t=None):
    """Symbolic input value -> concrete Python value for calling the real function."""
    if v is None or isinstance(v, (bool, int, str, float)):
        return v
    if is_z3(v):
        return _val(model, v)
    if isinstance(v, tuple):
        return tuple(build_value(model, x) for x in v)
    if isinstance(v, list):
        return [build_value(model, x) for x in v]
    if isinstance(v, dict):
        return {k: build_value(model, x) for k, x in v.items()}
    if isinstance(v, AList):
        n = _val(model, v.length)
        return [_val(model, v.sym_at(i)) for i in range(max(0, min(n, 10_000)))]
    if isinstance(v, SFun):
        return ModelFun(model, v)
    if isinstance(v, ClassRef):
        ci = source.class_table()[v.name]
        return getattr(_import_repo_module(ci.module), v.name)
    if isinstance(v, SObj):
        if BUILD_OBJ_HOOK is not None:
            o = BUILD_OBJ_HOOK(model, v, lambda x: build_value(model, x))
            if o is not None:
                return o
        cname = v._cls_set[0]
        ci = source.class_table()[cname]
        mod = _import_repo_module(ci.module)
        cls = getattr(mod, cname)
        o = object.__new__(cls)
        for f, fv in v._fields.items():
            try:
                object.__setattr__(o, f, build_value(model, fv))
            except Exception:
                pass
        return o
    if isinstance(v, Opaque):
        return None
    raise ValueError(f"cannot build {type(v).__name__}")


def _import_repo_module(dotted):
    repo = str(source.REPO)
    if repo not in sys.path:
        sys.path.insert(0, repo)
    mod = importlib.import_module(dotted)
    f = getattr(mod, "__file__", "") or ""
    if not os.path.realpath(f).startswith(os.path.realpath(repo)):
        raise RuntimeError(f"{dotted} imported from {f}, not from {repo}")
    return mod


def real_function(fsrc):
    mod = _import_repo_module(fsrc.module.dotted)
    if fsrc.cls:
        return getattr(getattr(mod, fsrc.cls), fsrc.node.name), getattr(mod, fsrc.cls)
    return getattr(mod, fsrc.node.name), None


def check_real_hash(fsrc):
    import hashlib
    import inspect
    import textwrap
    fn, cls = real_function(fsrc)
    raw = fn
    if cls is not None:
        raw = cls.__dict__[fsrc.node.name]
        raw = getattr(raw, "__func__", raw)
        if isinstance(raw, property):
            raw = raw.fget
    src = inspect.getsource(raw)
    src = textwrap.dedent(src)
    mine = textwrap.dedent(" " * fsrc.node.col_offset + fsrc.segment)
    # decorators are part of inspect.getsource but not of the ast segment
    if mine.strip() not in src:
        raise RuntimeError(f"source of imported {fsrc.qualname} differs from the text the VCs came from")
    return True


# ---------------------------------------------------------------------------- main driver
def run_path(fsrc, contract, registry, decisions, path_id, case):
    ex = Executor(fsrc, contract, registry, decisions, path_id)
    SObj.CUR = ex
    outcome = None
    args = {}
    try:
        for pname, ptype in contract.params.items():
            if pname in case:
                args[pname] = case[pname]
            else:
                pfx = "" if pname in contract.pair_shared else contract.name_prefix
                args[pname] = ex.mk(ptype, pfx + pname)
                if pname in contract.dynamic_types and isinstance(args[pname], SObj):
                    args[pname]._ftypes.update(contract.dynamic_types[pname])
        a = NS(args)
        ex.args_ns = a
        for rname, rfn in contract.requires:
            ex.assume(_tobool(rfn(a)))
        if not ex.feasible(z3.BoolVal(True)):
            raise PathEnd()
        # pre-state views of the input objects (a.old.<param>.<field>)
        from .values import OldView
        a.__dict__["old"] = NS({k: OldView(v, {f: (x.copy() if isinstance(x, (AList, ADict, ASet)) else x)
                                                  for f, x in v._fields.items()})
                                for k, v in args.items() if isinstance(v, SObj)})
        from .values import Env, SClosure
        clo = SClosure(fsrc.node, Env(None, {}), fsrc)
        names = [p.arg for p in fsrc.node.args.posonlyargs + fsrc.node.args.args]
        call_args = []
        call_kwargs = {}
        for n in names:
            if n in args:
                call_args.append(args[n])
            else:
                break
        for n in args:
            if n not in names[: len(call_args)]:
                call_kwargs[n] = args[n]
        try:
            res = ex.call_closure(clo, call_args, call_kwargs)
            outcome = ("return", res)
        except PyRaise as e:
            outcome = ("raise", e.cls_name)
        if outcome[0] == "return":
            res = outcome[1]
            for ename, efn in contract.ensures:
                goal = efn(a, res)
                ex.oblige(f"ensures[{ename}]", goal, "ensures")
                ob = ex.obligations[-1]
                ob.alts = []
                for fid, cfn in contract.known.get(ename, []):
                    ob.alts.append((fid, z3.Or(ob.goal, _z(cfn(a, res)))))
        else:
            en = outcome[1]
            allowed = [k for k in contract.raises if k == en]
            if allowed:
                cond = contract.raises[en]
                ex.oblige(f"raises[{en}]", cond(a) if cond is not None else True, "raises")
            else:
                ex.oblige(f"no-raise[{en}]", False, "raises", note="exception not permitted by the contract")
    except PathEnd:
        pass
    return ex, outcome, args


def _z(x):
    if is_z3(x):
        return x
    return z3.BoolVal(bool(x))


def _collect_paths(fsrc, contract, registry, prefix):
    import copy
    c = copy.copy(contract)
    c.name_prefix = prefix
    c.ensures = []
    outs = []
    work = [[]]
    n = 0
    while work:
        decisions = work.pop()
        n += 1
        if n > MAX_PATHS:
            raise OutOfSubset("path limit")
        ex, outcome, args = run_path(fsrc, c, registry, decisions, n, {})
        work.extend(ex.pending)
        if outcome is not None and outcome[0] == "return":
            outs.append((ex, outcome[1], args))
    return outs


def verify_pair_lemma(contract: Contract, registry: dict) -> FunctionReport:
    """Relational lemma over two calls: for every pair of paths, pc_a & pc_b => pair_ensures."""
    t0 = time.time()
    rep = FunctionReport(contract.qualname)
    try:
        fsrc = source.get_function(contract.qualname)
        rep.file, rep.lines, rep.sha256 = fsrc.file, fsrc.lines, fsrc.sha256
        A = _collect_paths(fsrc, contract, registry, "a:")
        Bp = _collect_paths(fsrc, contract, registry, "b:")
        rep.paths = len(A) + len(Bp)
        rep.paths_covered = rep.paths
        rep.canary_ok = bool(A) and bool(Bp)
        pid = 0
        for exa, ra, aa in A:
            for exb, rb, ab in Bp:
                pid += 1
                ex = Executor(fsrc, contract, registry, [], pid)
                SObj.CUR = ex
                for cnd in exa.pc + exb.pc:
                    ex.assume(cnd)
                rep.assumptions |= exa.assumptions_used | exb.assumptions_used
                for ename, efn in contract.pair_ensures:
                    try:
                        goal = efn(NS(aa), ra, NS(ab), rb)
                    except PathEnd:
                        continue
                    if goal is True:
                        continue
                    goal = _z(goal)
                    st, backend, ms, model, why = solve_valid(ex.pc, goal)
                    rep.solver_ms += ms
                    r = OblResult(f"lemma[{ename}]", "lemma", pid, "", "undecided", backend, ms,
                                  smt_head=f"[{len(ex.pc)} path facts: {ex.pc}] |- {str(goal)[:1500]}")
                    if st == "valid":
                        r.status = "proved"
                    elif st == "unknown":
                        r.detail = why
                    else:
                        inputs = dict(exa.inputs)
                        inputs.update(exb.inputs)
                        r.model = decode_inputs(model, inputs)
                        r.status = "violated-noinput"
                        r.detail = "a: " + ";".join(exa.shape) + " | b: " + ";".join(exb.shape)
                        if contract.replay is not None:
                            r.replay = contract.replay(fsrc, contract, (exa, aa, ra), (exb, ab, rb), model)
                            if r.replay.get("confirmed"):
                                r.status = "violated"
                    rep.results.append(r)
    except OutOfSubset as e:
        rep.out_of_subset = str(e)
    except AttributeError as e:
        rep.out_of_subset = f"contract drift: {e}"
    except Exception as e:
        rep.error = f"{type(e).__name__}: {e}\n{traceback.format_exc()[-1500:]}"
    rep.wall_s = time.time() - t0
    return rep


def verify_function(contract: Contract, registry: dict, known_ids=frozenset(), replay=True) -> FunctionReport:
    if contract.pair_ensures:
        return verify_pair_lemma(contract, registry)
    t0 = time.time()
    rep = FunctionReport(contract.qualname)
    try:
        fsrc = source.get_function(contract.qualname)
    except Exception as e:  # function vanished / renamed: contract drift
        rep.out_of_subset = f"contract drift: {e}"
        rep.wall_s = time.time() - t0
        return rep
    rep.file, rep.lines, rep.sha256 = fsrc.file, fsrc.lines, fsrc.sha256
    cases = [dict()]
    if contract.case_split:
        keys = list(contract.case_split)
        cases = [dict(zip(keys, vals)) for vals in itertools.product(*[contract.case_split[k] for k in keys])]
    path_id = 0
    covered = 0
    try:
        for case in cases:
            case_label = ",".join(f"{k}={v!r}" for k, v in case.items())
            work = [[]]
            while work:
                decisions = work.pop()
                path_id += 1
                if path_id > (contract.max_paths or MAX_PATHS):
                    raise OutOfSubset("path limit")
                ex, outcome, args = run_path(fsrc, contract, registry, decisions, path_id, case)
                work.extend(ex.pending)
                rep.assumptions |= ex.assumptions_used
                extra = _pow_axioms(ex.powf) if ex.pow_used else []
                if outcome is not None:
                    covered += 1
                for ob in ex.obligations:
                    st, backend, ms, model, why = solve_valid(ob.pc, ob.goal, extra)
                    rep.solver_ms += ms
                    r = OblResult(ob.name, ob.kind, ob.path_id, case_label, "undecided", backend, ms,
                                  smt_head=_head(ob))
                    if st == "valid":
                        r.status = "proved"
                    elif st == "unknown":
                        r.detail = why
                    else:
                        r.model = decode_inputs(model, ex.inputs)
                        r.model.update({k: v for k, v in case.items()})
                        r.failing = _failing_parts(ob.goal, model)
                        # known finding? re-pose with the class predicate
                        hit = None
                        for fid, alt in getattr(ob, "alts", []):
                            if fid in known_ids:
                                st2, b2, ms2, _, _ = solve_valid(ob.pc, alt, extra)
                                rep.solver_ms += ms2
                                if st2 == "valid":
                                    hit = fid
                                    break
                        if hit:
                            r.status, r.finding = "known-finding", hit
                        elif (contract.no_replay or any(("@" in nm or "[]" in nm) for nm in ex.inputs)) and contract.replay is None and contract.build_args is None:
                            # ghost-based contract (denotations, IR links): no concrete input exists to replay;
                            # the obligation held on the committed tree and fails now
                            r.status = "violated-noinput"
                            r.replay = {"note": "contract is stated over ghost state / over-approximated object maps; counter-model attached, not replayable"}
                        elif ob.kind in ("ensures", "raises") and replay:
                            r.replay = _replay(fsrc, contract, ex, args, model, ob, case)
                            if r.replay.get("confirmed"):
                                r.status = "violated"
                            elif r.replay.get("inconclusive"):
                                r.status = "violated-noinput"
                            else:
                                r.status = "spurious"
                                r.detail = "counter-model does not replay on the real function"
                        else:
                            # loop / call-site obligation: the model is a loop-head or call state; its
                            # function-input part is still tried on the real function against every ensures
                            r.status = "violated-noinput"
                            if replay:
                                r.replay = _replay(fsrc, contract, ex, args, model, None, case)
                                if r.replay.get("confirmed"):
                                    r.status = "violated"
                        r.detail = r.detail or ";".join(ex.shape)
                    rep.results.append(r)
            rep.paths = path_id
        rep.paths_covered = covered
        rep.canary_ok = covered > 0
    except OutOfSubset as e:
        rep.out_of_subset = str(e)
    except AttributeError as e:
        rep.out_of_subset = f"contract drift (a name the contract binds no longer exists): {e}"
    except Exception as e:
        rep.error = f"{type(e).__name__}: {e}\n{traceback.format_exc()[-1500:]}"
    rep.wall_s = time.time() - t0
    return rep


def _head(ob):
    g = str(ob.goal).replace("\n", " ")
    return f"[{len(ob.pc)} path facts] |- {g[:300]}"


def _replay(fsrc, contract, ex, args, model, ob, case):
    """Call the real function on the decoded counter-model; evaluate the contract's executable twin."""
    info = {"confirmed": False}
    try:
        check_real_hash(fsrc)
        global BUILD_OBJ_HOOK
        BUILD_OBJ_HOOK = contract.build_args
        if contract.replay is not None:
            return contract.replay(fsrc, contract, ex, args, model, ob, case)
        fn, cls = real_function(fsrc)
        real_args = {k: build_value(model, v) for k, v in args.items()}
        info["args"] = {k: _show(v) for k, v in real_args.items()}
        a = NS(dict(real_args))
        for rname, rfn in contract.requires:
            if not rfn(a):
                info["spurious"] = f"model violates requires[{rname}]"
                return info
        # pre-state for the executable twin of clauses that mention a.old.<param>.<field>
        import copy
        try:
            a.__dict__["old"] = NS({k: copy.deepcopy(v) for k, v in real_args.items()})
        except Exception:
            a.__dict__["old"] = NS(dict(real_args))
        names = list(real_args)
        call_args = dict(real_args)
        recv = None
        if fsrc.cls and not fsrc.is_static:
            first = names[0]
            recv = call_args.pop(first)
            if fsrc.is_classmethod:
                recv = cls
        try:
            if fsrc.cls and fsrc.is_static:
                res = fn(**call_args)
            elif fsrc.cls and fsrc.is_classmethod:
                res = getattr(cls, fsrc.node.name)(**call_args)
            elif fsrc.cls:
                res = getattr(recv, fsrc.node.name)(**call_args)
            else:
                res = fn(**call_args)
            info["result"] = _show(res)
            if ob is None:
                bad = [n for n, efn in contract.ensures if not efn(a, res)]
                info["failed_ensures"] = bad
                info["confirmed"] = bool(bad)
                return info
            if ob.kind == "raises":
                info["spurious"] = "real function returned normally"
                return info
            ename = ob.name[len("ensures["):-1]
            efn = dict(contract.ensures)[ename]
            ok = efn(a, res)
            info["ensures_value"] = bool(ok)
            info["confirmed"] = not bool(ok)
        except Exception as e:  # real function raised
            info["raised"] = f"{type(e).__name__}: {e}"
            if isinstance(e, AttributeError) and "has no attribute" in str(e):
                # the replay object was built from the fields the counter-model mentions only; the real function
                # touched another one: the replay says nothing, the refuted obligation stands
                info["inconclusive"] = f"replay object incomplete: {e}"
            elif ob is None:
                en = type(e).__name__
                if en not in contract.raises:
                    info["confirmed"] = True
                elif contract.raises[en] is not None:
                    info["confirmed"] = not bool(contract.raises[en](a))
            elif ob.kind == "raises":
                en = type(e).__name__
                if ob.name.startswith("no-raise") and ob.name == f"no-raise[{en}]":
                    info["confirmed"] = True
                elif en in contract.raises and contract.raises[en] is not None:
                    info["confirmed"] = not bool(contract.raises[en](a))
            else:
                info["spurious"] = "real function raised"
    except Exception as e:
        info["inconclusive"] = f"{type(e).__name__}: {e}"
    return info


def _show(v):
    if isinstance(v, (int, str, bool, float)) or v is None:
        return v
    if isinstance(v, type):
        return f"<class {v.__name__}>"
    if isinstance(v, (list, tuple)):
        return [_show(x) for x in v[:40]]
    if isinstance(v, ModelFun):
        return "<model function>"
    d = getattr(v, "__dict__", None)
    if d is not None:
        return {"class": type(v).__name__, **{k: _show(x) for k, x in list(d.items())[:12]}}
    return repr(v)[:200]
