"""Sort hints for symbolic inputs (used by contracts and by the repo class table)."""
from __future__ import annotations

from dataclasses import dataclass, field


class T:
    pass


@dataclass(frozen=True)
class TInt(T):
    pass


@dataclass(frozen=True)
class TBool(T):
    pass


@dataclass(frozen=True)
class TStr(T):
    pass


@dataclass(frozen=True)
class TReal(T):
    pass


@dataclass(frozen=True)
class TNone(T):
    pass


@dataclass(frozen=True)
class TOpaque(T):
    """A value the function may only pass around (never inspect)."""

    label: str = "opaque"


@dataclass(frozen=True)
class TObj(T):
    """Instance of a repo class (or any concrete subclass of it)."""

    cls: str
    only: tuple = ()  # optional restriction of the concrete classes considered
    ftypes: tuple = ()  # optional ((field, T), ...) sorts of this object's fields


@dataclass(frozen=True)
class TOpt(T):
    inner: T


@dataclass(frozen=True)
class TUnion(T):
    alts: tuple


@dataclass(frozen=True)
class TList(T):
    """Unbounded list of scalars: (length, Array Int elem)."""

    elem: T


@dataclass(frozen=True)
class TTuple(T):
    elems: tuple


@dataclass(frozen=True)
class TDict(T):
    key: T
    val: T


@dataclass(frozen=True)
class TSet(T):
    elem: T


@dataclass(frozen=True)
class TRecord(T):
    """A dict with a fixed set of string keys and symbolic values (e.g. a properties dict)."""

    fields: tuple  # ((key, T), ...)


@dataclass(frozen=True)
class TObjMap(T):
    """dict[scalar, object]: every lookup yields an unconstrained optional object of the given class
    (over-approximation: two lookups of one key are not related)."""

    key: T
    val: T


@dataclass(frozen=True)
class TUnionMap(T):
    """dict[scalar, int | object]: presence, int-ness and the int value are arrays (exact); an object value is
    an unconstrained object of the given class per lookup (over-approximation, as TObjMap)."""

    key: T
    obj: T


@dataclass(frozen=True)
class TFun(T):
    """Uninterpreted pure callable: args sorts -> result type (result may be TOpt of scalar)."""

    args: tuple
    ret: T
    name: str = ""


@dataclass(frozen=True)
class TConcrete(T):
    """A fixed concrete Python value."""

    value: object = None


Int, Bool, Str, Real, NoneT = TInt(), TBool(), TStr(), TReal(), TNone()
