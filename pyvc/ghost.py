"""Spec-side helpers that work both on symbolic objects (during VC generation) and on real
repo objects (during replay)."""
from __future__ import annotations

from .values import ClassRef, SObj


def isa(o, *clsnames) -> bool:
    """isinstance by repo class name.  Symbolic objects: decided/narrowed by the executor."""
    if isinstance(o, SObj):
        return SObj.CUR.isinstance_(o, tuple(ClassRef(c) for c in clsnames))
    names = {c.__name__ for c in type(o).__mro__}
    return any(c in names for c in clsnames)


def ghost(o, name, t, concrete=None):
    """Ghost attribute of an object: a fresh symbolic value per object, created on first use.

    Equivalent to an uninterpreted function applied to the object's identity (objects reachable from
    distinct access paths are assumed distinct — listed as an assumption).  On real objects
    `concrete(o)` supplies the value.
    """
    if isinstance(o, SObj):
        key = "@" + name
        if key not in o._fields:
            o._fields[key] = SObj.CUR.mk(t, f"{o._nm}@{name}")
        return o._fields[key]
    if concrete is None:
        raise ValueError(f"ghost {name} has no concrete interpretation")
    return concrete(o)
