"""Reading the real source: functions by qualname, class table, hashes.

Everything is re-read from the repository's working tree on every run (REPO, default /repo).
"""
from __future__ import annotations

import ast
import hashlib
import os
from dataclasses import dataclass, field
from pathlib import Path

from . import types as ty

REPO = Path(os.environ.get("FACTO_REPO", "/repo"))


@dataclass
class FuncSrc:
    qualname: str  # "path/to/file.py::Class.method" or "path/to/file.py::func"
    file: str
    node: ast.FunctionDef
    cls: str | None
    lines: tuple
    sha256: str
    segment: str
    module: "ModuleSrc" = None

    @property
    def is_static(self):
        return any(isinstance(d, ast.Name) and d.id == "staticmethod" for d in self.node.decorator_list)

    @property
    def is_classmethod(self):
        return any(isinstance(d, ast.Name) and d.id == "classmethod" for d in self.node.decorator_list)

    @property
    def is_property(self):
        return any(isinstance(d, ast.Name) and d.id == "property" for d in self.node.decorator_list)


@dataclass
class ClassInfo:
    name: str
    module: str  # dotted
    file: str
    bases: list
    node: ast.ClassDef
    fields: dict = field(default_factory=dict)  # attr -> annotation AST (or None)
    methods: dict = field(default_factory=dict)  # name -> FunctionDef
    is_dataclass: bool = False
    class_attrs: dict = field(default_factory=dict)  # name -> ast value


@dataclass
class ModuleSrc:
    file: str
    dotted: str
    tree: ast.Module
    text: str
    functions: dict = field(default_factory=dict)
    classes: dict = field(default_factory=dict)
    globals_ast: dict = field(default_factory=dict)  # NAME -> ast value expression
    imports: dict = field(default_factory=dict)  # local name -> (module dotted, original name)


_MODULES: dict[str, ModuleSrc] = {}
_CLASS_TABLE: dict[str, ClassInfo] | None = None


def reset():
    global _CLASS_TABLE
    _MODULES.clear()
    _CLASS_TABLE = None


def _dotted(rel: str) -> str:
    return rel[:-3].replace("/", ".")


def load_module(rel: str) -> ModuleSrc:
    if rel in _MODULES:
        return _MODULES[rel]
    path = REPO / rel
    text = path.read_text()
    tree = ast.parse(text)
    m = ModuleSrc(rel, _dotted(rel), tree, text)
    pkg = m.dotted.rsplit(".", 1)[0]
    for node in tree.body:
        if isinstance(node, ast.FunctionDef):
            m.functions[node.name] = node
        elif isinstance(node, ast.ClassDef):
            m.classes[node.name] = node
        elif isinstance(node, ast.Assign) and len(node.targets) == 1 and isinstance(node.targets[0], ast.Name):
            m.globals_ast[node.targets[0].id] = node.value
        elif isinstance(node, ast.AnnAssign) and isinstance(node.target, ast.Name) and node.value is not None:
            m.globals_ast[node.target.id] = node.value
        elif isinstance(node, ast.ImportFrom):
            mod = node.module or ""
            if node.level:
                base = m.dotted.split(".")[: -node.level]
                mod = ".".join(base + ([mod] if mod else []))
            for a in node.names:
                m.imports[a.asname or a.name] = (mod, a.name)
    _MODULES[rel] = m
    return m


def get_function(qualname: str) -> FuncSrc:
    rel, q = qualname.split("::")
    m = load_module(rel)
    parts = q.split(".")
    cls = None
    if len(parts) == 1:
        node = m.functions.get(parts[0])
    else:
        cls = parts[0]
        cnode = m.classes.get(cls)
        node = None
        if cnode is not None:
            for n in cnode.body:
                if isinstance(n, ast.FunctionDef) and n.name == parts[1]:
                    node = n
    if node is None:
        raise KeyError(f"function not found in working tree: {qualname}")
    seg = ast.get_source_segment(m.text, node)
    return FuncSrc(qualname, rel, node, cls, (node.lineno, node.end_lineno),
                   hashlib.sha256(seg.encode()).hexdigest(), seg, m)


def iter_source_files():
    root = REPO / "dsl_compiler"
    for p in sorted(root.rglob("*.py")):
        rel = str(p.relative_to(REPO))
        if "/tests/" in rel or "integration_tests" in rel or p.name.startswith("test_"):
            continue
        yield rel


def class_table() -> dict[str, ClassInfo]:
    """All classes of the compiler, read from the working tree."""
    global _CLASS_TABLE
    if _CLASS_TABLE is not None:
        return _CLASS_TABLE
    table: dict[str, ClassInfo] = {}
    for rel in iter_source_files():
        m = load_module(rel)
        for name, cnode in m.classes.items():
            bases = []
            for b in cnode.bases:
                if isinstance(b, ast.Name):
                    bases.append(b.id)
                elif isinstance(b, ast.Attribute):
                    bases.append(b.attr)
            ci = ClassInfo(name, m.dotted, rel, bases, cnode)
            ci.is_dataclass = any(
                (isinstance(d, ast.Name) and d.id == "dataclass")
                or (isinstance(d, ast.Call) and isinstance(d.func, ast.Name) and d.func.id == "dataclass")
                for d in cnode.decorator_list
            )
            for n in cnode.body:
                if isinstance(n, ast.FunctionDef):
                    ci.methods[n.name] = n
                elif isinstance(n, ast.AnnAssign) and isinstance(n.target, ast.Name):
                    ci.fields[n.target.id] = n.annotation
                    if n.value is not None:
                        ci.class_attrs[n.target.id] = n.value
                elif isinstance(n, ast.Assign) and len(n.targets) == 1 and isinstance(n.targets[0], ast.Name):
                    ci.class_attrs[n.targets[0].id] = n.value
            init = ci.methods.get("__init__")
            if init is not None:
                ann = {a.arg: a.annotation for a in init.args.args + init.args.kwonlyargs}
                for st in ast.walk(init):
                    tgt = None
                    if isinstance(st, ast.Assign) and len(st.targets) == 1:
                        tgt, val, an = st.targets[0], st.value, None
                    elif isinstance(st, ast.AnnAssign):
                        tgt, val, an = st.target, st.value, st.annotation
                    if (tgt is not None and isinstance(tgt, ast.Attribute)
                            and isinstance(tgt.value, ast.Name) and tgt.value.id == "self"):
                        if an is None and isinstance(val, ast.Name) and val.id in ann:
                            an = ann[val.id]
                        ci.fields.setdefault(tgt.attr, an)
            if name not in table:
                table[name] = ci
    _CLASS_TABLE = table
    return table


def all_fields(cls: str) -> dict:
    """Fields of a class including inherited ones (annotation ASTs)."""
    tab = class_table()
    out = {}
    seen = set()

    def rec(c):
        if c in seen or c not in tab:
            return
        seen.add(c)
        for b in tab[c].bases:
            rec(b)
        out.update(tab[c].fields)

    rec(cls)
    return out


def subclasses(cls: str) -> list[str]:
    """Concrete (leaf or not) classes that are `cls` or derive from it, in name order."""
    tab = class_table()
    res = []
    for name in sorted(tab):
        if is_subclass(name, cls):
            res.append(name)
    return res


def is_subclass(name: str, base: str) -> bool:
    tab = class_table()
    if name == base:
        return True
    seen = set()
    stack = [name]
    while stack:
        c = stack.pop()
        if c in seen or c not in tab:
            continue
        seen.add(c)
        for b in tab[c].bases:
            if b == base:
                return True
            stack.append(b)
    return False


def find_method(cls: str, name: str):
    """(defining class, FunctionDef) following the MRO approximately (depth-first bases)."""
    tab = class_table()
    seen = set()

    def rec(c):
        if c in seen or c not in tab:
            return None
        seen.add(c)
        if name in tab[c].methods:
            return c, tab[c].methods[name]
        for b in tab[c].bases:
            r = rec(b)
            if r:
                return r
        return None

    return rec(cls)


_ALIASES = {}


def ann_to_type(an, module: ModuleSrc | None = None) -> ty.T:
    """Annotation AST -> sort hint.  Unknown things become opaque (never an assumption)."""
    if an is None:
        return ty.TOpaque("unannotated")
    if isinstance(an, ast.Constant):
        if an.value is None:
            return ty.NoneT
        if isinstance(an.value, str):
            try:
                return ann_to_type(ast.parse(an.value, mode="eval").body, module)
            except SyntaxError:
                return ty.TOpaque(an.value)
    if isinstance(an, ast.Name):
        n = an.id
        if n == "int":
            return ty.Int
        if n == "bool":
            return ty.Bool
        if n == "str":
            return ty.Str
        if n == "float":
            return ty.Real
        if n == "None":
            return ty.NoneT
        if n == "ValueRef":
            return ty.TUnion((ty.TObj("SignalRef"), ty.TObj("BundleRef"), ty.Int))
        if n in class_table():
            return ty.TObj(n)
        return ty.TOpaque(n)
    if isinstance(an, ast.BinOp) and isinstance(an.op, ast.BitOr):
        alts = []

        def flat(x):
            if isinstance(x, ast.BinOp) and isinstance(x.op, ast.BitOr):
                flat(x.left)
                flat(x.right)
            else:
                alts.append(ann_to_type(x, module))

        flat(an)
        non_none = [a for a in alts if a != ty.NoneT]
        inner = non_none[0] if len(non_none) == 1 else ty.TUnion(tuple(non_none))
        if len(non_none) != len(alts):
            return ty.TOpt(inner)
        return inner
    if isinstance(an, ast.Subscript):
        base = an.value.id if isinstance(an.value, ast.Name) else getattr(an.value, "attr", "")
        if base in ("list", "List"):
            return ty.TList(ann_to_type(an.slice, module))
        if base in ("Optional",):
            return ty.TOpt(ann_to_type(an.slice, module))
        if base in ("dict", "Dict") and isinstance(an.slice, ast.Tuple):
            return ty.TDict(ann_to_type(an.slice.elts[0], module), ann_to_type(an.slice.elts[1], module))
        if base in ("set", "Set", "frozenset"):
            return ty.TSet(ann_to_type(an.slice, module))
        if base in ("tuple", "Tuple") and isinstance(an.slice, ast.Tuple):
            return ty.TTuple(tuple(ann_to_type(e, module) for e in an.slice.elts))
    return ty.TOpaque(ast.dump(an)[:40])
