"""Symbolic value kinds used by the executor (besides plain Python values and z3 scalars)."""
from __future__ import annotations

import itertools

import z3

_counter = itertools.count()


def fresh_name(base: str) -> str:
    return f"{base}!{next(_counter)}"


class OutOfSubset(Exception):
    """The function uses Python the encoder does not model -> UNDECIDED, never a violation."""


class PyRaise(Exception):
    """A modelled Python exception raised by the code under verification."""

    def __init__(self, cls_name: str, msg=None):
        super().__init__(cls_name)
        self.cls_name = cls_name
        self.msg = msg


class PathEnd(Exception):
    """Current path ends here (infeasible, or loop-body path after its obligations)."""


class ReturnSignal(Exception):
    def __init__(self, value):
        self.value = value


class BreakSignal(Exception):
    pass


class ContinueSignal(Exception):
    pass


class Opaque:
    """Unmodelled value: may be stored / passed, never inspected."""

    def __init__(self, label="opaque"):
        self.label = label

    def __repr__(self):
        return f"<opaque {self.label}>"


class SObj:
    """Heap object with lazily created symbolic fields.  Identity = Python identity.

    Internals are underscore-prefixed so that spec lambdas can write `obj.field` for any field of
    the modelled repo class (resolved through the current executor).
    """

    CUR = None  # current executor (set by engine)

    def __init__(self, cls_set, name, fields=None, lazy=True, field_types=None):
        self.__dict__["_cls_set"] = tuple(cls_set)  # candidate concrete classes
        self.__dict__["_nm"] = name
        self.__dict__["_fields"] = dict(fields or {})
        self.__dict__["_lazy"] = lazy  # may create unknown fields on demand (input object)
        self.__dict__["_ftypes"] = dict(field_types or {})  # overrides from the contract
        self.__dict__["_written"] = set()  # fields assigned by the code under verification

    @property
    def _cls(self):
        return self._cls_set[0] if len(self._cls_set) == 1 else None

    def __getattr__(self, attr):
        if attr.startswith("__"):
            raise AttributeError(attr)
        return SObj.CUR.get_attr(self, attr)

    def __setattr__(self, attr, value):
        if attr in ("_cls_set", "_nm", "_fields", "_lazy", "_ftypes", "_written"):
            self.__dict__[attr] = value
        else:
            self._fields[attr] = value
            self._written.add(attr)

    def __repr__(self):
        return f"<{'|'.join(self._cls_set)} {self._nm}>"


class OldView:
    """Pre-state view of an input object: fields as they were when the function was entered."""

    def __init__(self, obj, snap):
        self.__dict__["_obj"] = obj
        self.__dict__["_snap"] = snap

    def __getattr__(self, attr):
        v = self._old_value(attr)
        # pre-state views are deep: a.old.self.parent.names is the entry value of the NESTED object's field
        return OldView(v, {}) if isinstance(v, SObj) else v

    def _old_value(self, attr):
        if attr in self._snap:
            return self._snap[attr]
        entry = self._obj.__dict__.get("_entry", {})
        if attr not in entry and attr not in self._obj._fields and attr not in self._obj._written:
            getattr(self._obj, attr)  # first touch: materialise the input field (and its entry snapshot)
            entry = self._obj.__dict__.get("_entry", {})
        if attr in entry:
            return entry[attr]
        if attr not in self._obj._written:
            return getattr(self._obj, attr)  # never assigned: still the entry value
        raise AttributeError(f"old value of {attr} was not captured (mention it in a requires clause)")


class AList:
    """Unbounded list of scalars: length term + z3 array."""

    def __init__(self, length, arr, elem_sort):
        self.length = length
        self.arr = arr
        self.elem_sort = elem_sort

    def sym_len(self):
        return self.length

    def sym_at(self, i):
        return z3.Select(self.arr, i if isinstance(i, z3.ExprRef) else z3.IntVal(i))

    def copy(self):
        return AList(self.length, self.arr, self.elem_sort)

    def __repr__(self):
        return f"<alist len={self.length}>"


class ADict:
    """Map with scalar keys: presence array + value array (values scalar)."""

    def __init__(self, present, vals, key_sort, val_sort):
        self.present = present
        self.vals = vals
        self.key_sort = key_sort
        self.val_sort = val_sort

    def copy(self):
        return ADict(self.present, self.vals, self.key_sort, self.val_sort)


class ASet:
    def __init__(self, member, key_sort):
        self.member = member
        self.key_sort = key_sort

    def copy(self):
        return ASet(self.member, self.key_sort)


class DSet(list):
    """A Python set built from symbolic elements: the elements kept are pairwise DISTINCT on the current path (the
    executor branched on every equality while building it), so len / iteration / membership are exact.  Everything else
    on it is out of subset."""


class FStr:
    """An f-string with symbolic parts, modelled as a tuple: (literal skeleton, components).

    Assumption (listed): two f-strings are equal iff their skeletons are equal and their components are
    pairwise equal, i.e. separators never occur inside a component and str(int) is injective.
    """

    def __init__(self, skeleton, comps):
        self.skeleton = tuple(skeleton)
        self.comps = list(comps)

    def __repr__(self):
        return f"<fstr {self.skeleton}>"


class OMap:
    """Symbolic dict with object values (see types.TObjMap)."""

    def __init__(self, name, val_type):
        self.name = name
        self.val_type = val_type
        self.lookups = []  # [(key, result)] in program order, for specifications
        self.tests = []  # [(key, Bool)] membership tests, so that d[k] after `k in d` does not raise
        self.all_tests = []  # the same, never cleared by a store (for specifications: what the code asked, in order)


class UMap:
    """Symbolic dict whose values are ints or objects (see types.TUnionMap)."""

    def __init__(self, name, present, isint, ival, key_sort, obj_type):
        self.name = name
        self.present = present
        self.isint = isint
        self.ival = ival
        self.key_sort = key_sort
        self.obj_type = obj_type


class SFun:
    """Uninterpreted pure callable (input of the function under verification)."""

    def __init__(self, name, arg_sorts, ret_type, val_fn, none_fn=None):
        self.name = name
        self.arg_sorts = arg_sorts
        self.ret_type = ret_type
        self.val_fn = val_fn
        self.none_fn = none_fn


class SClosure:
    """Nested def / lambda of the function under verification."""

    def __init__(self, node, env, fsrc):
        self.node = node
        self.env = env
        self.fsrc = fsrc


class BoundMethod:
    def __init__(self, recv, name):
        self.recv = recv
        self.name = name


class ClassRef:
    """Reference to a repo class (for isinstance / construction / classmethod calls)."""

    def __init__(self, name):
        self.name = name

    def __eq__(self, other):      # two references to one repo class are the same key (dispatch tables keyed by class)
        return isinstance(other, ClassRef) and other.name == self.name

    def __hash__(self):
        return hash(("ClassRef", self.name))

    def __repr__(self):
        return f"<class {self.name}>"


class ModRef:
    def __init__(self, name):
        self.name = name


class Env:
    """Lexical environment chain."""

    def __init__(self, parent=None, vars=None):
        self.parent = parent
        self.vars = dict(vars or {})

    def lookup(self, name):
        e = self
        while e is not None:
            if name in e.vars:
                return e.vars[name]
            e = e.parent
        raise KeyError(name)

    def has(self, name):
        e = self
        while e is not None:
            if name in e.vars:
                return True
            e = e.parent
        return False

    def set(self, name, value, nonlocal_names=()):
        if name in nonlocal_names:
            e = self.parent
            while e is not None:
                if name in e.vars:
                    e.vars[name] = value
                    return
                e = e.parent
        self.vars[name] = value
