"""pyvc executor: forward symbolic execution of a real repo function (ast -> z3).

One `Exec` instance executes ONE path, steered by a decision vector; the driver (verify.py)
re-executes with extended vectors until all feasible paths are covered (DFS by re-execution).
Loops with a LoopSpec are cut at the head (establish / havoc+assume / preserve), so the number
of paths is finite and the result holds for all iteration counts.
"""
from __future__ import annotations

import ast
import operator

import z3

from spec import ops
from . import source, types as ty
from .values import (ADict, AList, ASet, BoundMethod, BreakSignal, ClassRef, ContinueSignal, Env, FStr,
                     ModRef, OMap, Opaque, OutOfSubset, PathEnd, PyRaise, ReturnSignal, SClosure, SFun,
                     SObj, UMap, fresh_name)

FEAS_TIMEOUT_MS = 3000


def is_z3(v):
    return isinstance(v, z3.ExprRef)


def sort_of(t: ty.T):
    if isinstance(t, ty.TTuple) and len(t.elems) == 2 and all(isinstance(e, ty.TInt) for e in t.elems):
        return _PAIR
    if isinstance(t, ty.TInt):
        return z3.IntSort()
    if isinstance(t, ty.TBool):
        return z3.BoolSort()
    if isinstance(t, ty.TStr):
        return z3.StringSort()
    if isinstance(t, ty.TReal):
        return z3.RealSort()
    raise OutOfSubset(f"no scalar sort for {t}")


_PAIR, _mk_pair, (_p_fst, _p_snd) = z3.TupleSort("IntPair", [z3.IntSort(), z3.IntSort()])


def pair_sort():
    return _PAIR


def lift(v, like=None):
    """Python scalar -> z3 term."""
    if is_z3(v):
        return v
    if isinstance(v, tuple) and len(v) == 2 and all(is_z3(x) or (isinstance(x, int) and not isinstance(x, bool)) for x in v):
        return _mk_pair(lift(v[0]), lift(v[1]))
    if isinstance(v, bool):
        return z3.BoolVal(v)
    if isinstance(v, int):
        if like is not None and is_z3(like) and z3.is_real(like):
            return z3.RealVal(v)
        return z3.IntVal(v)
    if isinstance(v, float):
        return z3.RealVal(repr(v))
    if isinstance(v, str):
        return z3.StringVal(v)
    if isinstance(v, FStr):
        # an f-string as a z3 string term: literals and string components verbatim, integer components through
        # str() (z3's int.to.str covers naturals; a sign is prefixed for negatives)
        parts, it = [], iter(v.comps)
        for piece in v.skeleton:
            if piece is not None:
                parts.append(z3.StringVal(piece))
                continue
            c = next(it)
            if isinstance(c, str):
                parts.append(z3.StringVal(c))
            elif isinstance(c, bool) or (is_z3(c) and z3.is_bool(c)):
                raise OutOfSubset("bool inside a lifted f-string")
            elif isinstance(c, int):
                parts.append(z3.StringVal(str(c)))
            elif is_z3(c) and z3.is_string(c):
                parts.append(c)
            elif is_z3(c) and z3.is_int(c):
                parts.append(z3.If(c >= 0, z3.IntToStr(c), z3.Concat(z3.StringVal("-"), z3.IntToStr(-c))))
            elif isinstance(c, FStr):
                parts.append(lift(c))
            else:
                raise OutOfSubset("f-string component that is not a scalar")
        if not parts:
            return z3.StringVal("")
        return parts[0] if len(parts) == 1 else z3.Concat(*parts)
    raise OutOfSubset(f"cannot lift {type(v).__name__}")


def as_int(v):
    """Numeric view of a value (bool -> 0/1)."""
    if is_z3(v):
        if z3.is_bool(v):
            return z3.If(v, z3.IntVal(1), z3.IntVal(0))
        if z3.is_int(v) or z3.is_real(v):
            return v
        raise OutOfSubset(f"not numeric: {v.sort()}")
    if isinstance(v, bool):
        return int(v)
    if isinstance(v, (int, float)):
        return v
    raise OutOfSubset(f"not numeric: {type(v).__name__}")


class Obligation:
    def __init__(self, name, pc, goal, kind, path_id, note=""):
        self.name = name
        self.pc = list(pc)
        self.goal = goal
        self.kind = kind  # ensures | requires-at-call | loop-establish | loop-preserve | loop-variant | raises | frame | assert
        self.path_id = path_id
        self.note = note


class NS:
    """Attribute namespace handed to contract lambdas."""

    def __init__(self, d):
        self.__dict__.update(d)

    def __getitem__(self, k):
        return self.__dict__[k]

    def _asdict(self):
        return dict(self.__dict__)


class Exec:
    def __init__(self, fsrc, contract, registry, decisions, path_id=0):
        self.fsrc = fsrc
        self.contract = contract
        self.registry = registry  # name -> Contract (callee contracts)
        self.decisions = list(decisions)
        self.dpos = 0
        self.pending = []  # alternative decision vectors discovered on this path
        self.pc = []
        self.solver = z3.Solver()
        self.solver.set("timeout", FEAS_TIMEOUT_MS)
        self.obligations = []
        self.inputs = {}  # leaf name -> (z3 const | SFun, type)
        self.shape = []  # human-readable decisions
        self.path_id = path_id
        self.loop_ordinals = {}
        self.pow_used = False
        self.powf = z3.Function("pow", z3.IntSort(), z3.IntSort(), z3.IntSort())
        self.assumptions_used = set()
        self.args_ns = None
        self.call_depth = 0
        self.trace = []
        n = 0
        for node in ast.walk(fsrc.node):
            pass
        # loop ordinals: pre-order over the function body (nested defs included)
        for node in self._preorder(fsrc.node):
            if isinstance(node, (ast.While, ast.For)):
                self.loop_ordinals[id(node)] = n
                n += 1

    @staticmethod
    def _preorder(node):
        yield node
        for ch in ast.iter_child_nodes(node):
            yield from Exec._preorder(ch)

    # ------------------------------------------------------------------ path control
    def assume(self, cond):
        if cond is True:
            return
        if cond is False:
            raise PathEnd()
        self.pc.append(cond)
        self.solver.add(cond)

    def feasible(self, cond):
        r = self.solver.check(cond)
        return r != z3.unsat

    def implied(self, cond) -> bool:
        """True iff the path condition entails cond (unknown -> False)."""
        if cond is True:
            return True
        if cond is False:
            return False
        return self.solver.check(z3.Not(cond)) == z3.unsat

    def branch(self, cond, label="") -> bool:
        if isinstance(cond, bool):
            return cond
        cond = z3.simplify(cond)
        if z3.is_true(cond):
            return True
        if z3.is_false(cond):
            return False
        if self.dpos < len(self.decisions):
            d = self.decisions[self.dpos]
        else:
            t = self.feasible(cond)
            f = self.feasible(z3.Not(cond))
            if t and f:
                d = True
                self.pending.append(self.decisions[: self.dpos] + [False])
            elif t:
                d = True
            elif f:
                d = False
            else:
                raise PathEnd()
            self.decisions.append(d)
        self.dpos += 1
        self.assume(cond if d else z3.Not(cond))
        if label:
            self.shape.append(f"{label}={'T' if d else 'F'}")
        return d

    def oblige(self, name, goal, kind, note=""):
        if goal is True:
            goal = z3.BoolVal(True)
        elif goal is False:
            goal = z3.BoolVal(False)
        elif not is_z3(goal):
            goal = z3.BoolVal(bool(goal))
        self.obligations.append(Obligation(name, self.pc, goal, kind, self.path_id, note))

    # ------------------------------------------------------------------ symbolic inputs
    def mk(self, t: ty.T, name: str, register=True):
        if isinstance(t, ty.TConcrete):
            v = t.value
            if isinstance(v, (dict, list, set)):
                return type(v)(v)  # a fresh container per path: the code under verification may mutate it
            return v
        if isinstance(t, (ty.TInt, ty.TBool, ty.TStr, ty.TReal)):
            c = z3.Const(name, sort_of(t))
            if register:
                self.inputs[name] = (c, t)
            return c
        if isinstance(t, ty.TNone):
            return None
        if isinstance(t, ty.TOpaque):
            return Opaque(f"{name}:{t.label}")
        if isinstance(t, ty.TOpt):
            flag = z3.Bool(name + "#isnone")
            if register:
                self.inputs[name + "#isnone"] = (flag, ty.Bool)
            if self.branch(flag, label=f"{name} is None"):
                return None
            return self.mk(t.inner, name, register)
        if isinstance(t, ty.TUnion):
            for i, alt in enumerate(t.alts[:-1]):
                flag = z3.Bool(f"{name}#alt{i}")
                if register:
                    self.inputs[f"{name}#alt{i}"] = (flag, ty.Bool)
                if self.branch(flag, label=f"{name}:{_tname(alt)}"):
                    return self.mk(alt, name, register)
            return self.mk(t.alts[-1], name, register)
        if isinstance(t, ty.TObj):
            cands = list(t.only) if t.only else [
                c for c in source.subclasses(t.cls)
            ]
            if not cands:
                cands = [t.cls]
            o = SObj(cands, name, lazy=True)
            o._ftypes.update(dict(t.ftypes))
            if self.contract is not None and name in getattr(self.contract, "dynamic_types", {}):
                o._ftypes.update(self.contract.dynamic_types[name])  # sorts of nested objects' fields, by access path
            self.inputs[name + "#obj"] = (o, t)
            return o
        if isinstance(t, ty.TList):
            if isinstance(t.elem, (ty.TInt, ty.TBool, ty.TStr, ty.TReal)):
                ln = z3.Int(name + "#len")
                arr = z3.Array(name + "#arr", z3.IntSort(), sort_of(t.elem))
                self.assume(ln >= 0)
                al = AList(ln, arr, sort_of(t.elem))
                if register:
                    self.inputs[name + "#list"] = (al, t)
                return al
            raise OutOfSubset(f"list of non-scalars as input: {name}")
        if isinstance(t, ty.TTuple):
            return tuple(self.mk(e, f"{name}.{i}", register) for i, e in enumerate(t.elems))
        if isinstance(t, ty.TDict):
            ks, vs = sort_of(t.key), sort_of(t.val)
            d = ADict(z3.Array(name + "#has", ks, z3.BoolSort()), z3.Array(name + "#val", ks, vs), ks, vs)
            if register:
                self.inputs[name + "#dict"] = (d, t)
            return d
        if isinstance(t, ty.TSet):
            ks = sort_of(t.elem)
            s = ASet(z3.Array(name + "#in", ks, z3.BoolSort()), ks)
            if register:
                self.inputs[name + "#set"] = (s, t)
            return s
        if isinstance(t, ty.TRecord):
            return {k: self.mk(ft, f"{name}[{k}]", register) for k, ft in t.fields}
        if isinstance(t, ty.TUnionMap):
            ks = sort_of(t.key)
            self.assumptions_used.add("object values of int-or-object dicts are unconstrained objects per lookup")
            return UMap(name, z3.Array(name + "#has", ks, z3.BoolSort()), z3.Array(name + "#isint", ks, z3.BoolSort()),
                        z3.Array(name + "#int", ks, z3.IntSort()), ks, t.obj)
        if isinstance(t, ty.TObjMap):
            self.assumptions_used.add("lookups in dict-of-objects fields are over-approximated by unconstrained objects")
            return OMap(name, t.val)
        if isinstance(t, ty.TFun):
            sorts = [sort_of(a) for a in t.args]
            ret = t.ret
            none_fn = None
            if isinstance(ret, ty.TOpt):
                none_fn = z3.Function(name + "#isnone", *sorts, z3.BoolSort())
                ret = ret.inner
            val_fn = z3.Function(name + "#val", *sorts, sort_of(ret))
            f = SFun(name, sorts, t.ret, val_fn, none_fn)
            self.inputs[name + "#fun"] = (f, t)
            return f
        raise OutOfSubset(f"cannot create symbolic {t}")

    # ------------------------------------------------------------------ attribute access
    def get_attr(self, obj, attr):
        if isinstance(obj, SObj):
            if attr in obj._fields:
                return obj._fields[attr]
            if obj._lazy and attr in obj._ftypes:
                v = self.mk(obj._ftypes[attr], f"{obj._nm}.{attr}")
                obj._fields[attr] = v
                self._snapshot_entry(obj, attr, v)
                return v
            # method / property?
            for c in obj._cls_set:
                m = source.find_method(c, attr)
                if m is not None:
                    defcls, fnode = m
                    if any(isinstance(d, ast.Name) and d.id == "property" for d in fnode.decorator_list):
                        return self.call_method_inline(obj, defcls, fnode, [], {})
                    return BoundMethod(obj, attr)
            if attr == "__class__":
                return ClassRef(obj._cls) if obj._cls else Opaque("class")
            if obj._lazy and attr in obj._ftypes:
                v = self.mk(obj._ftypes[attr], f"{obj._nm}.{attr}")
                obj._fields[attr] = v
                self._snapshot_entry(obj, attr, v)
                return v
            # class attribute constants
            for c in obj._cls_set:
                v = self._class_attr(c, attr)
                if v is not _MISSING:
                    return v
            if not obj._lazy:
                raise PyRaise("AttributeError", attr)
            t = obj._ftypes.get(attr)
            if t is None:
                anns = []
                for c in obj._cls_set:
                    f = source.all_fields(c)
                    if attr in f:
                        anns.append(source.ann_to_type(f[attr]))
                    else:
                        anns.append(None)
                if all(a is None for a in anns):
                    raise OutOfSubset(f"unknown attribute {attr} on {obj}")
                known = [a for a in anns if a is not None]
                if any(a != known[0] for a in known):
                    raise OutOfSubset(f"attribute {attr} has different sorts across {obj._cls_set}")
                if len(known) != len(anns):
                    # narrow to classes that have the attribute is not sound -> refuse
                    raise OutOfSubset(f"attribute {attr} missing on some of {obj._cls_set}")
                t = known[0]
            v = self.mk(t, f"{obj._nm}.{attr}")
            obj._fields[attr] = v
            self._snapshot_entry(obj, attr, v)
            return v
        if isinstance(obj, ClassRef):
            m = source.find_method(obj.name, attr)
            if m is not None:
                return BoundMethod(obj, attr)
            v = self._class_attr(obj.name, attr)
            if v is not _MISSING:
                return v
            if attr == "__name__":
                return obj.name
            raise OutOfSubset(f"class attribute {obj.name}.{attr}")
        if isinstance(obj, NS):
            return getattr(obj, attr)
        if isinstance(obj, _Builtin) and attr == "__name__":
            return obj.name
        if isinstance(obj, PyRaise) and attr in ("message", "args"):  # a caught, modelled exception: its text is not interpreted
            return obj.msg if isinstance(obj.msg, str) else Opaque("exception message")
        if isinstance(obj, (AList, ADict, ASet, OMap, UMap, list, dict, set, frozenset, tuple, str)) or (
            is_z3(obj) and z3.is_string(obj)
        ):
            return BoundMethod(obj, attr)
        if isinstance(obj, ModRef):
            return BoundMethod(obj, attr)
        if obj is None:
            raise PyRaise("AttributeError", f"None.{attr}")
        if isinstance(obj, Opaque):
            return BoundMethod(obj, attr)
        raise OutOfSubset(f"attribute {attr} on {type(obj).__name__}")

    def _class_attr(self, cname, attr):
        tab = source.class_table()
        seen = set()
        stack = [cname]
        while stack:
            c = stack.pop(0)
            if c in seen or c not in tab:
                continue
            seen.add(c)
            if attr in tab[c].class_attrs:
                node = tab[c].class_attrs[attr]
                try:
                    return ast.literal_eval(node)
                except Exception:
                    return self.eval_const_ast(node, source.load_module(tab[c].file))
            stack.extend(tab[c].bases)
        return _MISSING

    def eval_const_ast(self, node, module):
        """Evaluate a module-/class-level constant expression of the repo."""
        env = Env(None, {})
        saved = self.fsrc
        try:
            self.fsrc = _FakeSrc(module)
            return self.eval(node, env)
        finally:
            self.fsrc = saved

    def set_attr(self, obj, attr, value):
        if isinstance(obj, SObj):
            if attr in obj._fields and attr not in obj._written:
                # first assignment of a field whose entry value the code has seen: keep it for a.old / OldView(obj, {})
                obj.__dict__.setdefault("_entry", {}).setdefault(attr, obj._fields[attr])
            obj._fields[attr] = value
            obj._written.add(attr)
            return
        raise OutOfSubset(f"attribute store on {type(obj).__name__}")

    # ------------------------------------------------------------------ truthiness
    def truth(self, v):
        if isinstance(v, bool):
            return v
        if v is None:
            return False
        if is_z3(v):
            if z3.is_bool(v):
                return v
            if z3.is_int(v) or z3.is_real(v):
                return v != 0
            if z3.is_string(v):
                return z3.Length(v) > 0
            raise OutOfSubset("truth of term")
        if isinstance(v, (int, float, str, tuple, list, dict, set, frozenset)):
            return bool(v)
        if isinstance(v, AList):
            return v.length > 0
        if isinstance(v, OMap):
            # emptiness of a dict of objects: one unknown per map (not related to its membership tests: an over-approximation)
            if "nonempty" not in v.__dict__:
                v.__dict__["nonempty"] = z3.Bool(fresh_name(v.name + "#nonempty"))
            return v.__dict__["nonempty"]
        if isinstance(v, ADict):
            k = z3.FreshConst(v.key_sort, "k")
            return z3.Exists([k], z3.Select(v.present, k))
        if isinstance(v, ASet):
            k = z3.FreshConst(v.key_sort, "k")
            return z3.Exists([k], z3.Select(v.member, k))
        if isinstance(v, SObj):
            for c in v._cls_set:
                if source.find_method(c, "__bool__") or source.find_method(c, "__len__"):
                    raise OutOfSubset("object with __bool__/__len__")
            return True
        if isinstance(v, (SClosure, SFun, BoundMethod, ClassRef)):
            return True
        if isinstance(v, FStr):
            if any(x for x in v.skeleton if x):
                return True
            raise OutOfSubset("truth of an f-string without literal part")
        raise OutOfSubset(f"truth of {type(v).__name__}")

    # ------------------------------------------------------------------ names
    def lookup_name(self, name, env):
        if env.has(name):
            return env.lookup(name)
        return self.lookup_global(name, self.fsrc.module)

    def lookup_global(self, name, module):
        if name in module.globals_ast:
            node = module.globals_ast[name]
            try:
                return ast.literal_eval(node)
            except Exception:
                return self.eval_const_ast(node, module)
        if name in module.classes or name in source.class_table() and (
            name in module.imports or name in module.classes
        ):
            return ClassRef(name)
        if name in module.functions:
            return SClosure(module.functions[name], Env(None, {}), _FakeSrc(module))
        if name in module.imports:
            mod, orig = module.imports[name]
            rel = mod.replace(".", "/") + ".py"
            if (source.REPO / rel).exists():
                m2 = source.load_module(rel)
                return self.lookup_global(orig, m2)
            if mod in ("math",) or name in ("math",):
                return ModRef("math")
            return Opaque(f"import {mod}.{orig}")
        if name in _BUILTINS:
            return _Builtin(name)
        if name in ("math",):
            return ModRef("math")
        if name in ("copy",) and name in getattr(module, "plain_imports", ("copy",)):
            return Opaque("import copy")   # copy.deepcopy(...) is then a call by (assumed) contract: uses["opaque.deepcopy"]
        if name in source.class_table():
            return ClassRef(name)
        raise OutOfSubset(f"unresolved name {name}")

    # ------------------------------------------------------------------ expressions
    def eval(self, node, env):
        m = getattr(self, "e_" + type(node).__name__, None)
        if m is None:
            raise OutOfSubset(f"expression {type(node).__name__}")
        return m(node, env)

    def e_Constant(self, node, env):
        return node.value

    def e_Name(self, node, env):
        return self.lookup_name(node.id, env)

    def e_Attribute(self, node, env):
        return self.get_attr(self.eval(node.value, env), node.attr)

    def e_Tuple(self, node, env):
        return tuple(self._elts(node.elts, env))

    def e_List(self, node, env):
        return list(self._elts(node.elts, env))

    def e_Set(self, node, env):
        elts = self._elts(node.elts, env)
        if any(is_z3(e) for e in elts):
            return self._distinct_set(elts)
        return set(elts)

    def _elts(self, elts, env):
        out = []
        for e in elts:
            if isinstance(e, ast.Starred):
                v = self.eval(e.value, env)
                if not isinstance(v, (list, tuple)):
                    raise OutOfSubset("star of non-concrete sequence")
                out.extend(v)
            else:
                out.append(self.eval(e, env))
        return out

    def e_Dict(self, node, env):
        d = {}
        for k, v in zip(node.keys, node.values):
            if k is None:
                vv = self.eval(v, env)
                if not isinstance(vv, dict):
                    raise OutOfSubset("** of non-concrete dict")
                d.update(vv)
            else:
                kk = self.eval(k, env)
                if is_z3(kk):
                    raise OutOfSubset("dict literal with symbolic key")
                d[kk] = self.eval(v, env)
        return d

    def e_JoinedStr(self, node, env):
        parts = []
        sym = False
        for p in node.values:
            if isinstance(p, ast.Constant):
                parts.append(p.value)
            else:
                v = self.eval(p.value, env)
                if isinstance(v, (int, str, bool, float)) or v is None:
                    if p.format_spec is not None or p.conversion not in (-1, 115):
                        raise OutOfSubset("format spec")
                    parts.append(str(v))
                else:
                    sym = True
                    parts.append(v)
        if not sym:
            return "".join(parts)
        if any(isinstance(p, Opaque) for p in parts):
            return Opaque("fstring")
        self.assumptions_used.add(
            "f-strings with symbolic parts are modelled as tuples (skeleton, components): equal iff same skeleton and "
            "equal components (no separator inside a component; str(int) injective)")
        skel, comps = [], []
        for p in parts:
            if isinstance(p, str):
                skel.append(p)
            else:
                skel.append(None)
                comps.append(p)
        return FStr(skel, comps)

    def e_UnaryOp(self, node, env):
        v = self.eval(node.operand, env)
        if isinstance(node.op, ast.Not):
            t = self.truth(v)
            return (not t) if isinstance(t, bool) else z3.Not(t)
        v = as_int(v)
        if isinstance(node.op, ast.USub):
            return -v
        if isinstance(node.op, ast.UAdd):
            return v
        if isinstance(node.op, ast.Invert):
            return -v - 1
        raise OutOfSubset("unary op")

    def e_BoolOp(self, node, env):
        is_and = isinstance(node.op, ast.And)
        last = None
        for i, sub in enumerate(node.values):
            last = self.eval(sub, env)
            if i == len(node.values) - 1:
                return last
            t = self.truth(last)
            # try to stay branch-free when the remaining operands are pure scalar expressions
            if not isinstance(t, bool) and all(_pure_simple(s) for s in node.values[i + 1:]) and (
                isinstance(last, bool) or (is_z3(last) and z3.is_bool(last))
            ):
                rest = ast.BoolOp(op=node.op, values=node.values[i + 1:]) if len(node.values) - i - 1 > 1 else node.values[i + 1]
                saved = (self.dpos, len(self.decisions), len(self.pending))
                r = self.eval(rest, env)
                if isinstance(r, bool) or (is_z3(r) and z3.is_bool(r)):
                    rr = lift(r)
                    return z3.And(t, rr) if is_and else z3.Or(t, rr)
                # value-returning and/or on non-bools: fall through to branching semantics
                tt = self.branch(t)
                if is_and:
                    return r if tt else last
                return last if tt else r
            tt = self.branch(t)
            if is_and and not tt:
                return last
            if (not is_and) and tt:
                return last
        return last

    def e_IfExp(self, node, env):
        c = self.truth(self.eval(node.test, env))
        if isinstance(c, bool):
            return self.eval(node.body if c else node.orelse, env)
        if _pure_simple(node.body) and _pure_simple(node.orelse):
            a = self.eval(node.body, env)
            b = self.eval(node.orelse, env)
            if _scalar(a) and _scalar(b):
                try:
                    return ops.ite(c, a, b)
                except Exception:
                    pass
            if a is b:
                return a
            return a if self.branch(c) else b
        if self.branch(c):
            return self.eval(node.body, env)
        return self.eval(node.orelse, env)

    def e_Lambda(self, node, env):
        return SClosure(node, env, self.fsrc)

    def e_Compare(self, node, env):
        left = self.eval(node.left, env)
        res = None
        for op, rnode in zip(node.ops, node.comparators):
            right = self.eval(rnode, env)
            r = self.compare(op, left, right)
            res = r if res is None else ops.And(res, r)
            left = right
        return res

    def compare(self, op, l, r):
        if isinstance(op, (ast.Is, ast.IsNot)):
            if (isinstance(l, _Builtin) and l.unknown) or (isinstance(r, _Builtin) and r.unknown):
                raise OutOfSubset("identity test on an undetermined type()")
            if l is None or r is None:
                other = r if l is None else l
                if isinstance(other, Opaque):
                    raise OutOfSubset("identity test on opaque value")
                res = other is None
            elif isinstance(l, (SObj, ClassRef)) or isinstance(r, (SObj, ClassRef)):
                res = (l is r) or (isinstance(l, ClassRef) and isinstance(r, ClassRef) and l.name == r.name)
            elif isinstance(l, bool) or isinstance(r, bool):
                res = self.py_eq(l, r)
            else:
                raise OutOfSubset("identity comparison")
            return res if isinstance(op, ast.Is) else ops.Not(res)
        if isinstance(op, (ast.Eq, ast.NotEq)):
            res = self.py_eq(l, r)
            return res if isinstance(op, ast.Eq) else ops.Not(res)
        if isinstance(op, (ast.In, ast.NotIn)):
            res = self.contains(r, l)
            return res if isinstance(op, ast.In) else ops.Not(res)
        _SETS = (set, frozenset, type({}.keys()))
        if isinstance(l, _SETS) and isinstance(r, _SETS):
            # subset / superset tests of concrete sets (elements must be concrete to be hashable at all)
            return {ast.Lt: operator.lt, ast.LtE: operator.le, ast.Gt: operator.gt, ast.GtE: operator.ge}[type(op)](set(l), set(r))
        if isinstance(l, str) or isinstance(r, str) or (is_z3(l) and z3.is_string(l)):
            if isinstance(l, str) and isinstance(r, str):
                return {ast.Lt: operator.lt, ast.LtE: operator.le, ast.Gt: operator.gt, ast.GtE: operator.ge}[type(op)](l, r)
            raise OutOfSubset("string ordering")
        a, b = as_int(l), as_int(r)
        if isinstance(op, ast.Lt):
            return a < b
        if isinstance(op, ast.LtE):
            return a <= b
        if isinstance(op, ast.Gt):
            return a > b
        if isinstance(op, ast.GtE):
            return a >= b
        raise OutOfSubset("comparison")

    def py_eq(self, l, r):
        from .values import DSet
        if (isinstance(l, _Builtin) and l.unknown) or (isinstance(r, _Builtin) and r.unknown):
            raise OutOfSubset("comparison of an undetermined type()")
        if isinstance(l, DSet) or isinstance(r, DSet):
            raise OutOfSubset("== on a set of symbolic elements")
        if isinstance(l, SetLen) or isinstance(r, SetLen):
            sl, other = (l, r) if isinstance(l, SetLen) else (r, l)
            if not is_z3(other) and other == 0:
                k = z3.FreshConst(sl.aset.key_sort, "k")
                return z3.ForAll([k], z3.Not(z3.Select(sl.aset.member, k)))
            raise OutOfSubset("cardinality of a symbolic set other than == 0")
        if l is None or r is None:
            if isinstance(l, Opaque) or isinstance(r, Opaque):
                raise OutOfSubset("== on opaque")
            return l is None and r is None
        if isinstance(l, tuple) and isinstance(r, tuple):
            if len(l) != len(r):
                return False
            return ops.And(*[self.py_eq(a, b) for a, b in zip(l, r)]) if l else True
        if isinstance(l, (SObj,)) or isinstance(r, (SObj,)):
            if isinstance(l, SObj) and isinstance(r, SObj):
                dc = False
                for o in (l, r):
                    for c in o._cls_set:
                        if source.find_method(c, "__eq__"):
                            raise OutOfSubset("== on objects with __eq__")
                        if source.class_table().get(c, None) and source.class_table()[c].is_dataclass:
                            dc = True
                if l is r:
                    return True  # (dataclass field-wise equality of an object with itself; NaN fields not modelled)
                if dc:
                    if not (set(l._cls_set) & set(r._cls_set)):
                        return False
                    # generated field-wise __eq__ of two distinct objects: any outcome (sound over-approximation)
                    return z3.Bool(fresh_name("dataclass_eq"))
                return False
            return False
        if isinstance(l, FStr) or isinstance(r, FStr):
            if isinstance(l, FStr) and isinstance(r, FStr):
                if l.skeleton != r.skeleton or len(l.comps) != len(r.comps):
                    return False
                return ops.And(*[self.py_eq(a, b) for a, b in zip(l.comps, r.comps)]) if l.comps else True
            other = r if isinstance(l, FStr) else l
            f = l if isinstance(l, FStr) else r
            if isinstance(other, str):
                lits = [x for x in f.skeleton if x]
                if other == "" and lits:
                    return False
                if lits and not all(x in other for x in lits):
                    return False
            raise OutOfSubset("f-string compared with a plain string")
        if isinstance(l, ClassRef) and isinstance(r, ClassRef):
            return l.name == r.name
        if isinstance(l, (Opaque, AList, ADict, ASet)) or isinstance(r, (Opaque, AList, ADict, ASet)):
            raise OutOfSubset("== on container/opaque")
        if is_z3(l) or is_z3(r):
            sl = l.sort() if is_z3(l) else None
            sr = r.sort() if is_z3(r) else None
            # str vs non-str is False in Python
            l_is_str = isinstance(l, str) or (sl is not None and sl == z3.StringSort())
            r_is_str = isinstance(r, str) or (sr is not None and sr == z3.StringSort())
            if l_is_str != r_is_str:
                return False
            if l_is_str:
                return lift(l) == lift(r)
            if isinstance(l, (list, dict, set, tuple)) or isinstance(r, (list, dict, set, tuple)):
                return False
            return ops.eq(l, r)
        if isinstance(l, (list, tuple)) and isinstance(r, (list, tuple)) and type(l) is type(r):
            if len(l) != len(r):
                return False
            return ops.And(*[self.py_eq(a, b) for a, b in zip(l, r)]) if l else True
        return l == r

    def contains(self, container, item):
        if isinstance(container, (tuple, list, set, frozenset)):
            rs = [self.py_eq(item, c) for c in container]
            return ops.Or(*rs) if rs else False
        if isinstance(container, dict):
            rs = [self.py_eq(item, c) for c in container]
            return ops.Or(*rs) if rs else False
        if isinstance(container, ADict):
            return z3.Select(container.present, lift(item))
        if isinstance(container, UMap):
            return z3.Select(container.present, lift(item))
        if isinstance(container, OMap):
            b = z3.Bool(fresh_name(container.name + "#has"))
            container.tests.append((item, b))
            container.all_tests.append((item, b))
            return b
        if isinstance(container, ASet):
            return z3.Select(container.member, lift(item))
        if isinstance(container, str) and isinstance(item, str):
            return item in container
        if isinstance(container, AList):
            k = z3.FreshInt("k")
            return z3.Exists([k], z3.And(k >= 0, k < container.length, container.sym_at(k) == lift(item)))
        raise OutOfSubset(f"`in` on {type(container).__name__}")

    def e_BinOp(self, node, env):
        l = self.eval(node.left, env)
        r = self.eval(node.right, env)
        return self.binop(node.op, l, r)

    def binop(self, op, l, r):
        from .values import DSet
        if isinstance(l, DSet) or isinstance(r, DSet):
            raise OutOfSubset("operator on a set of symbolic elements")
        conc = not is_z3(l) and not is_z3(r)
        if conc and isinstance(l, (int, float, str, bool, tuple, list)) and isinstance(r, (int, float, str, bool, tuple, list)):
            try:
                return _PYOPS[type(op)](l, r)
            except ZeroDivisionError:
                raise PyRaise("ZeroDivisionError")
            except (TypeError, ValueError) as e:
                raise PyRaise(type(e).__name__)
        _KEYS = type({}.keys())
        if isinstance(l, (set, frozenset, _KEYS)) and isinstance(r, (set, frozenset, _KEYS)):
            return _PYOPS[type(op)](set(l), set(r))
        if isinstance(op, ast.Add) and (
            (is_z3(l) and z3.is_string(l)) or (is_z3(r) and z3.is_string(r))
        ):
            return z3.Concat(lift(l), lift(r))
        if isinstance(op, ast.Add) and (isinstance(l, FStr) or isinstance(r, FStr)) and isinstance(l, (FStr, str)) and isinstance(r, (FStr, str)):
            # concatenation of f-strings: skeletons and components are appended (same tuple model as a single f-string)
            def parts(x):
                return (list(x.skeleton), list(x.comps)) if isinstance(x, FStr) else ([x], [])
            (ls, lc), (rs, rc) = parts(l), parts(r)
            return FStr(ls + rs, lc + rc)
        if isinstance(op, ast.Add) and isinstance(l, list) and isinstance(r, list):
            return l + r
        if isinstance(op, (ast.BitAnd, ast.BitOr)) and all(
            isinstance(x, bool) or (is_z3(x) and z3.is_bool(x)) for x in (l, r)
        ):
            return (ops.And if isinstance(op, ast.BitAnd) else ops.Or)(l, r)
        a, b = as_int(l), as_int(r)
        if isinstance(op, ast.Add):
            return a + b
        if isinstance(op, ast.Sub):
            return a - b
        if isinstance(op, ast.Mult):
            return a * b
        real = any(is_z3(x) and z3.is_real(x) or isinstance(x, float) for x in (a, b))
        if isinstance(op, (ast.FloorDiv, ast.Mod)):
            if real:
                raise OutOfSubset("float // or %")
            if self.branch(lift(b) == 0, label="div0"):
                raise PyRaise("ZeroDivisionError")
            return ops.floordiv(a, b) if isinstance(op, ast.FloorDiv) else ops.floormod(a, b)
        if isinstance(op, ast.Div):
            if self.branch(lift(b) == 0, label="div0"):
                raise PyRaise("ZeroDivisionError")
            self.assumptions_used.add("machine floats treated as mathematical reals")
            ar = z3.ToReal(lift(a)) if not (is_z3(a) and z3.is_real(a)) else a
            br = z3.ToReal(lift(b)) if not (is_z3(b) and z3.is_real(b)) else b
            if isinstance(a, float):
                ar = z3.RealVal(repr(a))
            if isinstance(b, float):
                br = z3.RealVal(repr(b))
            return ar / br
        if real:
            raise OutOfSubset("float operator")
        if isinstance(op, ast.Pow):
            if not is_z3(b) and isinstance(b, int) and 0 <= b <= 8:
                res = z3.IntVal(1)
                for _ in range(b):
                    res = res * a
                return res
            if self.branch(lift(b) < 0, label="negexp"):
                raise OutOfSubset("negative exponent (float result)")
            self.pow_used = True
            return self.powf(lift(a), lift(b))
        if isinstance(op, (ast.LShift, ast.RShift)):
            if self.branch(lift(b) < 0, label="negshift"):
                raise PyRaise("ValueError")
            if not is_z3(b):
                return a * (1 << b) if isinstance(op, ast.LShift) else ops.floordiv(a, 1 << b)
            if not self.implied(b <= 63):
                raise OutOfSubset("shift amount not bounded by the path condition")
            res = a * (1 << 63) if isinstance(op, ast.LShift) else ops.floordiv(a, 1 << 63)
            for k in range(62, -1, -1):
                res = z3.If(b == k, a * (1 << k) if isinstance(op, ast.LShift) else ops.floordiv(a, 1 << k), res)
            return res
        if isinstance(op, (ast.BitAnd, ast.BitOr, ast.BitXor)):
            # mask with 2^k-1 literal: exact for all Python ints
            for x, y in ((a, b), (b, a)):
                if isinstance(op, ast.BitAnd) and not is_z3(y) and isinstance(y, int) and y > 0 and (y & (y + 1)) == 0:
                    return lift(x) % (y + 1)
            for w in (32, 64):
                lo, hi = -(2 ** (w - 1)), 2 ** (w - 1)
                if self.implied(z3.And(lift(a) >= lo, lift(a) < hi, lift(b) >= lo, lift(b) < hi)):
                    x, y = z3.Int2BV(lift(a), w), z3.Int2BV(lift(b), w)
                    rbv = x & y if isinstance(op, ast.BitAnd) else (x | y if isinstance(op, ast.BitOr) else x ^ y)
                    self.assumptions_used.add(
                        "Python's unbounded two's-complement & | ^ agree with the w-bit operation when both operands fit in w bits (checked by the CPython differential self-test)")
                    return z3.BV2Int(rbv, is_signed=True)
            raise OutOfSubset("bitwise operator on unbounded integers")
        raise OutOfSubset(f"operator {type(op).__name__}")

    def e_Subscript(self, node, env):
        base = self.eval(node.value, env)
        if isinstance(node.slice, ast.Slice):
            if isinstance(base, (list, tuple, str)):
                lo = self.eval(node.slice.lower, env) if node.slice.lower else None
                hi = self.eval(node.slice.upper, env) if node.slice.upper else None
                st = self.eval(node.slice.step, env) if node.slice.step else None
                if any(is_z3(x) for x in (lo, hi, st)):
                    raise OutOfSubset("symbolic slice")
                return base[lo:hi:st]
            raise OutOfSubset("slice of symbolic container")
        idx = self.eval(node.slice, env)
        return self.getitem(base, idx)

    @staticmethod
    def _same_key(k, idx):
        return k is idx or (is_z3(k) and is_z3(idx) and k.eq(idx)) or (
            not is_z3(k) and not is_z3(idx) and not isinstance(k, SObj) and not isinstance(idx, SObj) and k == idx)

    def omap_memo(self, base, idx):
        """A second lookup of the same key term (no store in between) yields the same object."""
        for k, r in reversed(base.lookups):
            if r is not None and self._same_key(k, idx):
                return r
        return None

    def _snapshot_entry(self, obj, attr, v):
        """A lazily created field is an INPUT value: remember containers as they were at entry, because the
        code under verification mutates them in place (a.old.<obj>.<field> must not see those updates)."""
        if isinstance(v, (AList, ADict, ASet)):
            obj.__dict__.setdefault("_entry", {})[attr] = v.copy()

    def getitem(self, base, idx):
        if isinstance(base, UMap):
            k = lift(idx)
            if not self.branch(z3.Select(base.present, k), label="key-present"):
                raise PyRaise("KeyError")
            if self.branch(z3.Select(base.isint, k), label="value-is-int"):
                return z3.Select(base.ival, k)
            return self.mk(base.obj_type, fresh_name(base.name + "[]"), register=True)
        if isinstance(base, OMap):
            has = None
            for k, b in reversed(base.tests):  # a membership test of the same key term decides presence
                if k is idx or (is_z3(k) and is_z3(idx) and k.eq(idx)) or (not is_z3(k) and not is_z3(idx) and not isinstance(k, SObj) and k == idx):
                    has = b
                    break
            if has is None:
                has = z3.Bool(fresh_name(base.name + "#has"))
                base.tests.append((idx, has))
            if not self.branch(has, label="key-present"):
                raise PyRaise("KeyError")
            r = self.omap_memo(base, idx)
            if r is None:
                r = self.mk(base.val_type, fresh_name(base.name + "[]"), register=True)
                base.lookups.append((idx, r))
            return r
        if isinstance(base, (list, tuple, str)):
            if is_z3(idx):
                if isinstance(base, str):
                    raise OutOfSubset("symbolic index into str")
                n = len(base)
                if n == 0 or not self.branch(z3.And(idx >= -n, idx < n), label="idx-in-range"):
                    raise PyRaise("IndexError")
                if all(_scalar(x) for x in base):
                    res = base[0]
                    for k in range(1, n):
                        res = ops.ite(z3.Or(idx == k, idx == k - n), base[k], res)
                    return res
                for k in range(n - 1):
                    if self.branch(z3.Or(idx == k, idx == k - n)):
                        return base[k]
                return base[n - 1]
            try:
                return base[idx]
            except IndexError:
                raise PyRaise("IndexError")
        if isinstance(base, dict):
            if is_z3(idx):
                for k in base:
                    if self.branch(self.py_eq(idx, k)):
                        return base[k]
                raise PyRaise("KeyError")
            if idx in base:
                return base[idx]
            raise PyRaise("KeyError")
        if isinstance(base, AList):
            i = lift(idx)
            if self.branch(i < 0, label="negidx"):
                if not self.branch(i >= -base.length):
                    raise PyRaise("IndexError")
                return base.sym_at(base.length + i)
            if not self.branch(i < base.length, label="idx<len"):
                raise PyRaise("IndexError")
            return base.sym_at(i)
        if isinstance(base, ADict):
            k = lift(idx)
            if not self.branch(z3.Select(base.present, k), label="key-present"):
                raise PyRaise("KeyError")
            return z3.Select(base.vals, k)
        raise OutOfSubset(f"subscript on {type(base).__name__}")

    def e_ListComp(self, node, env):
        return self._comp(node, env, list)

    def e_SetComp(self, node, env):
        return self._comp(node, env, set)

    def e_GeneratorExp(self, node, env):
        return self._comp(node, env, list)

    def e_DictComp(self, node, env):
        out = {}
        for e2 in self._comp_envs(node.generators, env):
            k = self.eval(node.key, e2)
            if is_z3(k):
                raise OutOfSubset("dict comprehension with symbolic key")
            out[k] = self.eval(node.value, e2)
        return out

    def _comp(self, node, env, ctor):
        out = []
        for e2 in self._comp_envs(node.generators, env):
            out.append(self.eval(node.elt, e2))
        if ctor is list:
            return out
        if any(is_z3(o) for o in out):
            return self._distinct_set(out)
        return ctor(_hashable(o) for o in out)

    def _distinct_set(self, elems):
        """set(...) over symbolic scalars: branch on every equality so that the kept elements are pairwise distinct"""
        from .values import DSet
        if any(isinstance(o, SObj) or not _scalar(o) for o in elems):
            raise OutOfSubset("set of symbolic non-scalars")
        if len(elems) > 6:
            raise OutOfSubset("set of more than 6 symbolic elements")
        kept = DSet()
        for e in elems:
            dup = False
            for r in kept:
                eq = self.py_eq(e, r)
                if eq is True or (eq is not False and self.branch(eq, label="set-dup")):
                    dup = True
                    break
            if not dup:
                kept.append(e)
        return kept

    def _comp_envs(self, gens, env):
        if not gens:
            yield env
            return
        g = gens[0]
        it = self.eval(g.iter, env)
        for item in self.concrete_iter(it):
            e2 = Env(env, {})
            self.bind_target(g.target, item, e2)
            ok = True
            for cond in g.ifs:
                t = self.truth(self.eval(cond, e2))
                if not (t if isinstance(t, bool) else self.branch(t)):
                    ok = False
                    break
            if ok:
                yield from self._comp_envs(gens[1:], e2)

    def concrete_iter(self, it):
        if isinstance(it, (list, tuple, set, frozenset)):
            return list(it) if not isinstance(it, (set, frozenset)) else sorted(it, key=repr)
        if isinstance(it, dict):
            return list(it.keys())
        if isinstance(it, type({}.keys())):
            return list(it)
        if isinstance(it, range):
            return list(it)
        if isinstance(it, str):
            return list(it)
        raise OutOfSubset(f"iteration over symbolic {type(it).__name__} without a loop contract")

    def bind_target(self, target, value, env, nonlocal_names=()):
        if isinstance(target, ast.Name):
            env.set(target.id, value, nonlocal_names)
        elif isinstance(target, (ast.Tuple, ast.List)):
            if not isinstance(value, (tuple, list)) or len(value) != len(target.elts):
                raise OutOfSubset("unpacking of non-concrete sequence")
            for t, v in zip(target.elts, value):
                self.bind_target(t, v, env, nonlocal_names)
        elif isinstance(target, ast.Attribute):
            self.set_attr(self.eval(target.value, env), target.attr, value)
        elif isinstance(target, ast.Subscript):
            base = self.eval(target.value, env)
            idx = self.eval(target.slice, env)
            self.setitem(base, idx, value)
        else:
            raise OutOfSubset("assignment target")

    def setitem(self, base, idx, value):
        if isinstance(base, dict):
            if is_z3(idx):
                raise OutOfSubset("symbolic key into concrete dict")
            base[idx] = value
        elif isinstance(base, list):
            if is_z3(idx):
                raise OutOfSubset("symbolic index store")
            base[idx] = value
        elif isinstance(base, OMap):
            # store into a dict of objects: recorded for specifications; later lookups stay unconstrained
            # (over-approximation already stated for TObjMap)
            base.__dict__.setdefault("stores", []).append((idx, value))
            base.lookups = [(k, r) for (k, r) in base.lookups if False]  # a store invalidates what earlier lookups said
            base.tests = []
        elif isinstance(base, ADict):
            k = lift(idx)
            base.present = z3.Store(base.present, k, z3.BoolVal(True))
            base.vals = z3.Store(base.vals, k, lift(self.handle(value) if isinstance(value, SObj) else value))
        elif isinstance(base, AList):
            i = lift(idx)
            if not self.branch(z3.And(i >= 0, i < base.length)):
                raise PyRaise("IndexError")
            base.arr = z3.Store(base.arr, i, lift(value))
        else:
            raise OutOfSubset(f"item store on {type(base).__name__}")

    def handle(self, obj):
        """Opaque integer handle of an object (used when objects are stored in symbolic maps)."""
        if "#handle" not in obj._fields:
            obj._fields["#handle"] = z3.Int(f"{obj._nm}#handle")
        return obj._fields["#handle"]

    # calls are in calls.py (mixin), statements in stmts.py (mixin)


class SetLen:
    """len() of a symbolic set; only `== 0` is supported."""

    def __init__(self, aset):
        self.aset = aset


class _FakeSrc:
    def __init__(self, module):
        self.module = module
        self.node = None
        self.cls = None


class _Missing:
    pass


_MISSING = _Missing()


class _Builtin:
    def __init__(self, name):
        self.name = name
        self.unknown = name.startswith("<one of ")  # type() of an object with several candidate classes: usable for its name only

    def __repr__(self):
        return f"<builtin {self.name}>"


_BUILTINS = {"isinstance", "len", "abs", "min", "max", "int", "bool", "str", "list", "tuple", "set",
             "frozenset", "dict", "range", "sorted", "sum", "any", "all", "enumerate", "zip",
             "round", "float", "repr", "type", "hasattr", "getattr", "print", "reversed",
             "ValueError", "TypeError", "KeyError", "RuntimeError", "Exception", "IndexError",
             "OverflowError", "AssertionError", "NotImplementedError", "SyntaxError",
             "ZeroDivisionError", "AttributeError", "StopIteration", "id", "callable", "iter", "next",
             "map", "filter", "divmod", "object", "super", "pow"}

_PYOPS = {ast.Add: operator.add, ast.Sub: operator.sub, ast.Mult: operator.mul,
          ast.FloorDiv: operator.floordiv, ast.Mod: operator.mod, ast.Div: operator.truediv,
          ast.Pow: operator.pow, ast.LShift: operator.lshift, ast.RShift: operator.rshift,
          ast.BitAnd: operator.and_, ast.BitOr: operator.or_, ast.BitXor: operator.xor}


def _tname(t):
    if isinstance(t, ty.TObj):
        return t.cls
    return type(t).__name__[1:]


def _pure_simple(node) -> bool:
    """Side-effect free, non-raising-by-construction scalar expression."""
    if isinstance(node, (ast.Constant, ast.Name)):
        return True
    if isinstance(node, ast.Attribute):
        return False
    if isinstance(node, ast.UnaryOp):
        return _pure_simple(node.operand)
    if isinstance(node, ast.BinOp):
        return isinstance(node.op, (ast.Add, ast.Sub, ast.Mult)) and _pure_simple(node.left) and _pure_simple(node.right)
    if isinstance(node, ast.Compare):
        return _pure_simple(node.left) and all(_pure_simple(c) for c in node.comparators) and all(
            isinstance(o, (ast.Eq, ast.NotEq, ast.Lt, ast.LtE, ast.Gt, ast.GtE)) for o in node.ops)
    if isinstance(node, ast.BoolOp):
        return all(_pure_simple(v) for v in node.values)
    return False


def _scalar(v):
    return isinstance(v, (bool, int, str, float)) or is_z3(v)


def _hashable(v):
    if is_z3(v):
        raise OutOfSubset("symbolic element in a concrete set")
    return v
