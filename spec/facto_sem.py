"""S3 — denotational semantics of Facto source programs (specification side only).

Evaluates the AST produced by the repo's own parser to the values the *language* defines
(LANGUAGE_SPEC.md and the property statements), over a numeric back end (concrete or z3 BV32):

  int values      : compile-time integers (Python ints)
  Signal values   : (type | None, value)          None = implicit type chosen by the compiler
  Bundle values   : {type: value} (zero members are absent, as on a Factorio wire)

Nothing in here looks at the compiler: it is the oracle the contracts K3..K9 are stated against.
Stateful constructs (memories) are outside this evaluator (handled by the template lemmas).
"""
from __future__ import annotations

from dataclasses import dataclass, field

from .arith32 import ARITH_OPS, CMP_OPS, LOGIC_OPS, fa_ref, wrap32


class SemError(Exception):
    """Program is outside the fragment S3 defines (not: program is ill-formed)."""


class Rejected(Exception):
    """S3 considers the program ill-formed under a documented static rule."""


@dataclass
class IntV:
    v: int


@dataclass
class SigV:
    type: str | None  # None: implicit (compiler-chosen) signal
    v: object
    implicit_id: int | None = None  # identity of the implicit signal (distinct untyped values differ)
    is_cmp: bool = False  # value of a comparison (or && / || of comparisons)
    note: str | None = None  # "cmp-nonvirtual": type stems from a comparison whose left operand is an item/fluid signal


@dataclass
class BunV:
    members: dict  # type -> value ; implicit members under key ("implicit", id)
    dynamic: bool = False  # contents not known statically (entity output or derived from one): merging adds


@dataclass
class EntV:
    name: str
    proto: str
    x: object
    y: object
    props: dict
    enable: object = None  # SigV / cond
    writes: dict = field(default_factory=dict)


def entity_key(ent):
    """Identity of a placed entity for its circuit output: its declared name and, when known, its tile (one name may be placed
    several times by a loop or by calls)."""
    x, y = getattr(ent.x, "v", None), getattr(ent.y, "v", None)
    return f"{ent.name}@{x},{y}" if isinstance(x, int) and isinstance(y, int) else ent.name


@dataclass
class MemV:
    name: str
    type: str | None


class Sem:
    def __init__(self, B, inputs=None, entity_outputs=None, mem_state=None):
        """inputs: {variable name: {signal: value}} overriding top-level constant declarations."""
        self.B = B
        self.inputs = inputs or {}
        self.entity_outputs = entity_outputs if entity_outputs is not None else {}
        self.funcs = {}
        self.globals = {}
        self.decl_order = []
        self.consumed = set()
        self.entities = []
        self._implicit = 0
        self.top_types = {}
        self.uses_memory = False
        self.depth = 0
        # memories (stateful part of S3): current stored value per declared cell (keyed by declaration
        # instance), and the writes the program performs in this evaluation
        self.mem_state = mem_state if mem_state is not None else {}
        self.mem_types = {}
        self.writes = {}
        self._mem_instances = 0

    # ------------------------------------------------------------------ helpers
    def fresh_implicit(self):
        self._implicit += 1
        return self._implicit

    def num(self, v):
        """Value operand as back-end number."""
        if isinstance(v, IntV):
            return self.B.const(v.v)
        if isinstance(v, SigV):
            return v.v
        raise SemError(f"not a scalar: {v}")

    def truth(self, v):
        return self.B.nonzero(self.num(v))

    # ------------------------------------------------------------------ program
    def run(self, program):
        env = {}
        self._top = env
        for st in program.statements:
            self.stmt(st, env, top=True)
        self.globals = env
        return env

    def outputs(self):
        """Top-level Signal/Bundle names that no other statement consumes."""
        out = {}
        for name in self.decl_order:
            if name in self.consumed:
                continue
            v = self.globals.get(name)
            if isinstance(v, (SigV, BunV)):
                out[name] = v
        return out

    def stmt(self, st, env, top=False):
        k = type(st).__name__
        if k == "DeclStmt":
            v = self.expr(st.value, env)
            v = self.coerce_decl(st.type_name, v, st, env, top)
            env[st.name] = v
            if top:
                self.decl_order.append(st.name)
            return
        if k == "AssignStmt":
            tgt = st.target
            tk = type(tgt).__name__
            if tk == "PropertyAccess":
                ent = env.get(tgt.object_name)
                if not isinstance(ent, EntV):
                    raise Rejected(f"undefined entity {tgt.object_name}")
                val = self.expr(st.value, env)
                if tgt.property_name == "enable":
                    ent.enable = val
                else:
                    ent.writes[tgt.property_name] = val
                return
            if tk == "Identifier":
                if tgt.name not in env:
                    raise Rejected(f"undefined variable {tgt.name}")
                env[tgt.name] = self.expr(st.value, env)
                return
            raise SemError("assignment target")
        if k == "ExprStmt":
            self.expr(st.expr, env)
            return
        if k == "FuncDecl":
            self.funcs[st.name] = st
            return
        if k == "MemDecl":
            self.uses_memory = True
            # every executed declaration is its own cell (per call, per loop iteration)
            self._mem_instances += 1
            key = f"{st.name}#{self._mem_instances}"
            env[st.name] = MemV(key, st.signal_type)
            self.mem_types.setdefault(key, st.signal_type)
            if top:
                self.decl_order.append(st.name)
            return
        if k == "ForStmt":
            for val in self.iteration_values(st, env):
                inner = dict(env)
                inner[st.iterator_name] = IntV(val)
                before = set(inner)
                for s2 in st.body:
                    self.stmt(s2, inner, top=False)
                # names declared in the body are local to one iteration; assignments to outer
                # names persist
                for n in env:
                    if n != st.iterator_name:  # the iterator is local to the loop: an outer variable of that name is only shadowed
                        env[n] = inner[n]
            return
        if k == "ReturnStmt":
            raise _Return(self.expr(st.expr, env))
        if k == "ImportStmt":
            return
        raise SemError(f"statement {k}")

    def iteration_values(self, st, env):
        if st.values is not None:
            return list(st.values)

        def res(b):
            if b is None:
                return None
            if isinstance(b, int):
                return b
            v = env.get(b)
            if not isinstance(v, IntV):
                raise Rejected(f"loop bound {b} is not a compile-time int")
            return v.v
        a, b, s = res(st.start) or 0, res(st.stop) or 0, res(st.step)
        if s is None:
            s = 1 if a < b else -1
        if s == 0:
            raise Rejected("zero loop step")
        out = []
        i = a
        while (s > 0 and i < b) or (s < 0 and i > b):
            out.append(i)
            i += s
        return out

    def coerce_decl(self, type_name, v, st, env, top):
        if type_name == "int":
            if not isinstance(v, IntV):
                raise Rejected("int declaration needs a compile-time integer")
            return v
        if type_name == "Signal":
            if isinstance(v, IntV):
                sv = SigV(None, self.B.const(v.v), self.fresh_implicit())
            elif isinstance(v, SigV):
                sv = v
            else:
                raise Rejected("Signal declaration needs a scalar")
            # named typed-constant declarations are the program's inputs
            if top and st.name in self.inputs and type(st.value).__name__ in ("SignalLiteral", "NumberLiteral"):
                d = self.inputs[st.name]
                if sv.type in d:
                    sv = SigV(sv.type, d[sv.type], sv.implicit_id)
                elif len(d) == 1:
                    sv = SigV(sv.type, next(iter(d.values())), sv.implicit_id)
            return sv
        if type_name == "Bundle":
            if isinstance(v, BunV):
                if top and st.name in self.inputs and type(st.value).__name__ == "BundleLiteral":
                    d = self.inputs[st.name]
                    v = BunV({t: d.get(t, val) for t, val in v.members.items()})
                return v
            raise Rejected("Bundle declaration needs a bundle")
        if type_name == "Entity":
            if isinstance(v, EntV):
                v.name = st.name
                return v
            raise Rejected("Entity declaration needs place()")
        raise SemError(f"declared type {type_name}")

    # ------------------------------------------------------------------ expressions
    def expr(self, e, env):
        m = getattr(self, "x_" + type(e).__name__, None)
        if m is None:
            raise SemError(f"expression {type(e).__name__}")
        return m(e, env)

    def x_NumberLiteral(self, e, env):
        return IntV(e.value)

    def x_IdentifierExpr(self, e, env):
        if e.name not in env:
            raise Rejected(f"undefined variable {e.name}")
        # a read consumes the TOP-LEVEL name only if it resolves to the top-level binding (a parameter or
        # local of the same name inside a function is a different variable)
        top = getattr(self, "_top", None)
        if top is None or (e.name in top and top[e.name] is env[e.name]):
            self.consumed.add(e.name)
        return env[e.name]

    def _type_name(self, t, env):
        if t is None or isinstance(t, str):
            return t
        if type(t).__name__ == "SignalTypeAccess":
            v = env.get(t.object_name)
            if not isinstance(v, SigV) or v.type is None:
                raise SemError(".type of implicit/non-signal")
            return v.type
        raise SemError("signal type expression")

    def x_SignalLiteral(self, e, env):
        inner = self.expr(e.value, env)
        t = self._type_name(e.signal_type, env)
        if t is None:
            return inner  # an untyped literal is a plain compile-time integer until a Signal context coerces it
        return SigV(t, self.num(inner))

    def x_UnaryOp(self, e, env):
        v = self.expr(e.expr, env)
        if isinstance(v, IntV):
            if e.op == "-":
                return IntV(wrap32(-v.v))
            if e.op == "+":
                return v
            if e.op == "!":
                return IntV(1 if v.v == 0 else 0)
        if isinstance(v, SigV):
            if e.op == "-":
                return SigV(v.type, self.B.arith("-", self.B.const(0), v.v), v.implicit_id)
            if e.op == "+":
                return v
            if e.op == "!":
                return SigV(v.type, self.B.b2i(self.B.not_(self.B.nonzero(v.v))), v.implicit_id, True)
        raise SemError(f"unary {e.op}")

    def x_BinaryOp(self, e, env):
        l = self.expr(e.left, env)
        r = self.expr(e.right, env)
        op = e.op
        op = {"and": "&&", "or": "||"}.get(op, op)
        if isinstance(l, BunV) or isinstance(r, BunV):
            if isinstance(l, BunV) and isinstance(r, BunV):
                raise Rejected("Bundle OP Bundle")
            if op in CMP_OPS or op in LOGIC_OPS:
                raise Rejected("bare bundle comparison")
            if isinstance(l, BunV):
                b = self.num(r)
                return BunV({t: self._each(op, v, b) for t, v in l.members.items()}, l.dynamic)
            a = self.num(l)
            return BunV({t: self._each_rev(op, a, v) for t, v in r.members.items()}, r.dynamic)
        if isinstance(l, IntV) and isinstance(r, IntV):
            return IntV(self._const(op, l.v, r.v))
        if not isinstance(l, (IntV, SigV)) or not isinstance(r, (IntV, SigV)):
            raise SemError("operands")
        a, b = self.num(l), self.num(r)
        if isinstance(l, SigV):
            t, iid, note = l.type, l.implicit_id, l.note
        else:
            t, iid, note = r.type, r.implicit_id, r.note
        if op in CMP_OPS and t is not None and not (t.startswith("signal-") or t.startswith("__")):
            note = "cmp-nonvirtual"
        if op in ARITH_OPS:
            val = self.B.arith(op, a, b)
        elif op in CMP_OPS:
            val = self.B.b2i(self.B.cmp(op, a, b))
        elif op == "&&":
            val = self.B.b2i(self.B.and_(self.B.nonzero(a), self.B.nonzero(b)))
        elif op == "||":
            val = self.B.b2i(self.B.or_(self.B.nonzero(a), self.B.nonzero(b)))
        else:
            raise SemError(f"operator {op}")
        is_cmp = op in CMP_OPS or (op in ("&&", "||") and (getattr(l, "is_cmp", False) or getattr(r, "is_cmp", False)))
        return SigV(t, val, iid, is_cmp, note)

    def _each(self, op, member, scalar):
        B = self.B
        return B.ite(B.nonzero(member), B.arith(op, member, scalar), B.const(0))

    def _each_rev(self, op, scalar, member):
        B = self.B
        return B.ite(B.nonzero(member), B.arith(op, scalar, member), B.const(0))

    def _const(self, op, a, b):
        if op in ARITH_OPS:
            if op in ("<<", ">>") and not 0 <= b <= 31:
                raise SemError("shift amount outside 0..31 (unspecified)")
            if op == "**" and b < 0:
                raise SemError("negative exponent (unspecified)")
            if op == "**":
                return wrap32(pow(a, b, 1 << 32))
            return fa_ref(op, wrap32(a), wrap32(b))
        if op in CMP_OPS:
            return int({"==": a == b, "!=": a != b, "<": a < b, "<=": a <= b, ">": a > b, ">=": a >= b}[op])
        if op == "&&":
            return int(a != 0 and b != 0)
        if op == "||":
            return int(a != 0 or b != 0)
        raise SemError(op)

    def x_ProjectionExpr(self, e, env):
        v = self.expr(e.expr, env)
        t = self._type_name(e.target_type, env)
        if isinstance(v, IntV):
            return SigV(t, self.B.const(v.v))
        if isinstance(v, SigV):
            return SigV(t, v.v)
        if isinstance(v, BunV):
            return SigV(t, self.B.sum(list(v.members.values())))
        raise SemError("projection operand")

    def _is_comparison(self, e):
        n = type(e).__name__
        if n == "BinaryOp":
            if e.op in CMP_OPS:
                return True
            if e.op in ("&&", "||", "and", "or"):
                return self._is_comparison(e.left) and self._is_comparison(e.right)
        return False

    def _left_is_int(self, cond, env):
        n = type(cond).__name__
        if n == "BinaryOp" and cond.op in CMP_OPS:
            return isinstance(self.expr(cond.left, env), IntV)
        if n == "BinaryOp" and cond.op in ("&&", "||", "and", "or"):
            return self._left_is_int(cond.left, env)
        return False

    def x_OutputSpecExpr(self, e, env):
        cond = e.condition
        # bundle filter: (bundle CMP scalar) : out
        if type(cond).__name__ == "BinaryOp" and cond.op in CMP_OPS:
            l = self.expr(cond.left, env)
            if isinstance(l, BunV):
                r = self.num(self.expr(cond.right, env))
                out = self.expr(e.output_value, env)
                B = self.B
                res = {}
                for t, v in l.members.items():
                    keep = B.and_(B.nonzero(v), B.cmp(cond.op, v, r))
                    if isinstance(out, BunV):
                        src = out.members.get(t, B.const(0))
                        res[t] = B.ite(keep, src, B.const(0))
                    elif isinstance(out, IntV):
                        res[t] = B.ite(keep, B.const(out.v), B.const(0))
                    elif isinstance(out, SigV):
                        res[t] = B.ite(keep, out.v, B.const(0))
                    else:
                        raise SemError("filter output")
                return BunV(res, l.dynamic)
        c = None
        if not self._is_comparison(cond):
            c = self.expr(cond, env)
            if not (isinstance(c, SigV) and c.is_cmp):
                raise Rejected("non-comparison before ':'")
        if c is None:
            c = self.expr(cond, env)
        truth = self.truth(c)
        out = self.expr(e.output_value, env)
        B = self.B
        if isinstance(out, IntV):
            if isinstance(c, IntV):
                return IntV(out.v if c.v != 0 else 0)
            # a constant after ':' is carried on the condition's own type (left-operand rule); an
            # all-integer condition cannot reach here
            # ... but only the LEFT operand of the (first) comparison can give it: `100 <= x` has an integer on
            # the left, so the constant is carried on a compiler-chosen signal (SemanticAnalyzer._get_comparison_left_type)
            if isinstance(c, SigV) and not self._left_is_int(cond, env):
                return SigV(c.type, B.ite(truth, B.const(out.v), B.const(0)), c.implicit_id, note=c.note)
            return SigV(None, B.ite(truth, B.const(out.v), B.const(0)), self.fresh_implicit())
        if isinstance(out, SigV):
            return SigV(out.type, B.ite(truth, out.v, B.const(0)), out.implicit_id)
        if isinstance(out, BunV):
            return BunV({t: B.ite(truth, v, B.const(0)) for t, v in out.members.items()}, out.dynamic)
        raise SemError("output value")

    def x_BundleLiteral(self, e, env):
        members = {}
        dyn_keys = set()
        for el in e.elements:
            v = self.expr(el, env)
            if isinstance(v, BunV):
                items = list(v.members.items())
            elif isinstance(v, SigV):
                key = v.type if v.type is not None else ("implicit", v.implicit_id)
                items = [(key, v.v)]
            else:
                raise Rejected("bundle element must be a signal or bundle")
            dyn = isinstance(v, BunV) and v.dynamic
            for t, val in items:
                if t in members:
                    # statically known duplicates are a compile error; contents that are only known at run time
                    # (entity outputs) simply add on the wire
                    if not (dyn or t in dyn_keys):
                        raise Rejected(f"duplicate signal type {t} in bundle")
                    members[t] = self.B.arith("+", members[t], val)
                else:
                    members[t] = val
                if dyn:
                    dyn_keys.add(t)
        return BunV(members, bool(dyn_keys))

    def x_BundleSelectExpr(self, e, env):
        b = self.expr(e.bundle, env)
        if not isinstance(b, BunV):
            raise Rejected("selection on non-bundle")
        if e.signal_type not in b.members:
            raise Rejected(f"bundle has no member {e.signal_type}")
        return SigV(e.signal_type, b.members[e.signal_type])

    def x_BundleAnyExpr(self, e, env):
        return _Quant("any", self.expr(e.bundle, env))

    def x_BundleAllExpr(self, e, env):
        return _Quant("all", self.expr(e.bundle, env))

    def x_CallExpr(self, e, env):
        if e.name == "place":
            return self._place(e, env)
        f = self.funcs.get(e.name)
        if f is None:
            raise Rejected(f"undefined function {e.name}")
        if len(e.args) != len(f.params):
            raise Rejected("argument count")
        if self.depth > 40:
            raise Rejected("recursion")
        args = [self.expr(a, env) for a in e.args]
        local = {}
        # functions see global functions only; globals are not captured (parameters + locals)
        for p, a in zip(f.params, args):
            if p.type_name == "Signal" and isinstance(a, IntV):
                a = SigV(None, self.B.const(a.v), self.fresh_implicit())
            if isinstance(a, SigV) and a.note is None:
                # the argument's type reaches the body through a parameter (see KF-C15-inlined-result-type)
                a = SigV(a.type, a.v, a.implicit_id, a.is_cmp, "param")
            local[p.name] = a
        scope = dict(self.globals_for_call(env))
        scope.update(local)
        self.depth += 1
        try:
            for st in f.body:
                self.stmt(st, scope)
        except _Return as r:
            return r.value
        finally:
            self.depth -= 1
        return IntV(0)

    def globals_for_call(self, env):
        # a function body sees the top-level names declared before the call (and its own locals)
        return dict(getattr(self, "_top", {}))

    def _place(self, e, env):
        args = [self.expr(a, env) if type(a).__name__ != "StringLiteral" else a.value for a in e.args]
        proto = args[0]
        x, y = args[1], args[2]
        props = {}
        if len(e.args) > 3 and type(e.args[3]).__name__ == "DictLiteral":
            props = dict(e.args[3].entries)
        ent = EntV("", proto, x, y, props)
        self.entities.append(ent)
        return ent

    def x_StringLiteral(self, e, env):
        return e.value

    def x_DictLiteral(self, e, env):
        return e

    def x_EntityOutputExpr(self, e, env):
        ent = env.get(e.entity_name)
        if not isinstance(ent, EntV):
            raise Rejected("undefined entity")
        self.consumed.add(e.entity_name)
        # the contents are the ENTITY's, whatever name it is read through (an Entity parameter, a returned entity)
        return BunV(dict(self.entity_outputs.get(entity_key(ent), {})), True)

    def x_PropertyAccessExpr(self, e, env):
        if e.property_name == "output":
            return self.x_EntityOutputExpr(type("X", (), {"entity_name": e.object_name})(), env)
        raise SemError(f"property read {e.property_name}")

    def x_ReadExpr(self, e, env):
        m = env.get(e.memory_name)
        if not isinstance(m, MemV):
            raise Rejected(f"undefined memory {e.memory_name}")
        self.consumed.add(e.memory_name)
        return SigV(self.mem_types.get(m.name), self.mem_state.get(m.name, self.B.const(0)))

    def x_WriteExpr(self, e, env):
        m = env.get(e.memory_name)
        if not isinstance(m, MemV):
            raise Rejected(f"undefined memory {e.memory_name}")
        if m.name in self.writes:
            raise Rejected("second write to one cell")
        val = self.expr(e.value, env)
        if isinstance(val, SigV) and self.mem_types.get(m.name) is None:
            self.mem_types[m.name] = val.type
        rec = {"value": self.num(val), "kind": "always"}
        if e.set_signal is not None or e.reset_signal is not None:
            rec["kind"] = "latch"
            rec["set"] = self.num(self.expr(e.set_signal, env))
            rec["reset"] = self.num(self.expr(e.reset_signal, env))
            rec["set_priority"] = bool(e.set_priority)
        elif e.when is not None:
            rec["kind"] = "when"
            rec["when"] = self.num(self.expr(e.when, env))
        self.writes[m.name] = rec
        return IntV(0)

    def next_mem_state(self, latch_bits=None):
        """State after one application of every write of this evaluation (B must be concrete or the
        caller must build ite terms itself)."""
        B = self.B
        new = dict(self.mem_state)
        for key, w in self.writes.items():
            cur = self.mem_state.get(key, B.const(0))
            if w["kind"] == "always":
                new[key] = w["value"]
            elif w["kind"] == "when":
                new[key] = B.ite(B.cmp(">", w["when"], B.const(0)), w["value"], cur)
            else:
                s_on = B.cmp(">", w["set"], B.const(0))
                r_on = B.cmp(">", w["reset"], B.const(0))
                both = B.and_(s_on, r_on)
                on = (latch_bits or {}).get(key, False)
                nxt = B.ite(both, w["set_priority"], B.ite(s_on, True, B.ite(r_on, False, on)))
                new[key] = ("latch", nxt, w["value"])
        return new

    def x_SignalTypeAccess(self, e, env):
        raise SemError(".type outside a type position")


class _Return(Exception):
    def __init__(self, value):
        self.value = value


@dataclass
class _Quant:
    kind: str
    bundle: object


def _patch_quantifiers():
    """any()/all() only make sense as the left operand of a comparison: handled in x_BinaryOp."""
    orig = Sem.x_BinaryOp

    def x_BinaryOp(self, e, env):
        if type(e.left).__name__ in ("BundleAnyExpr", "BundleAllExpr") and e.op in CMP_OPS:
            q = self.expr(e.left, env)
            if not isinstance(q.bundle, BunV):
                raise Rejected("any/all of a non-bundle")
            r = self.num(self.expr(e.right, env))
            B = self.B
            vals = list(q.bundle.members.values())
            if q.kind == "any":
                t = B.or_(*[B.and_(B.nonzero(v), B.cmp(e.op, v, r)) for v in vals]) if vals else B.false()
            else:
                t = B.and_(*[B.or_(B.not_(B.nonzero(v)), B.cmp(e.op, v, r)) for v in vals]) if vals else B.true()
            return SigV(None, B.b2i(t), self.fresh_implicit(), True)
        return orig(self, e, env)

    Sem.x_BinaryOp = x_BinaryOp


_patch_quantifiers()
