"""S4 — prototype geometry and wire reach, read from the game data shipped with draftsman (assumed to be
the game's data)."""
from __future__ import annotations

import math

_RAW = None


def raw():
    global _RAW
    if _RAW is None:
        from draftsman.data import entities as ed
        _RAW = ed.raw
    return _RAW


def collision_box(name, direction=0):
    """((x1,y1),(x2,y2)) relative to the entity centre, rotated for east/west facing entities."""
    r = raw()[name]
    (x1, y1), (x2, y2) = r.get("collision_box", [[-0.4, -0.4], [0.4, 0.4]])
    if direction in (4, 12, 2, 6):  # east / west (2.0: 4, 12; 1.x: 2, 6)
        return ((y1, x1), (y2, x2))
    return ((x1, y1), (x2, y2))


def wire_reach(name):
    """Maximum circuit wire length of a prototype (tiles, centre to centre)."""
    r = raw()[name]
    for k in ("circuit_wire_max_distance", "maximum_wire_distance", "wire_max_distance"):
        if r.get(k):
            return float(r[k])
    return 9.0 if name == "power-switch" else None


def copper_reach(name):
    return float(raw()[name].get("maximum_wire_distance") or 0)


def supply_radius(name):
    return float(raw()[name].get("supply_area_distance") or 0)


def is_electric_consumer(name):
    es = raw()[name].get("energy_source")
    return isinstance(es, dict) and es.get("type") == "electric" and raw()[name].get("type") not in ("electric-pole",)


def is_pole(name):
    return raw()[name].get("type") == "electric-pole"


def boxes_intersect(a_pos, a_box, b_pos, b_box, eps=1e-9):
    ax1, ay1, ax2, ay2 = a_pos[0] + a_box[0][0], a_pos[1] + a_box[0][1], a_pos[0] + a_box[1][0], a_pos[1] + a_box[1][1]
    bx1, by1, bx2, by2 = b_pos[0] + b_box[0][0], b_pos[1] + b_box[0][1], b_pos[0] + b_box[1][0], b_pos[1] + b_box[1][1]
    return ax1 < bx2 - eps and bx1 < ax2 - eps and ay1 < by2 - eps and by1 < ay2 - eps


def dist(a, b):
    return math.hypot(a[0] - b[0], a[1] - b[1])


CONNECTORS = {"combinator": {1, 2, 3, 4}, "other": {1, 2}, "pole": {1, 2, 5}, "power-switch": {1, 2, 5, 6}}


def connector_ids(name):
    t = raw()[name].get("type")
    if t in ("arithmetic-combinator", "decider-combinator", "selector-combinator"):
        return CONNECTORS["combinator"]
    if t == "electric-pole":
        return CONNECTORS["pole"]
    if t == "power-switch":
        return CONNECTORS["power-switch"]
    return CONNECTORS["other"]
