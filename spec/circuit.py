"""S2 — Factorio 2.0 circuit-network model (trusted specification of the target machine).

Front end: the decoded blueprint dict (`{"blueprint": {"entities": [...], "wires": [...]}}`).
Evaluator: generic over a numeric back end (spec.num.Concrete / spec.num.Symbolic), so a stateless
circuit is evaluated either on concrete inputs or to bit-vector terms over symbolic inputs, and a
cyclic circuit exposes its one-tick transition function.

Modelling choices (all listed in trusted_base of the evidence that uses this file):
 * connector ids: combinators 1/2 = input red/green, 3/4 = output red/green; every other entity
   1/2 = red/green; 5/6 (copper) ignored.
 * a network is a connected component of same-colour wire ends; its content is the wrap-32 sum of what
   every producer attached to it emits; signals with value 0 are absent.
 * combinators read at tick t and emit at t+1; the settled value of an acyclic circuit is the fixpoint.
 * decider rows: `and` binds tighter than `or`; each/anything/everything range over the non-zero
   input signals of the rows' selected networks; `everything` over no signals is true, `anything` false.
 * an entity's circuit condition reads the sum of its red and green networks.
"""
from __future__ import annotations

from dataclasses import dataclass, field

WILDCARDS = ("signal-each", "signal-anything", "signal-everything")
COMBINATORS = ("arithmetic-combinator", "decider-combinator", "selector-combinator")
POLES = ("small-electric-pole", "medium-electric-pole", "big-electric-pole", "substation")


class Cyclic(Exception):
    pass


class Unsupported(Exception):
    pass


@dataclass
class Ent:
    num: int
    name: str
    kind: str
    desc: str
    pos: tuple
    cb: dict
    raw: dict


def _kind(name):
    if name == "constant-combinator":
        return "const"
    if name == "arithmetic-combinator":
        return "arith"
    if name == "decider-combinator":
        return "decider"
    if name in POLES:
        return "pole"
    if name == "selector-combinator":
        return "selector"
    return "other"


class Circuit:
    def __init__(self, bp: dict):
        b = bp.get("blueprint", bp)
        self.label = b.get("label")
        self.ents: dict[int, Ent] = {}
        for e in b.get("entities", []):
            pos = e.get("position", {})
            self.ents[e["entity_number"]] = Ent(
                e["entity_number"], e["name"], _kind(e["name"]), e.get("player_description", "") or "",
                (pos.get("x"), pos.get("y")), e.get("control_behavior", {}) or {}, e)
        self.wires = [tuple(w) for w in b.get("wires", [])]
        self._parent = {}
        # connectors that have a circuit wire.  ASSUMPTION (S4, cannot be checked offline): a wire from a connector to itself — what the
        # compiler emits for an entity whose condition reads its own report — is taken to form a one-entity network, as the compiler intends
        self.wired = set()
        for (e1, c1, e2, c2) in self.wires:
            if c1 in (5, 6) or c2 in (5, 6):
                continue
            self._union((e1, c1), (e2, c2))
            self.wired.add((e1, c1)), self.wired.add((e2, c2))

    # ------------------------------------------------------------------ union find
    def _find(self, x):
        p = self._parent.setdefault(x, x)
        while p != self._parent[p]:
            self._parent[p] = self._parent[self._parent[p]]
            p = self._parent[p]
        self._parent[x] = p
        return p

    def _union(self, a, b):
        ra, rb = self._find(a), self._find(b)
        if ra != rb:
            self._parent[ra] = rb

    def net(self, num, conn):
        """Network id of a connector (a connector without wires is its own network)."""
        return self._find((num, conn))

    @staticmethod
    def colour(conn):
        return "red" if conn in (1, 3) else "green"

    def in_conn(self, e: Ent, colour):
        return 1 if colour == "red" else 2

    def out_conn(self, e: Ent, colour):
        if e.kind in ("arith", "decider", "selector"):
            return 3 if colour == "red" else 4
        return 1 if colour == "red" else 2

    def members(self, netid):
        return [k for k in self._parent if self._find(k) == netid]

    def producers(self, netid):
        """Entities whose OUTPUT connector lies on the network."""
        out = []
        for (num, conn) in self.members(netid):
            e = self.ents.get(num)
            if e is None:
                continue
            if e.kind in ("arith", "decider", "selector"):
                if conn in (3, 4):
                    out.append(e)
            elif e.kind == "pole":
                continue
            else:
                out.append(e)
        return out

    def consumers(self, netid):
        out = []
        for (num, conn) in self.members(netid):
            e = self.ents.get(num)
            if e is None:
                continue
            if e.kind in ("arith", "decider", "selector"):
                if conn in (1, 2):
                    out.append(e)
            elif e.kind not in ("pole", "const"):
                out.append(e)
        return out

    def partition(self):
        """Canonical network partition: set of frozensets of (entity, connector)."""
        groups = {}
        for k in list(self._parent):
            groups.setdefault(self._find(k), set()).add(k)
        return {frozenset(v) for v in groups.values()}

    def combinators(self):
        return [e for e in self.ents.values() if e.kind in ("arith", "decider")]

    # ------------------------------------------------------------------ static description helpers
    def const_signals(self, e: Ent):
        """[(signal name, count)] of a constant combinator."""
        out = []
        secs = (e.cb.get("sections") or {}).get("sections") or []
        for s in secs:
            for f in s.get("filters", []) or []:
                if "name" in f:
                    out.append((f["name"], f.get("count", 0)))
        return out

    def is_anchor(self, e: Ent):
        return e.kind == "const" and "(output anchor)" in e.desc and not self.const_signals(e)

    def is_input(self, e: Ent):
        return e.kind == "const" and "(input)" in e.desc

    def signal_universe(self):
        u = set()
        for e in self.ents.values():
            if e.kind == "const":
                u.update(n for n, _ in self.const_signals(e))
            elif e.kind == "arith":
                ac = e.cb.get("arithmetic_conditions", {})
                for k in ("first_signal", "second_signal", "output_signal"):
                    if k in ac and ac[k]:
                        u.add(ac[k]["name"])
            elif e.kind == "decider":
                dc = e.cb.get("decider_conditions", {})
                for c in dc.get("conditions", []) or []:
                    for k in ("first_signal", "second_signal"):
                        if k in c and c[k]:
                            u.add(c[k]["name"])
                for o in dc.get("outputs", []) or []:
                    if o.get("signal"):
                        u.add(o["signal"]["name"])
            else:
                cc = e.cb.get("circuit_condition") or {}
                for k in ("first_signal", "second_signal"):
                    if k in cc and cc[k]:
                        u.add(cc[k]["name"])
        return {s for s in u if s not in WILDCARDS}


def _nets_sel(spec):
    """{red: bool, green: bool} with Factorio's default (both)."""
    spec = spec or {}
    return {"red": spec.get("red", True), "green": spec.get("green", True)}


class Evaluator:
    """Evaluates a Circuit with back end B.

    overrides: {(entity_num, signal): value}  — replaces the count of a constant-combinator filter
    free_outputs: {entity_num: {signal: value}} — what a non-combinator entity emits (chest contents…)
    state: for cyclic circuits, {entity_num: {signal: value}} = what each combinator emitted last tick
    """

    def __init__(self, circuit: Circuit, B, overrides=None, free_outputs=None, state=None):
        self.c = circuit
        self.B = B
        self.overrides = overrides or {}
        self.free_outputs = free_outputs or {}
        self.state = state
        self._out = {}
        self._busy = set()

    # ---------- sparse signal maps
    def _add(self, acc, sig, val):
        if sig in acc:
            acc[sig] = self.B.arith("+", acc[sig], val)
        else:
            acc[sig] = val

    def content(self, netid):
        acc = {}
        for p in self.c.producers(netid):
            for s, v in self.emitted(p).items():
                self._add(acc, s, v)
        return acc

    def visible(self, p: Ent, e: Ent):
        """Whether consumer e sees producer p on a shared network (always, in the real circuit; the ideal-isolation
        evaluator of the e2e judge restricts it to the compiler's own signal graph)."""
        return True

    def may_emit(self, p: Ent):
        """The signal names an entity can put on a wire, or None when that depends on its input (each / everything
        outputs).  Used to read ONE named signal without evaluating producers that cannot emit it: a combinator whose
        output sits on its own input network under another name is not a feedback loop."""
        if p.kind == "const":
            return {s for s, _ in self.c.const_signals(p)}
        if p.kind == "pole":
            return set()
        if p.kind == "other":
            return set(self.free_outputs.get(p.num, {}))
        if p.kind == "arith":
            osig = (p.cb.get("arithmetic_conditions", {}) or {}).get("output_signal")
            if osig is None:
                return set()
            return None if osig["name"] in WILDCARDS else {osig["name"]}
        if p.kind == "decider":
            names = set()
            for o in (p.cb.get("decider_conditions", {}) or {}).get("outputs", []) or []:
                n = (o.get("signal") or {}).get("name")
                if n is None or n in WILDCARDS:
                    return None
                names.add(n)
            return names
        return None

    def read_signal(self, e: Ent, sel, name):
        """The value of ONE named signal on the selected input colours of e (0 when nobody emits it)."""
        total = None
        for colour in ("red", "green"):
            if not sel[colour]:
                continue
            if e.kind == "other" and (e.num, self.c.in_conn(e, colour)) not in self.c.wired:
                continue   # a single-connector entity without a wire of this colour is on no network: it does not read its own report back
            n = self.c.net(e.num, self.c.in_conn(e, colour))
            for p in self.c.producers(n):
                if not self.visible(p, e):
                    continue
                me = self.may_emit(p)
                if me is not None and name not in me:
                    continue
                v = self.emitted(p).get(name)
                if v is not None:
                    total = v if total is None else self.B.arith("+", total, v)
        return total if total is not None else self.B.const(0)

    def read(self, e: Ent, sel):
        """Input of a combinator/entity under a network selection: sum of the selected colours."""
        acc = {}
        for colour in ("red", "green"):
            if not sel[colour]:
                continue
            if e.kind == "other" and (e.num, self.c.in_conn(e, colour)) not in self.c.wired:
                continue   # a single-connector entity without a wire of this colour is on no network: it does not read its own report back
            n = self.c.net(e.num, self.c.in_conn(e, colour))
            for s, v in self.content(n).items():
                self._add(acc, s, v)
        return acc

    def emitted(self, e: Ent):
        if e.num in self._out:
            return self._out[e.num]
        if e.kind == "const":
            out = {}
            for s, cnt in self.c.const_signals(e):
                v = self.overrides.get((e.num, s), self.B.const(cnt))
                self._add(out, s, v)
            self._out[e.num] = out
            return out
        if e.kind in ("pole",):
            return {}
        if e.kind == "other" or e.kind == "selector":
            if e.kind == "selector":
                raise Unsupported("selector combinator")
            out = dict(self.free_outputs.get(e.num, {}))
            self._out[e.num] = out
            return out
        if self.state is not None:
            return self.state.get(e.num, {})
        if e.num in self._busy:
            raise Cyclic(e.num)
        self._busy.add(e.num)
        try:
            out = self.compute(e)
        finally:
            self._busy.discard(e.num)
        self._out[e.num] = out
        return out

    def compute(self, e: Ent):
        if e.kind == "arith":
            return self._arith(e)
        if e.kind == "decider":
            return self._decider(e)
        raise Unsupported(e.kind)

    def step(self):
        """One tick of a (possibly cyclic) circuit from self.state -> new state."""
        assert self.state is not None
        return {e.num: self.compute(e) for e in self.c.combinators()}

    # ---------- arithmetic combinator
    def _arith(self, e: Ent):
        B = self.B
        ac = e.cb.get("arithmetic_conditions", {}) or {}
        op = ac.get("operation", "*")
        fs, ss, osig = ac.get("first_signal"), ac.get("second_signal"), ac.get("output_signal")
        if osig is None:
            return {}
        sel1 = _nets_sel(ac.get("first_signal_networks"))
        sel2 = _nets_sel(ac.get("second_signal_networks"))
        fname = fs["name"] if fs else None
        sname = ss["name"] if ss else None
        if osig["name"] not in WILDCARDS and fname not in WILDCARDS and sname not in WILDCARDS:
            # scalar arithmetic: each operand is ONE named signal (producers that cannot emit it are not evaluated)
            a = self.read_signal(e, sel1, fname) if fs else B.const(ac.get("first_constant") if ac.get("first_constant") is not None else 0)
            b = self.read_signal(e, sel2, sname) if ss else B.const(ac.get("second_constant") if ac.get("second_constant") is not None else 0)
            return {osig["name"]: B.arith(op, a, b)}
        in1 = self.read(e, sel1) if fs else {}
        in2 = self.read(e, sel2) if ss else {}

        def operand(sig, const, inp):
            if sig:
                return inp.get(sig["name"], B.const(0))
            return B.const(const if const is not None else 0)

        if fname == "signal-each" or sname == "signal-each":
            if fname == "signal-each" and sname == "signal-each":
                raise Unsupported("each on both operands")
            each_in = in1 if fname == "signal-each" else in2
            out = {}
            total = None
            for s, v in each_in.items():
                if fname == "signal-each":
                    r = B.arith(op, v, operand(ss, ac.get("second_constant"), in2))
                else:
                    r = B.arith(op, operand(fs, ac.get("first_constant"), in1), v)
                r = B.ite(B.nonzero(v), r, B.const(0))
                if osig["name"] == "signal-each":
                    out[s] = r
                else:
                    total = r if total is None else B.arith("+", total, r)
            if osig["name"] != "signal-each":
                return {osig["name"]: total} if total is not None else {}
            return out
        if osig["name"] in WILDCARDS or fname in WILDCARDS or sname in WILDCARDS:
            raise Unsupported("wildcard in scalar arithmetic")
        a = operand(fs, ac.get("first_constant"), in1)
        b = operand(ss, ac.get("second_constant"), in2)
        return {osig["name"]: B.arith(op, a, b)}

    def _plain_decider(self, e: Ent, conds, outs):
        """A decider without wildcards: every operand and every copied output is ONE named signal, read lazily
        (same semantics as the general case below: rows grouped by AND binding tighter than OR)."""
        B = self.B
        groups, cur = [], None
        for i, c in enumerate(conds):
            fs, ss = c.get("first_signal"), c.get("second_signal")
            first = self.read_signal(e, _nets_sel(c.get("first_signal_networks")), fs["name"]) if fs else B.const(0)
            second = self.read_signal(e, _nets_sel(c.get("second_signal_networks")), ss["name"]) if ss else B.const(c.get("constant", 0) or 0)
            t = B.cmp(c.get("comparator", "<"), first, second)
            if i == 0 or c.get("compare_type", "or") != "and":
                if cur is not None:
                    groups.append(cur)
                cur = [t]
            else:
                cur.append(t)
        groups.append(cur)
        truth = B.or_(*[B.and_(*g) for g in groups])
        out = {}
        for o in outs:
            osig = o["signal"]["name"]
            if o.get("copy_count_from_input", True):
                val = self.read_signal(e, _nets_sel(o.get("networks")), osig)
            else:
                val = B.const(o.get("constant", 1))
            self._add(out, osig, B.ite(truth, val, B.const(0)))
        return out

    # ---------- decider combinator
    def _decider(self, e: Ent):
        B = self.B
        dc = e.cb.get("decider_conditions", {}) or {}
        conds = dc.get("conditions", []) or []
        outs = dc.get("outputs", []) or []
        if not conds:
            return {}
        rows = []
        uses_each = False
        all_inputs = {}
        names = [((c.get(k) or {}).get("name")) for c in conds for k in ("first_signal", "second_signal")] + [((o.get("signal") or {}).get("name")) for o in outs]
        if not any(n in WILDCARDS for n in names if n):
            return self._plain_decider(e, conds, outs)
        for c in conds:
            fs, ss = c.get("first_signal"), c.get("second_signal")
            sel1 = _nets_sel(c.get("first_signal_networks"))
            sel2 = _nets_sel(c.get("second_signal_networks"))
            in1 = self.read(e, sel1)
            in2 = self.read(e, sel2) if ss else {}
            rows.append((fs, ss, c.get("constant", 0), c.get("comparator", "<"), c.get("compare_type", "or"), in1, in2))
            if fs and fs["name"] == "signal-each":
                uses_each = True
            if ss and ss["name"] in WILDCARDS:
                raise Unsupported("wildcard as second operand")
        full_in = self.read(e, {"red": True, "green": True})

        def row_truth(row, each_sig):
            fs, ss, const, cmp_, _ct, in1, in2 = row
            second = in2.get(ss["name"], B.const(0)) if ss else B.const(const or 0)
            if fs is None:
                return B.cmp(cmp_, B.const(0), second)
            n = fs["name"]
            if n == "signal-each":
                return B.cmp(cmp_, in1.get(each_sig, B.const(0)), second)
            if n == "signal-anything":
                return B.or_(*[B.and_(B.nonzero(v), B.cmp(cmp_, v, second)) for v in in1.values()]) if in1 else B.false()
            if n == "signal-everything":
                return B.and_(*[B.or_(B.not_(B.nonzero(v)), B.cmp(cmp_, v, second)) for v in in1.values()]) if in1 else B.true()
            return B.cmp(cmp_, in1.get(n, B.const(0)), second)

        def whole(each_sig):
            groups = []
            cur = None
            for i, row in enumerate(rows):
                t = row_truth(row, each_sig)
                if i == 0 or row[4] != "and":
                    if cur is not None:
                        groups.append(cur)
                    cur = [t]
                else:
                    cur.append(t)
            groups.append(cur)
            return B.or_(*[B.and_(*g) for g in groups])

        out = {}

        def emit(sig, val, cond):
            v = B.ite(cond, val, B.const(0))
            self._add(out, sig, v)

        if uses_each:
            each_in = {}
            for row in rows:
                if row[0] and row[0]["name"] == "signal-each":
                    for s in row[5]:
                        each_in.setdefault(s, row[5][s])
            for s, v in each_in.items():
                passed = B.and_(B.nonzero(v), whole(s))
                for o in outs:
                    osig = o["signal"]["name"]
                    copy = o.get("copy_count_from_input", True)
                    osel = _nets_sel(o.get("networks"))
                    src = self.read(e, osel)
                    if osig == "signal-each":
                        val = src.get(s, B.const(0)) if copy else B.const(o.get("constant", 1))
                        emit(s, val, passed)
                    elif osig in WILDCARDS:
                        raise Unsupported("each condition with anything/everything output")
                    else:
                        val = src.get(s, B.const(0)) if copy else B.const(o.get("constant", 1))
                        emit(osig, val, passed)
            return out
        truth = whole(None)
        for o in outs:
            osig = o["signal"]["name"]
            copy = o.get("copy_count_from_input", True)
            osel = _nets_sel(o.get("networks"))
            src = self.read(e, osel)
            if osig == "signal-everything":
                for s, v in src.items():
                    emit(s, v if copy else B.const(o.get("constant", 1)), B.and_(truth, B.nonzero(v)))
            elif osig == "signal-anything":
                raise Unsupported("anything output")
            elif osig == "signal-each":
                raise Unsupported("each output without each condition")
            else:
                val = src.get(osig, B.const(0)) if copy else B.const(o.get("constant", 1))
                emit(osig, val, truth)
        return out

    # ---------- entity circuit condition
    def condition(self, e: Ent):
        """Truth of a non-combinator entity's circuit condition (None if it has none)."""
        B = self.B
        cc = e.cb.get("circuit_condition")
        if not cc:
            return None
        inp = self.read(e, {"red": True, "green": True})
        fs, ss = cc.get("first_signal"), cc.get("second_signal")
        second = inp.get(ss["name"], B.const(0)) if ss else B.const(cc.get("constant", 0))
        cmp_ = cc.get("comparator", "<")
        if fs is None:
            return B.cmp(cmp_, B.const(0), second)
        n = fs["name"]
        if n == "signal-anything":
            return B.or_(*[B.and_(B.nonzero(v), B.cmp(cmp_, v, second)) for v in inp.values()]) if inp else B.false()
        if n == "signal-everything":
            return B.and_(*[B.or_(B.not_(B.nonzero(v)), B.cmp(cmp_, v, second)) for v in inp.values()]) if inp else B.true()
        return B.cmp(cmp_, inp.get(n, B.const(0)), second)

    def anchor_content(self, e: Ent):
        """All signals on the networks of an (anchor) entity, summed over red and green."""
        return self.read(e, {"red": True, "green": True})
