"""Numeric back ends for the circuit model (S2) and the source semantics (S3): concrete int32 and
z3 bit-vectors of width 32.  Both implement Factorio's combinator arithmetic (S1); `selfcheck`
compares them with spec.arith32.fa_ref on boundary points."""
from __future__ import annotations

import z3

from .arith32 import I32_MAX, I32_MIN, _to_i32, fa_ref


_BVPOW = z3.Function("bvpow", z3.BitVecSort(32), z3.BitVecSort(32), z3.BitVecSort(32))


class Concrete:
    name = "concrete"

    def const(self, n):
        return _to_i32(int(n))

    def is_const(self, a):
        return True

    def value(self, a):
        return a

    def arith(self, op, a, b):
        if op in ("^",):
            op = "**"
        if op == "&":
            op = "AND"
        if op == "|":
            op = "OR"
        if op in ("<<", ">>"):
            b = b & 31
        if op == "**":
            if b < 0:
                return 0
            return _to_i32(pow(a, b, 1 << 32))
        return fa_ref(op, a, b)

    def cmp(self, op, a, b):
        return {"=": a == b, "==": a == b, "!=": a != b, "≠": a != b, "<": a < b, "<=": a <= b, "≤": a <= b,
                ">": a > b, ">=": a >= b, "≥": a >= b}[op]

    def ite(self, c, a, b):
        return a if c else b

    def and_(self, *xs):
        return all(xs)

    def or_(self, *xs):
        return any(xs)

    def not_(self, x):
        return not x

    def nonzero(self, a):
        return a != 0

    def true(self):
        return True

    def false(self):
        return False

    def b2i(self, c):
        return 1 if c else 0

    def sum(self, xs):
        r = 0
        for x in xs:
            r = _to_i32(r + x)
        return r

    def eq(self, a, b):
        return a == b


class Symbolic:
    """z3 BitVec(32).  Python ints are accepted as operands and lifted."""

    name = "z3-bv32"
    W = 32
    pow_uninterpreted = True

    def const(self, n):
        return z3.BitVecVal(int(n), 32)

    def var(self, name):
        return z3.BitVec(name, 32)

    def lift(self, a):
        return a if isinstance(a, z3.ExprRef) else z3.BitVecVal(int(a), 32)

    def is_const(self, a):
        return not isinstance(a, z3.ExprRef) or z3.is_bv_value(z3.simplify(a))

    def value(self, a):
        if not isinstance(a, z3.ExprRef):
            return a
        return z3.simplify(a).as_signed_long()

    def arith(self, op, a, b):
        a, b = self.lift(a), self.lift(b)
        if op == "+":
            return a + b
        if op == "-":
            return a - b
        if op == "*":
            return a * b
        if op == "/":
            # bvsdiv truncates toward zero; INT_MIN / -1 wraps to INT_MIN; x / 0 := 0
            return z3.If(b == 0, z3.BitVecVal(0, 32), a / b)
        if op == "%":
            return z3.If(b == 0, z3.BitVecVal(0, 32), z3.SRem(a, b))
        if op in ("**", "^") and not (z3.is_bv_value(a) and z3.is_bv_value(b)) and self.pow_uninterpreted:
            # power is kept uninterpreted in equivalence queries (same operands => same result);
            # a model that relies on its interpretation is re-checked concretely by the caller
            return _BVPOW(a, b)
        if op in ("**", "^"):
            # square-and-multiply over the 32 exponent bits; negative exponent := 0
            res = z3.BitVecVal(1, 32)
            base = a
            for k in range(31):
                res = z3.If(z3.Extract(k, k, b) == 1, res * base, res)
                base = base * base
            return z3.If(b < 0, z3.BitVecVal(0, 32), res)
        if op == "<<":
            return a << (b & 31)
        if op == ">>":
            return a >> (b & 31)  # z3 >> on BitVecRef is arithmetic
        if op in ("AND", "&"):
            return a & b
        if op in ("OR", "|"):
            return a | b
        if op == "XOR":
            return a ^ b
        raise KeyError(op)

    def cmp(self, op, a, b):
        a, b = self.lift(a), self.lift(b)
        if op in ("=", "=="):
            return a == b
        if op in ("!=", "≠"):
            return a != b
        if op == "<":
            return a < b
        if op in ("<=", "≤"):
            return a <= b
        if op == ">":
            return a > b
        if op in (">=", "≥"):
            return a >= b
        raise KeyError(op)

    def _b(self, c):
        return c if isinstance(c, z3.ExprRef) else z3.BoolVal(bool(c))

    def ite(self, c, a, b):
        if isinstance(c, bool):
            return a if c else b
        if isinstance(a, (bool,)) or isinstance(b, bool) or (isinstance(a, z3.ExprRef) and z3.is_bool(a)):
            return z3.If(c, self._b(a), self._b(b))
        return z3.If(c, self.lift(a), self.lift(b))

    def and_(self, *xs):
        xs = [self._b(x) for x in xs]
        return z3.And(*xs) if xs else z3.BoolVal(True)

    def or_(self, *xs):
        xs = [self._b(x) for x in xs]
        return z3.Or(*xs) if xs else z3.BoolVal(False)

    def not_(self, x):
        return z3.Not(self._b(x))

    def nonzero(self, a):
        return self.lift(a) != 0

    def true(self):
        return z3.BoolVal(True)

    def false(self):
        return z3.BoolVal(False)

    def b2i(self, c):
        return z3.If(self._b(c), z3.BitVecVal(1, 32), z3.BitVecVal(0, 32))

    def sum(self, xs):
        r = z3.BitVecVal(0, 32)
        for x in xs:
            r = r + self.lift(x)
        return r

    def eq(self, a, b):
        return self.lift(a) == self.lift(b)


def selfcheck():
    """Concrete vs symbolic back end vs S1 reference on boundary points."""
    from .arith32 import ARITH_OPS, BOUNDARY
    C, S = Concrete(), Symbolic()
    S.pow_uninterpreted = False
    n = 0
    for op in ARITH_OPS:
        for a in BOUNDARY:
            for b in BOUNDARY[:18]:
                if op in ("<<", ">>") and not 0 <= b <= 31:
                    continue
                if op == "**" and not 0 <= b <= 40:
                    continue
                c = C.arith(op, a, b)
                s = S.value(S.arith(op, a, b))
                assert c == s == fa_ref(op, a, b), (op, a, b, c, s)
                n += 1
    return n


if __name__ == "__main__":
    print("num selfcheck:", selfcheck())
