"""S1 — signed 32-bit arithmetic of Factorio combinators (trusted specification).

`fa(op, a, b)` is the value an arithmetic combinator computes for int32 operands a, b.  Source:
property C11's statement: wrap-around for + - * << **, division truncating toward zero, remainder
with the sign of the dividend, zero for division/remainder by zero, arithmetic right shift.
Written once over spec.ops so that it is both a z3 term builder (mathematical integers) and an
executable function.

Shift amounts: Factorio masks the shift amount to 5 bits (x << 33 == x << 1).  The property
statement fixes nothing outside 0..31, so contracts using `fa` for shifts carry the premise
0 <= b <= 31 and say nothing outside it.
"""
from __future__ import annotations

import z3

from . import ops
from .ops import Iff, Not, Or, absv, b2i, ite, tdiv, trem

I32_MIN = -(2**31)
I32_MAX = 2**31 - 1
TWO32 = 2**32

ARITH_OPS = ("+", "-", "*", "/", "%", "**", "<<", ">>", "AND", "OR", "XOR")
CMP_OPS = ("==", "!=", "<", "<=", ">", ">=")
LOGIC_OPS = ("&&", "||")


def i32(x):
    return ops.And(x >= I32_MIN, x <= I32_MAX)


def wrap32(x):
    """Two's-complement wrap of a mathematical integer into int32."""
    return ((x + 2**31) % TWO32) - 2**31  # Python % and z3 mod agree for a positive modulus


def _bv(x):
    return z3.Int2BV(x, 32) if ops.is_sym(x) else x


def bitop(op, a, b):
    """32-bit AND/OR/XOR of two int32 values, result as a mathematical int32."""
    if ops.is_sym(a) or ops.is_sym(b):
        a = a if ops.is_sym(a) else z3.IntVal(a)
        b = b if ops.is_sym(b) else z3.IntVal(b)
        x, y = z3.Int2BV(a, 32), z3.Int2BV(b, 32)
        r = {"AND": x & y, "OR": x | y, "XOR": x ^ y}[op]
        return z3.BV2Int(r, is_signed=True)
    r = {"AND": a & b, "OR": a | b, "XOR": a ^ b}[op]
    return wrap32(r)


def pow_spec(a, b, powf=None):
    """a ** b for b >= 0 as a mathematical integer.

    Concrete: Python's exact integer power.  Symbolic: the uninterpreted `powf` supplied by the
    caller (pyvc axiomatises it on demand); small literal exponents are unfolded.
    """
    if not ops.is_sym(a) and not ops.is_sym(b):
        return a**b
    if powf is None:
        raise ValueError("symbolic power needs an uninterpreted pow")
    return powf(a if ops.is_sym(a) else z3.IntVal(a), b if ops.is_sym(b) else z3.IntVal(b))


def shl_table(a, b):
    """a * 2**b for 0 <= b <= 31 (mathematical)."""
    if not ops.is_sym(b):
        return a * (1 << b)
    r = a * (1 << 31)
    for k in range(30, -1, -1):
        r = z3.If(b == k, a * (1 << k), r)
    return r


def shr_table(a, b):
    """floor(a / 2**b) for 0 <= b <= 31."""
    if not ops.is_sym(b):
        return ops.floordiv(a, 1 << b)
    r = ops.floordiv(a, 1 << 31)
    for k in range(30, -1, -1):
        r = z3.If(b == k, ops.floordiv(a, 1 << k), r)
    return r


def fa(op: str, a, b, powf=None):
    """Run-time value of `a op b` on int32 operands (op is a concrete tag)."""
    if op == "+":
        return wrap32(a + b)
    if op == "-":
        return wrap32(a - b)
    if op == "*":
        return wrap32(a * b)
    if op == "/":
        return ite(b == 0, 0, wrap32(tdiv(a, ite(b == 0, 1, b))))
    if op == "%":
        return ite(b == 0, 0, trem(a, ite(b == 0, 1, b)))
    if op in ("**", "^"):
        return wrap32(pow_spec(a, b, powf))  # premise b >= 0 is the caller's
    if op == "<<":
        return wrap32(shl_table(a, b))  # premise 0 <= b <= 31
    if op == ">>":
        return shr_table(a, b)  # premise 0 <= b <= 31
    if op in ("AND", "&"):
        return bitop("AND", a, b)
    if op in ("OR", "|"):
        return bitop("OR", a, b)
    if op == "XOR":
        return bitop("XOR", a, b)
    raise KeyError(op)


def cmp(op: str, a, b):
    """Truth value (spec-level bool) of a comparison."""
    if op in ("==", "="):
        return a == b
    if op in ("!=", "≠"):
        return a != b
    if op == "<":
        return a < b
    if op in ("<=", "≤"):
        return a <= b
    if op == ">":
        return a > b
    if op in (">=", "≥"):
        return a >= b
    raise KeyError(op)


def logic(op: str, a, b):
    if op == "&&":
        return ops.And(a != 0, b != 0)
    if op == "||":
        return ops.Or(a != 0, b != 0)
    raise KeyError(op)


def fa_any(op: str, a, b, powf=None):
    """Value of any binary operator of the language on int32 operands (comparisons -> 0/1)."""
    if op in CMP_OPS:
        return b2i(cmp(op, a, b))
    if op in LOGIC_OPS:
        return b2i(logic(op, a, b))
    return fa(op, a, b, powf)


# ---- executable reference on Python ints, written independently (bit-vector style) -------------


def _to_u32(x: int) -> int:
    return x & 0xFFFFFFFF


def _to_i32(x: int) -> int:
    x &= 0xFFFFFFFF
    return x - TWO32 if x >= 2**31 else x


def fa_ref(op: str, a: int, b: int) -> int:
    """Independent executable reference (C-like semantics) used only by selfcheck()."""
    if op == "+":
        return _to_i32(a + b)
    if op == "-":
        return _to_i32(a - b)
    if op == "*":
        return _to_i32(a * b)
    if op == "/":
        if b == 0:
            return 0
        q = abs(a) // abs(b)
        return _to_i32(q if (a < 0) == (b < 0) else -q)
    if op == "%":
        if b == 0:
            return 0
        r = abs(a) % abs(b)
        return -r if a < 0 else r
    if op == "**":
        return _to_i32(pow(a, b))
    if op == "<<":
        return _to_i32(a << b)
    if op == ">>":
        return a >> b
    if op == "AND":
        return _to_i32(_to_u32(a) & _to_u32(b))
    if op == "OR":
        return _to_i32(_to_u32(a) | _to_u32(b))
    if op == "XOR":
        return _to_i32(_to_u32(a) ^ _to_u32(b))
    raise KeyError(op)


BOUNDARY = [0, 1, -1, 2, -2, 3, -3, 7, -7, 10, -10, 31, 32, 33, 255, 256, 65535, 65536, -65536,
            46340, 46341, -46341, 2**30, -(2**30), 2**31 - 1, -(2**31), 2**31 - 2, -(2**31) + 1,
            123456789, -987654321]


def selfcheck(n_random: int = 2000, seed: int = 0) -> int:
    """Twin agreement: fa over Python ints == fa_ref; z3-mode fa == Python-mode fa on points.

    Returns the number of comparisons made; raises AssertionError on disagreement.
    """
    import random

    rnd = random.Random(seed)
    pts = [(a, b) for a in BOUNDARY for b in BOUNDARY]
    pts += [(rnd.randint(I32_MIN, I32_MAX), rnd.randint(I32_MIN, I32_MAX)) for _ in range(n_random)]
    pts += [(rnd.randint(I32_MIN, I32_MAX), rnd.randint(-40, 40)) for _ in range(n_random)]
    n = 0
    for a, b in pts:
        for op in ARITH_OPS:
            if op in ("<<", ">>") and not (0 <= b <= 31):
                continue
            if op == "**" and not (0 <= b <= 64):
                continue
            assert fa(op, a, b) == fa_ref(op, a, b), (op, a, b, fa(op, a, b), fa_ref(op, a, b))
            n += 1
    # z3 mode on a sample (substitute values, simplify)
    A, B = z3.Ints("A B")
    for op in ARITH_OPS:
        if op == "**":
            continue
        term = fa(op, A, B)
        for a, b in pts[:: max(1, len(pts) // 150)]:
            if op in ("<<", ">>") and not (0 <= b <= 31):
                continue
            v = z3.simplify(z3.substitute(term, (A, z3.IntVal(a)), (B, z3.IntVal(b))))
            assert v.as_long() == fa_ref(op, a, b), (op, a, b, v, fa_ref(op, a, b))
            n += 1
    # floor division / modulo encoders against CPython
    for a, b in pts:
        if b == 0:
            continue
        v = z3.simplify(z3.substitute(ops.floordiv(A, B), (A, z3.IntVal(a)), (B, z3.IntVal(b))))
        m = z3.simplify(z3.substitute(ops.floormod(A, B), (A, z3.IntVal(a)), (B, z3.IntVal(b))))
        assert v.as_long() == a // b and m.as_long() == a % b, (a, b, v, m)
        n += 2
    return n


if __name__ == "__main__":
    print("arith32 selfcheck comparisons:", selfcheck())
