"""S5 — the documented meaning of every function of lib/math.facto (doc/LIBRARY_REFERENCE.md and the
comments in the file), as predicates over 32-bit bit-vector arguments and result.

Each entry: (parameter count, precondition(args) , postcondition(args, res)).  The precondition is "the
documented formula does not overflow" (+ the documented domain: low <= high, 0 <= pos <= 31, b != 0).
Formulas are written independently of the library text (64-bit arithmetic where the mathematical
definition needs products)."""
from __future__ import annotations

import z3

INT_MIN = z3.BitVecVal(-(2**31), 32)


def _sx(x):
    return z3.SignExt(32, x)


def _fits(x64):
    """a 64-bit value is representable in 32 bits"""
    return x64 == z3.SignExt(32, z3.Extract(31, 0, x64))


def _ite(c, a, b):
    return z3.If(c, a, b)


def _bit(x, pos):
    """bit `pos` of x as Bool (logical shift)"""
    return z3.Extract(0, 0, z3.LShR(x, pos)) == 1


def _pos_ok(pos):
    return z3.And(pos >= 0, pos <= 31)


def _floor_div_def(a, b, res):
    """res == floor(a / b) in the mathematical integers (64-bit products cannot overflow)."""
    A, Bv, R = _sx(a), _sx(b), _sx(res)
    return z3.If(Bv > 0, z3.And(R * Bv <= A, A < (R + 1) * Bv), z3.And(R * Bv >= A, A > (R + 1) * Bv))


def _abs64(x):
    X = _sx(x)
    return z3.If(X < 0, -X, X)


DOCS = {
    "abs": (1, lambda x: x != INT_MIN, lambda x, r: r == _ite(x < 0, -x, x)),
    "sign": (1, lambda x: z3.BoolVal(True), lambda x, r: r == _ite(x < 0, z3.BitVecVal(-1, 32), _ite(x == 0, z3.BitVecVal(0, 32), z3.BitVecVal(1, 32)))),
    "min": (2, lambda a, b: z3.BoolVal(True), lambda a, b, r: z3.And(r <= a, r <= b, z3.Or(r == a, r == b))),
    "max": (2, lambda a, b: z3.BoolVal(True), lambda a, b, r: z3.And(r >= a, r >= b, z3.Or(r == a, r == b))),
    "clamp": (3, lambda x, lo, hi: lo <= hi,
              lambda x, lo, hi, r: r == _ite(x < lo, lo, _ite(x > hi, hi, x))),
    # a + (b - a) * t / 100 (truncating division).  Premise: no step of the documented formula overflows
    # (stated in 64 bits); under that premise 32-bit and mathematical arithmetic coincide, so the
    # conclusion is stated in 32 bits (the 64-bit form is beyond the solver's budget: measured timeout 60 s).
    "lerp": (3, lambda a, b, t: z3.And(_fits(_sx(b) - _sx(a)), _fits((_sx(b) - _sx(a)) * _sx(t)),
                                      _fits(_sx(a) + ((_sx(b) - _sx(a)) * _sx(t)) / z3.BitVecVal(100, 64))),
             lambda a, b, t, r: r == a + ((b - a) * t) / z3.BitVecVal(100, 32)),
    "between": (3, lambda x, lo, hi: z3.BoolVal(True),
                lambda x, lo, hi, r: r == _ite(z3.And(lo <= x, x <= hi), z3.BitVecVal(1, 32), z3.BitVecVal(0, 32))),
    "get_bit": (2, lambda v, p: _pos_ok(p), lambda v, p, r: r == _ite(_bit(v, p), z3.BitVecVal(1, 32), z3.BitVecVal(0, 32))),
    "set_bit": (2, lambda v, p: _pos_ok(p),
                lambda v, p, r: z3.And(_bit(r, p), z3.ForAll([_K], z3.Implies(z3.And(_K >= 0, _K <= 31, _K != p), _bit(r, _K) == _bit(v, _K))))),
    "clear_bit": (2, lambda v, p: _pos_ok(p),
                  lambda v, p, r: z3.And(z3.Not(_bit(r, p)), z3.ForAll([_K], z3.Implies(z3.And(_K >= 0, _K <= 31, _K != p), _bit(r, _K) == _bit(v, _K))))),
    "toggle_bit": (2, lambda v, p: _pos_ok(p),
                   lambda v, p, r: z3.And(_bit(r, p) != _bit(v, p), z3.ForAll([_K], z3.Implies(z3.And(_K >= 0, _K <= 31, _K != p), _bit(r, _K) == _bit(v, _K))))),
    # floor(a/b) = trunc(a/b) - [remainder != 0 and remainder, divisor have different signs]  (identity
    # cross-checked against Python's // on boundary pairs by selfcheck(); the direct 64-bit definition
    # _floor_div_def times out in the solver)
    "div_floor": (2, lambda a, b: z3.And(b != 0, z3.Not(z3.And(a == INT_MIN, b == -1))),
                  lambda a, b, r: r == (a / b) - _ite(z3.And(z3.SRem(a, b) != 0, (z3.SRem(a, b) < 0) != (b < 0)),
                                                      z3.BitVecVal(1, 32), z3.BitVecVal(0, 32))),
    # "a % b, but always positive": the result is congruent to the combinator remainder a % b modulo |b|
    # (it is that remainder, or that remainder + |b|) and lies in [0, |b|)
    "mod_positive": (2, lambda a, b: z3.And(b != 0, b != INT_MIN),
                     lambda a, b, r: z3.And(r >= 0, _sx(r) < _abs64(b),
                                            z3.Or(r == z3.SRem(a, b), _sx(r) == _sx(z3.SRem(a, b)) + _abs64(b)))),
}

_K = z3.BitVec("k_bit", 32)


def selfcheck():
    """The floor-division identity used for div_floor, against Python's // on boundary pairs."""
    from .arith32 import BOUNDARY
    n = 0
    for a in BOUNDARY:
        for b in BOUNDARY:
            if b == 0 or (a == -(2**31) and b == -1):
                continue
            q = abs(a) // abs(b)
            q = q if (a < 0) == (b < 0) else -q
            r = a - b * q
            fl = q - (1 if (r != 0 and (r < 0) != (b < 0)) else 0)
            assert fl == a // b, (a, b, fl, a // b)
            n += 1
    return n
