"""Generic operators used by every specification function and contract clause.

One definition, two uses: every helper dispatches on whether its arguments are z3 terms or plain
Python values.  The same contract text is therefore (a) turned into a verification condition by
pyvc and (b) evaluated on concrete values when a counterexample is replayed against the real
function ("executable twin").  `selfcheck()` in spec/arith32.py cross-checks both modes.
"""
from __future__ import annotations

import z3


def is_sym(x) -> bool:
    return isinstance(x, z3.ExprRef)


def _any_sym(*xs) -> bool:
    return any(is_sym(x) for x in xs)


def _b(x):
    """Python/z3 truthiness of a spec-level boolean."""
    if is_sym(x):
        if z3.is_bool(x):
            return x
        if z3.is_int(x) or z3.is_bv(x):
            return x != 0
        raise TypeError(f"not a boolean term: {x}")
    return bool(x)


def ite(c, a, b):
    if is_sym(c):
        if not is_sym(a) and not is_sym(b) and isinstance(a, bool) and isinstance(b, bool):
            return z3.If(c, z3.BoolVal(a), z3.BoolVal(b))
        return z3.If(c, _lift(a, b), _lift(b, a))
    return a if c else b


def _lift(a, other):
    if is_sym(a):
        return a
    if isinstance(a, bool):
        if is_sym(other) and z3.is_int(other):
            return z3.IntVal(int(a))
        return z3.BoolVal(a)
    if isinstance(a, int):
        if is_sym(other) and z3.is_bv(other):
            return z3.BitVecVal(a, other.size())
        if is_sym(other) and z3.is_real(other):
            return z3.RealVal(a)
        return z3.IntVal(a)
    if isinstance(a, str):
        return z3.StringVal(a)
    if isinstance(a, float):
        return z3.RealVal(a)
    raise TypeError(f"cannot lift {a!r}")


def And(*xs):
    xs = [_b(x) for x in xs]
    if _any_sym(*xs):
        return z3.And(*[x if is_sym(x) else z3.BoolVal(x) for x in xs])
    return all(xs)


def Or(*xs):
    xs = [_b(x) for x in xs]
    if _any_sym(*xs):
        return z3.Or(*[x if is_sym(x) else z3.BoolVal(x) for x in xs])
    return any(xs)


def Not(x):
    x = _b(x)
    return z3.Not(x) if is_sym(x) else (not x)


def Implies(a, b):
    a, b = _b(a), _b(b)
    if _any_sym(a, b):
        return z3.Implies(a if is_sym(a) else z3.BoolVal(a), b if is_sym(b) else z3.BoolVal(b))
    return (not a) or b


def Iff(a, b):
    a, b = _b(a), _b(b)
    if _any_sym(a, b):
        return (a if is_sym(a) else z3.BoolVal(a)) == (b if is_sym(b) else z3.BoolVal(b))
    return a == b


def eq(a, b):
    """Python `==` at spec level (None, ints, strings, bools)."""
    if a is None or b is None:
        if is_sym(a) or is_sym(b):
            return False
        return a is None and b is None
    if _any_sym(a, b):
        if is_sym(a) and is_sym(b) and a.sort() != b.sort():
            if z3.is_bool(a):
                a = z3.If(a, z3.IntVal(1), z3.IntVal(0))
            if z3.is_bool(b):
                b = z3.If(b, z3.IntVal(1), z3.IntVal(0))
        if is_sym(a) and z3.is_bool(a) and isinstance(b, int) and not isinstance(b, bool):
            a = z3.If(a, z3.IntVal(1), z3.IntVal(0))
        if is_sym(b) and z3.is_bool(b) and isinstance(a, int) and not isinstance(a, bool):
            b = z3.If(b, z3.IntVal(1), z3.IntVal(0))
        return a == b
    return a == b


def b2i(x):
    """bool -> 0/1"""
    x = _b(x)
    if is_sym(x):
        return z3.If(x, z3.IntVal(1), z3.IntVal(0))
    return 1 if x else 0


def absv(x):
    return ite(x < 0, -x, x)


def pow2(k: int) -> int:
    return 1 << k


def floordiv(a, b):
    """Python `//` for b != 0 (mathematical floor)."""
    if _any_sym(a, b):
        a, b = _lift(a, b), _lift(b, a)
        # z3 `div` is Euclidean: a = b*q + r with 0 <= r < |b|.
        # floor(a/b) = a div b          if b > 0
        #            = -((-a) div (-b))... simpler: for b < 0, floor(a/b) = floor((-a)/(-b)) = (-a) div (-b)
        return z3.If(b > 0, a / b, (-a) / (-b))
    return a // b


def floormod(a, b):
    """Python `%` for b != 0 (sign of the divisor)."""
    if _any_sym(a, b):
        a, b = _lift(a, b), _lift(b, a)
        return a - b * floordiv(a, b)
    return a % b


def tdiv(a, b):
    """Division truncating toward zero, b != 0."""
    q = floordiv(absv(a), absv(b))
    return ite(Iff(a < 0, b < 0), q, -q)


def trem(a, b):
    """Remainder with the sign of the dividend, b != 0."""
    return a - b * tdiv(a, b)


def forall_range(lo, hi, fn, name="k"):
    """forall k. lo <= k < hi => fn(k)"""
    if _any_sym(lo, hi):
        k = z3.FreshInt(name)
        body = fn(k)
        body = body if is_sym(body) else z3.BoolVal(bool(body))
        return z3.ForAll([k], z3.Implies(z3.And(k >= lo, k < hi), body))
    res = [fn(k) for k in range(lo, hi)]
    if _any_sym(*res):
        return And(*res)
    return all(res)


def length(xs):
    if hasattr(xs, "sym_len"):
        return xs.sym_len()
    return len(xs)


def at(xs, i):
    if hasattr(xs, "sym_at"):
        return xs.sym_at(i)
    if is_sym(i):
        r = xs[-1] if len(xs) else 0
        for k in range(len(xs) - 2, -1, -1):
            r = ite(i == k, xs[k], r)
        return r
    if not 0 <= i < len(xs):
        return 0  # out of range: only ever used under a guard that excludes it (total function for specs)
    return xs[i]


def is_none(x):
    if hasattr(x, "sym_is_none"):
        return x.sym_is_none()
    return x is None
