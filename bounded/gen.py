"""Structural enumeration of small Facto programs (B-enum scopes; enumeration, not sampling)."""
from __future__ import annotations

import itertools

ARITH = ["+", "-", "*", "/", "%", "**", "<<", ">>", "AND", "OR", "XOR"]
CMP = ["==", "!=", "<", "<=", ">", ">="]
LOGIC = ["&&", "||"]

# leaf alphabet: name -> (declaration or None, expression text)
LEAVES = {
    "x": ('Signal x = ("signal-A", 6);', "x"),          # typed input on signal-A
    "y": ('Signal y = ("signal-B", 4);', "y"),          # typed input on signal-B
    "z": ('Signal z = ("signal-A", 9);', "z"),          # second input on x's signal
    "w": ("Signal w = 5;", "w"),                        # untyped input
    "k3": (None, "3"),
    "km2": (None, "-2"),
    "k0": (None, "0"),
    "ip": ('Signal ip = ("iron-plate", 11);', "ip"),    # item signal
}


def program(expr_text, used, result_type="Signal", extra_decls=(), name="r"):
    decls = [LEAVES[u][0] for u in sorted(used) if LEAVES[u][0]]
    return "\n".join(list(decls) + list(extra_decls) + [f"{result_type} {name} = {expr_text};"]) + "\n"


def binary_programs(leaf_pairs, ops):
    for (a, b) in leaf_pairs:
        for op in ops:
            e = f"{LEAVES[a][1]} {op} {LEAVES[b][1]}"
            if LEAVES[a][0] is None and LEAVES[b][0] is None:
                continue  # pure int expression: not a Signal computation (C11 covers folding)
            yield f"bin:{a}{op}{b}", program(e, {a, b})


def unary_programs(leaves):
    for a in leaves:
        for op in ("-", "!"):
            yield f"un:{op}{a}", program(f"{op}{LEAVES[a][1]}", {a})


def projection_programs(leaves):
    for a in leaves:
        for t in ("signal-C", "signal-A", "iron-plate"):
            yield f"proj:{a}|{t}", program(f'{LEAVES[a][1]} | "{t}"', {a})
    yield "proj:x|y.type", program("x | y.type", {"x", "y"})
    yield "lit:(y.type,x)", program("(y.type, 7) + x", {"x", "y"})


def outspec_programs():
    conds = ["x > 3", "x == y", "y <= 4", "x > 3 && y < 9", "x < 2 || y >= 4", "w != 0"]
    outs = ["y", "x", "7", "1", "w", "z"]
    for c, o in itertools.product(conds, outs):
        used = {u for u in ("x", "y", "z", "w") if u in (c + " " + o).replace("&&", " ").split() or f"{u} " in c + " " or c.startswith(u) or o == u}
        used = {u for u in ("x", "y", "z", "w") if _mentions(c, u) or _mentions(o, u)}
        yield f"spec:({c}):{o}", program(f"({c}) : {o}", used)


def _mentions(text, name):
    import re
    return re.search(rf"\b{name}\b", text) is not None


def nested_programs(ops_outer, ops_inner, leaves=("x", "y", "k3")):
    """depth-2 trees: (a op1 b) op2 c and a op2 (b op1 c) — exercises precedence/assoc. when printed
    WITHOUT redundant parentheses in the second family."""
    for o1 in ops_inner:
        for o2 in ops_outer:
            for (a, b, c) in (("x", "y", "k3"), ("x", "k3", "y"), ("y", "x", "z")):
                la, lb, lc = LEAVES[a][1], LEAVES[b][1], LEAVES[c][1]
                yield f"nestL:({a}{o1}{b}){o2}{c}", program(f"({la} {o1} {lb}) {o2} {lc}", {a, b, c})
                yield f"nestR:{a}{o2}({b}{o1}{c})", program(f"{la} {o2} ({lb} {o1} {lc})", {a, b, c})
                yield f"flat:{a}{o1}{b}{o2}{c}", program(f"{la} {o1} {lb} {o2} {lc}", {a, b, c})


def reuse_programs():
    """Sub-results reused by several statements (DAGs) and mixed types."""
    yield "dag1", ('Signal x = ("signal-A", 6);\nSignal y = ("signal-B", 4);\nSignal t = x + y;\n'
                   'Signal r = t * t;\nSignal q = t - x;\n')
    yield "dag2", ('Signal x = ("signal-A", 6);\nSignal t = x * 2;\nSignal r = (t > 5) : t;\nSignal q = t % 4;\n')
    yield "dag3", ('Signal x = ("signal-A", 6);\nSignal y = ("signal-B", 4);\nSignal c = x > y;\n'
                   'Signal r = c * x + (!c) * y;\n')
    yield "dag4", ('Signal x = ("signal-A", 6);\nSignal y = ("signal-B", 4);\nSignal r = (x + 1) * (y + 1);\n')
    yield "dag5", ('Signal x = ("signal-A", 6);\nSignal y = ("signal-A", 4);\nSignal r = x * y;\n')
    yield "dag6", ('Signal x = ("signal-A", 6);\nSignal y = ("signal-A", 4);\nSignal r = x - y;\nSignal q = y - x;\n')
    yield "dag7", ('Signal x = ("signal-A", 6);\nSignal y = ("signal-B", 4);\nSignal z = ("signal-C", 2);\n'
                   'Signal r = x + y + z;\nSignal q = (x | "signal-C") + (y | "signal-C") + z;\n')
    yield "dag8", ('Signal x = ("signal-A", 6);\nSignal r = ((x > 5) : 7) && (x < 100);\n')
    yield "dag9", ('Signal x = ("signal-A", 6);\nSignal y = ("signal-B", 4);\nSignal r = (x > 2) && (y > 2) && (x < 50);\n'
                   'Signal q = (x > 2) || (y > 2) || (x == 0);\n')
    yield "dag11", ('Signal a = ("signal-A", 3);\nSignal b = ("signal-A", 7);\nSignal c = (5 < a) : b;\nSignal d = (a >= 2) : b;\n')
    yield "dag10", ('Signal x = ("signal-A", 6);\nSignal r = x * x * x;\nSignal q = -x + x;\n')
    # compound condition whose copied value shares a condition operand's signal type
    yield "dag12", ('Signal x = ("signal-A", 6);\nSignal y = ("signal-B", 4);\nSignal z = ("signal-A", 9);\n'
                    'Signal r = (x > 3 && y < 9) : z;\nSignal q = (x < 2 || y >= 4) : z;\n')
    # projection of a conditional value
    yield "dag13", ('Signal a = ("signal-A", 7);\nSignal b = ("signal-B", 4);\nSignal r = ((a > 5) : b) | "signal-X";\n'
                    'Signal q = ((a > 5) : 3) | "signal-Y";\n')
    # inputs whose initial value happens to be 0 or 1 are still arbitrary int32 inputs
    yield "dag14", ('Signal a = ("signal-A", 1);\nSignal b = ("signal-B", 0);\nSignal r = a && b;\nSignal q = a || b;\n'
                    'Signal p = (a && (b > 2)) + (!a);\n')
    yield "dag14u", ('Signal a = 1;\nSignal b = 1;\nSignal r = a && b;\nSignal q = a || b;\n')
    # a wire-merged operand next to one of its own members
    yield "dag15", ('Signal a = ("signal-A", 4);\nSignal b = ("signal-A", 5);\nSignal r = ((a + b) + a) * 3;\n')
    # the same comparison in both spellings (CSE must not identify x > c with c <= x)
    yield "dag16", ('Signal x = ("signal-A", 6);\nSignal y = ("signal-B", 4);\nSignal p = (x > 100) : y;\nSignal q = (100 <= x) : y;\n'
                    'Signal r = (x < 7) + (7 >= x) + (x <= 7) + (7 > x);\nSignal u = ((x < y) : 5) + ((y >= x) : 5);\n')
    # an int variable initialised by a constant expression is itself a constant (signal-literal values need integers)
    yield "dag17", ('int x = 7;\nint y = x * 3;\nSignal s = ("signal-A", y);\nSignal a = ("signal-B", 2);\nSignal r = s + a;\nSignal q = a * (y - 1);\n')
    # wire isolation (the former finding K7): producers shared by several combinators, three same-named producers on one network, untyped values reused everywhere
    yield "iso-three-same-named", ('Signal s = ("signal-A", 6);\nSignal t = ("signal-B", 4);\nSignal u = ("signal-B", 9);\nSignal v = ("signal-B", 2);\n'
                                   'Signal r1 = s * u;\nSignal r2 = s * t;\nSignal r3 = s * v;\n')
    yield "iso-reused-operand", ('Signal x = ("signal-A", 6);\nSignal y = ("signal-B", 4);\nSignal r = x - x * y;\nSignal q = (x + y) * (x - y) + x;\n')
    yield "iso-untyped-everywhere", ('Signal a = 100;\nSignal b = 110;\nSignal c = 120;\nSignal p1 = a + b * c;\nSignal p2 = a > 0 && b > 0 || c > 0;\n'
                                     'Signal n = ((a + b) * (c - 1)) / 2 | "iron-plate";\nSignal m = (a + (b | "iron-plate") + (c | "iron-plate") + (a * 2)) | "iron-ore";\n')
    # an integer sub-expression is an integer: the result is on the signal operand's type
    yield "int-subexpression-left", ('Signal x = ("signal-A", 6);\nint a = 10;\nint b = 20;\nSignal r = (20 - 10) * x;\nSignal q = a + ((b - a) * x) / 100;\nSignal p = (a * 2 - b) + x;\n')
    yield "iso-lamp-next-to-combinator", ('Signal s = ("signal-A", 6);\nSignal t = ("signal-B", 4);\nSignal u = ("signal-B", 9);\nSignal r1 = s * u;\n'
                                          'Entity l = place("small-lamp", 0, 0);\nl.enable = s + t;\n')
    # a signal literal whose VALUE is only known at run time carries that value (not 0)
    yield "dag18", ('Signal x = ("signal-X", 5);\nSignal r = ("signal-A", x + 1);\nSignal q = r * 2;\n')
    yield "dag18b", ('Signal x = ("signal-A", 5);\nSignal y = ("iron-plate", 2);\nSignal r = ("signal-A", x);\nSignal q = (y.type, x - 1);\n')
    yield "dag15b", ('Signal a = ("signal-A", 4);\nSignal b = ("signal-A", 5);\nSignal r = (a + b) - a;\nSignal q = (a + b) * b;\n')


PAIRS_QUICK = [("x", "y"), ("x", "z"), ("x", "k3"), ("k3", "x"), ("w", "x"), ("x", "km2"), ("ip", "x")]
PAIRS_FULL = [(a, b) for a in LEAVES for b in LEAVES]


def c01_scope(tier):
    progs = []
    ops = ARITH + CMP + LOGIC
    progs += list(binary_programs(PAIRS_QUICK if tier == "quick" else PAIRS_FULL, ops))
    progs += list(unary_programs(["x", "w"] if tier == "quick" else ["x", "y", "w", "ip"]))
    progs += list(projection_programs(["x", "w"] if tier == "quick" else ["x", "y", "w", "ip", "k3"]))
    osp = list(outspec_programs())
    progs += osp if tier != "quick" else osp[::3]
    if tier == "quick":
        progs += list(nested_programs(["*", "-", "<", "&&"], ["+", "**", ">>", "=="]))[::2]
    else:
        progs += list(nested_programs(ARITH + CMP + LOGIC, ARITH + CMP))
    progs += list(reuse_programs())
    seen = set()
    out = []
    for pid, src in progs:
        if src in seen:
            continue
        seen.add(src)
        out.append((pid, src))
    return out


def c10_scope(tier):
    """Programs with repeated sub-expressions differing only in output type / output mode / operand
    kind, folded constants consumed by several node kinds, and high fan-out (CSE, const-prop, MST)."""
    H = 'Signal x = ("signal-A", 6);\nSignal y = ("signal-B", 4);\n'
    P = []
    P.append(("cse-same", H + "Signal r = (x * y) + 1;\nSignal q = (x * y) + 2;\n"))
    P.append(("cse-proj", H + 'Signal r = ((x * y) | "signal-X") + 1;\nSignal q = (x * y) + 2;\n'))
    P.append(("cse-proj2", H + 'Signal r = (x * 3) | "signal-X";\nSignal q = (x * 3) | "signal-Y";\n'))
    P.append(("cse-mode", H + "Signal r = (x > 3) : y;\nSignal q = (x > 3) : 1;\nSignal p = (x > 3) : 7;\n"))
    P.append(("cse-mode2", 'Signal x = ("signal-A", 6);\nSignal y = ("signal-A", 4);\nSignal r = (x > 3) : x;\nSignal q = (y > 3) : y;\n'))
    P.append(("cse-copysrc", 'Signal c = ("signal-C", 1);\nSignal x = ("signal-A", 6);\nSignal y = ("signal-A", 9);\n'
              'Signal r = ((c > 0) : x) + 0;\nSignal q = ((c > 0) : y) + 0;\n'))
    P.append(("cse-cmp", H + "Signal r = (x > y) * 5;\nSignal q = (x > y) + (x < y);\nSignal p = (x >= y);\n"))
    P.append(("cse-bundle-mode", 'Bundle b = { ("signal-A", 20), ("signal-B", 5) };\nBundle f1 = (b > 10) : b;\nBundle f2 = (b > 10) : 1;\n'))
    P.append(("cse-bundle-op", 'Bundle b = { ("signal-A", 20), ("signal-B", 5) };\nBundle f1 = b * 2;\nBundle f2 = b * 2;\nBundle f3 = b + 2;\n'))
    P.append(("fold-chain", 'Signal x = ("signal-A", 6);\nSignal r = x + (2 * 3) - (10 / 3);\nSignal q = x * (7 % 4) + (1 << 4);\n'))
    P.append(("fold-neg", 'Signal x = ("signal-A", 6);\nSignal r = x + (-7 / 2);\nSignal q = x + (-7 % 3);\nSignal p = x + (7 / -2);\n'))
    P.append(("fold-func", 'func f(Signal a, int n) { return a * n + (n / -3); }\nSignal x = ("signal-A", 6);\nSignal r = f(x, 7);\nSignal q = f(5, -7);\n'))
    P.append(("fold-func2", 'func sh(Signal a, int n) { return a >> n; }\nSignal r = sh(-64, 2);\nSignal q = sh(1000, 3) + sh(-7, 1);\n'))
    P.append(("fold-cond", 'Signal x = ("signal-A", 6);\nSignal r = (x > (2 + 3)) : (4 * 5);\nSignal q = ((1 + 1) < x) : x;\n'))
    P.append(("fold-lamp", 'Signal x = ("signal-A", 6);\nEntity l = place("small-lamp", 0, 0);\nl.enable = x > (2 * 3);\nSignal r = x + 1;\n'))
    fan = 'Signal x = ("signal-A", 6);\n' + "".join(f"Signal r{i} = x + {i + 1};\n" for i in range(6))
    P.append(("fanout6", fan))
    fan2 = H + "".join(f"Signal r{i} = (x * {i + 2}) + y;\n" for i in range(4))
    P.append(("fanout-two-sources", fan2))
    P.append(("diamond", H + "Signal t = x + 1;\nSignal u = t * 2;\nSignal v = t * 3;\nSignal r = u + v;\n"))
    # one anonymous constant (literal bound to a Signal parameter) read by a foldable operation AND by another consumer kind
    A5 = 'Signal a = ("signal-A", 5);\n'
    P.append(("const-two-readers", 'func g(Signal s, Signal t) { Signal u = t - s; Signal w = s * 3; return u + w; }\n' + A5 + 'Signal r = g(7, a);\n'))
    P.append(("const-two-readers-rev", 'func g(Signal s, Signal t) { Signal w = s * 3; Signal u = t - s; return u + w; }\n' + A5 + 'Signal r = g(7, a);\n'))
    P.append(("const-reader-row", 'func g(Signal s, Signal t) { Signal w = s * 3; Signal u = (t > 2 && t < s) : 4; return u + w; }\n' + A5 + 'Signal r = g(7, a);\n'))
    P.append(("const-reader-copy", 'func g(Signal s, Signal t) { Signal w = s * 3; Signal u = (t > 2) : s; return u + w; }\n' + A5 + 'Signal r = g(7, a);\n'))
    P.append(("const-reader-prop", 'func g(Signal s, Signal t) { Signal w = s * 3; Entity l = place("small-lamp", 0, 0); l.enable = s; return t + w; }\n'
              + A5 + 'Signal r = g(7, a);\n'))
    P.append(("fold-bundle-select", 'Signal a = ("signal-C", 5);\nSignal r = ({ ("signal-A", 5), ("signal-B", 6) }["signal-A"] * 2) + a;\n'
              'Bundle b = { ("signal-A", 7), ("signal-B", 9) };\nSignal q = b["signal-B"] * 3 + a;\n'))
    P.append(("fold-passthrough", 'func f(Signal a, Signal v) { return (a > 3) : v; }\n' + H
              + "Signal r = f(5, y) + 0;\nSignal q = f(2, y) + 0;\nSignal p = f(5, x * 2) + 0;\nSignal o = f(5, 7) + x;\n"))
    P.append(("const-reader-threshold", 'func g(Signal s, Signal t) { Signal w = s * s; return (t > s) : w; }\n' + A5 + 'Signal r = g(7, a);\n'))
    for k in ((2, 3, 4) if tier == "quick" else range(1, 9)):
        lines = ['Signal a = ("signal-A", 10);', "Signal x = a + 1;"]
        for i in range(k):
            lines.append(f"Signal y{i} = x * {i + 1};")
            lines.append(f"Signal z{i} = x + y{i};")
        P.append((f"same-type-diamond{k}", "\n".join(lines) + "\n"))
    if tier != "quick":
        for k in range(2, 9):
            P.append((f"fan{k}", 'Signal x = ("signal-A", 6);\nSignal y = ("signal-A", 2);\n' + "".join(
                f"Signal z{i} = x + y;\nSignal w{i} = z{i} * {i + 2};\n" for i in range(k))))
    return P


# ---------------------------------------------------------------------------------------------
def c02_scope(tier):
    """Bundles: literals, nested/merged, each-arithmetic (constant / member signal / foreign signal
    operand), filters (copy / constant), gating, any/all, selection."""
    B1 = 'Bundle b = { ("signal-A", 20), ("signal-B", 5), ("iron-plate", -3) };\n'
    S = 'Signal s = ("signal-C", 3);\n'          # foreign scalar (not a member)
    M = 'Signal m = ("signal-A", 2);\n'          # scalar on a member's signal name
    P = []
    ops = ARITH if tier != "quick" else ["+", "-", "*", "/", "%", ">>", "AND", "**"]
    for op in ops:
        P.append((f"each-const:{op}", B1 + f"Bundle r = b {op} 3;\n"))
        P.append((f"each-foreign:{op}", B1 + S + f"Bundle r = b {op} s;\n"))
    for op in (ops if tier != "quick" else ["+", "*", "-"]):
        P.append((f"each-member:{op}", B1 + M + f"Bundle r = b {op} m;\n"))
    for cmp_ in CMP:
        P.append((f"filter-copy:{cmp_}", B1 + f"Bundle r = (b {cmp_} 4) : b;\n"))
        P.append((f"filter-const:{cmp_}", B1 + f"Bundle r = (b {cmp_} 4) : 1;\n"))
        P.append((f"filter-sig:{cmp_}", B1 + S + f"Bundle r = (b {cmp_} s) : b;\n"))
        P.append((f"any:{cmp_}", B1 + f"Signal r = any(b) {cmp_} 5;\n"))
        P.append((f"all:{cmp_}", B1 + f"Signal r = all(b) {cmp_} 5;\n"))
        P.append((f"gate:{cmp_}", B1 + S + f"Bundle r = (s {cmp_} 3) : b;\n"))
        # any()/all() against a SIGNAL: the scalar must not be ranged over by the wildcard
        P.append((f"any-sig:{cmp_}", B1 + S + f"Signal r = any(b) {cmp_} s;\n"))
        P.append((f"all-sig:{cmp_}", B1 + S + f"Signal r = all(b) {cmp_} s;\n"))
    P.append(("select", B1 + 'Signal r = b["signal-B"] * 2;\nSignal q = b["iron-plate"] + b["signal-A"];\n'))
    P.append(("literal-computed", 'Signal x = ("signal-A", 6);\nSignal y = ("signal-B", 4);\n'
              'Bundle r = { x * 2, y + 1, ("signal-C", 9) };\n'))
    P.append(("nested", B1 + 'Bundle c = { ("signal-C", 7) };\nBundle r = { b, c };\nBundle q = r * 2;\n'))
    P.append(("merge-signals", 'Signal x = ("signal-A", 6);\nSignal y = ("signal-B", 4);\nBundle r = { x, y };\nBundle q = r + 1;\n'))
    P.append(("chain", B1 + "Bundle t = b * 2;\nBundle r = (t > 8) : t;\nSignal q = any(r) > 30;\n"))
    P.append(("two-bundles", B1 + 'Bundle c = { ("signal-A", 1), ("signal-C", 7) };\nBundle r = b * 2;\nBundle q = c * 3;\n'))
    T = 'Signal t = ("signal-T", 1);\n'
    P.append(("gate-nested", B1 + S + T + "Bundle g = (t > 0) : ((s > 2) : b);\n"))
    P.append(("gate-nested-named", B1 + S + T + "Bundle inner = (s > 2) : b;\nBundle g = (t > 0) : inner;\n"))
    P.append(("gate-of-each", B1 + S + "Bundle d = b * 2;\nBundle g = (s > 2) : d;\n"))
    P.append(("gate-of-filter", B1 + S + "Bundle f = (b > 4) : b;\nBundle g = (s > 2) : f;\n"))
    P.append(("select-projected", B1 + 'Bundle c = b * 2;\nSignal z = c["iron-plate"] | "signal-Z";\nBundle d = c + 1;\n'))
    P.append(("select-projected-filter", B1 + 'Bundle c = (b > 4) : b;\nSignal z = c["signal-A"] | "signal-Z";\nBundle d = c + 1;\n'))
    P.append(("select-then-arith", B1 + 'Bundle c = b + 7;\nSignal z = c["signal-B"] * 3;\nSignal w = c["signal-A"] - c["signal-B"];\n'))
    XYS = 'Signal x = ("signal-A", 6);\nSignal y = ("signal-B", 4);\nSignal s = ("signal-C", 3);\n'
    P.append(("gate-merged-literal", XYS + "Bundle r = { x, y };\nBundle g = (s > 0) : r;\n"))
    P.append(("gate-merged-inline", XYS + "Bundle g = (s > 0) : { x, y };\n"))
    P.append(("gate-merged-computed", XYS + "Bundle r = { x * 2, y + 1 };\nBundle g = (s > 0) : r;\n"))
    P.append(("each-of-merged", XYS + "Bundle r = { x, y };\nBundle g = r * 2;\nBundle h = (r > 4) : r;\n"))
    P.append(("anon-literal", 'Signal s = ("signal-C", 3);\nBundle g = (s > 0) : { ("signal-A", 1), ("signal-B", 2) };\n'
              'Bundle h = { ("signal-A", 1), ("signal-B", 2) } * 3;\n'))
    P.append(("nested-merge", XYS + "Bundle a = { x, y };\nBundle b = { a, s };\nBundle c = b + 1;\n"))
    P.append(("scalar-shared-gate", B1 + S + "Bundle g = (s > 2) : b;\nBundle m = b * s;\n"))
    # one bundle and one scalar shared by consumers of different kinds: every consumer must find the bundle and the scalar on different wires
    P.append(("scalar-shared-gate-filter", B1 + S + "Bundle g = (s > 2) : b;\nBundle f = (b > s) : b;\n"))
    P.append(("scalar-shared-gate-filter-const", B1 + S + "Bundle g = (b > s) : 1;\nBundle h = (s > 2) : b;\n"))
    P.append(("scalar-shared-all-own-gate", B1 + S + "Bundle g = (all(b) > s) : b;\nBundle m = b + s;\n"))
    P.append(("scalar-shared-any-own-gate", B1 + S + "Bundle g = (any(b) < s) : b;\nBundle m = b * s;\nBundle f = (b != s) : b;\n"))
    P.append(("scalar-shared-merged-bundle", 'Signal x = ("signal-A", 6);\nSignal y = ("signal-B", 2);\nBundle c = { x, y };\n' + S + "Bundle g = (s > 2) : c;\nBundle m = c * s;\n"))
    P.append(("gate-two-conditions", B1 + S + M + "Bundle g = (s > m) : b;\nBundle h = (m > 1) : b;\n"))
    P.append(("gate-condition-own-member", B1 + 'Bundle g = (b["signal-A"] > 2) : b;\nSignal c = b["signal-B"];\nBundle h = (c > 2) : b;\nBundle k = b * c;\n'))
    P.append(("gate-any-other-bundle", B1 + S + 'Bundle b2 = { ("signal-F", 7) };\nBundle g = (any(b) > s) : b2;\n'))
    # members of ONE bundle wire read by two combinators of which one feeds the other (a loop through the shared wire before ada0082)
    P.append(("members-feed-each-other", B1 + 'Signal r = b["signal-A"] - b["signal-B"] * b["iron-plate"];\nSignal q = (b["signal-A"] + 1) * b["signal-A"];\n'))
    P.append(("all-sig-of-each", B1 + S + "Signal r = all(b * 2) >= s;\nSignal q = any(b + 1) < s;\n"))
    P.append(("all-sig-member-name", B1 + M + "Signal r = all(b) > m;\n"))
    V = 'Signal v = ("signal-V", 9);\n'
    P.append(("all-sig-cond-const", B1 + S + "Signal r = (all(b) > s) : 7;\n"))
    # (one statement per program: two statements sharing b, s and v run into the wire-isolation finding KF-K7-crosstalk)
    P.append(("all-sig-cond-signal", B1 + S + V + "Signal r = (all(b) > s) : v;\n"))
    P.append(("any-sig-cond-expr", B1 + S + V + "Signal q = (any(b) < s) : (v + 1);\n"))
    P.append(("all-const-cond-signal", B1 + V + "Signal r = (all(b) > 4) : v;\n"))
    P.append(("all-sig-cond-self", B1 + S + "Signal r = (all(b) > s) : s;\n"))
    P.append(("all-sig-gates-own", B1 + S + "Bundle g = (all(b) > s) : b;\nBundle h = (any(b) < s) : b;\n"))
    P.append(("all-sig-gates-other", B1 + S + 'Bundle c = { ("signal-D", 4), ("signal-E", 6) };\nBundle g = (all(b) > s) : c;\n'))
    P.append(("all-const-gates-own", B1 + "Bundle g = (all(b) > 4) : b;\n"))
    P.append(("any-const-gates-own", B1 + "Bundle g = (any(b) > 10) : b;\n"))
    # the constant after ':' of a filter: other values than the default 1, also through int variables
    P.append(("filter-const-6", B1 + "Bundle r = (b > 4) : 6;\nBundle q = (b <= 4) : -2;\n"))
    P.append(("filter-const-int-var", B1 + "int k = 6;\nBundle r = (b > 4) : k;\nBundle q = (b > k) : (k + 1);\n"))
    # a bundle gated by a named or compound condition
    P.append(("gate-by-named-condition", B1 + S + "Signal c = s > 2;\nBundle g = c : b;\n"))
    P.append(("gate-by-compound-and", B1 + S + T + "Bundle g = (s > 2 && t < 9) : b;\n"))
    P.append(("gate-by-compound-or", B1 + S + T + "Bundle g = (s > 2 || t < 0) : b;\n"))
    # any()/all() inside && / || chains and compound conditions: the wildcard must not range over the other rows' signals
    P.append(("chain-all-or-signal", B1 + S + "Signal r = (all(b) > 3) || (s < 0);\n"))
    P.append(("chain-any-and-signal", B1 + S + "Signal r = (any(b) > 10) && (s < 9);\n"))
    P.append(("compound-all-and-signal-value", B1 + S + V + "Signal r = (all(b) > 3 && s < 9) : v;\n"))
    P.append(("compound-any-and-signal-const", B1 + S + "Signal r = (any(b) > 10 && s < 9) : 7;\n"))
    P.append(("zero-members", 'Bundle b = { ("signal-A", 0), ("signal-B", 5) };\nBundle r = b + 10;\nSignal q = all(b) > 3;\nSignal p = any(b) < 1;\n'))
    return P


def c06_scope(tier):
    X = 'Signal x = ("signal-A", 6);\nSignal y = ("signal-B", 2);\n'
    protos = ["small-lamp", "inserter", "transport-belt", "pump", "power-switch", "train-stop"]
    if tier == "quick":
        protos = ["small-lamp", "inserter", "power-switch"]
    enables = ["x > 3", "x >= y", "3 < x", "(x > 3) && (y < 2)", "x + y", "x", "(x > 3) : 5", "(x > 3) : -2",
               "x * 0 + 1", "!(x == 4)", "(x > 1) || (y > 7)", "x - y > 0", "(x | \"signal-C\") > 2",
               # integer conditions: positive = always on, zero / negative = never
               "1", "0", "-1", "7 - 7", "2 > 1", "k", "k - 3"]
    P = []
    for i, pr in enumerate(protos):
        for j, en in enumerate(enables):
            if tier == "quick" and (i + j) % 2:
                continue
            P.append((f"{pr}:{en}", X + ("int k = 3;\n" if "k" in en else "") + f'Entity e = place("{pr}", {2 * i}, {3 * j});\ne.enable = {en};\n'))
    P.append(("shared-sources", X + "".join(
        f'Entity l{k} = place("small-lamp", {2 * k}, 0);\nl{k}.enable = x > {k};\n' for k in range(4))))
    P.append(("shared-decider", X + 'Signal c = x > 3;\nEntity a = place("small-lamp", 0, 0);\na.enable = c;\n'
              'Entity b = place("small-lamp", 2, 0);\nb.enable = c;\nSignal r = c + 1;\n'))
    B = 'Bundle b = { ("signal-A", 20), ("signal-B", 5) };\n'
    for q in ("any", "all"):
        for cmp_ in ("<", ">", "=="):
            P.append((f"inline-{q}{cmp_}", B + f'Entity l = place("small-lamp", 0, 0);\nl.enable = {q}(b) {cmp_} 10;\n'))
    CH = 'Entity ch = place("steel-chest", 10, 10, {read_contents: 1});\n'
    P.append(("chest-once", CH + 'Entity l = place("small-lamp", 0, 0);\nl.enable = ch.output["iron-plate"] > 10;\n'))
    P.append(("chest-twice", CH + 'Entity l = place("small-lamp", 0, 0);\nl.enable = ch.output["iron-plate"] + ch.output["iron-plate"] > 9;\n'))
    P.append(("chest-two-vars", CH + 'Bundle c1 = ch.output;\nBundle c2 = ch.output;\nEntity l = place("small-lamp", 0, 0);\n'
              'l.enable = c1["iron-plate"] + c2["iron-plate"] > 9;\n'))
    P.append(("chest-merge", CH + 'Signal x = ("iron-plate", 4);\nEntity l = place("small-lamp", 0, 0);\n'
              'l.enable = ch.output["iron-plate"] + x > 9;\nEntity m = place("small-lamp", 2, 0);\nm.enable = ch.output["iron-plate"] * 2 > 9;\n'))
    P.append(("two-chests", CH + 'Entity c2 = place("steel-chest", 14, 10, {read_contents: 1});\nEntity l = place("small-lamp", 0, 0);\n'
              'l.enable = ch.output["iron-plate"] + c2.output["iron-plate"] > 9;\n'))
    P.append(("chest-any", CH + 'Bundle c = ch.output;\nEntity l = place("small-lamp", 0, 0);\nl.enable = any(c) > 100;\n'))
    # the report of an entity read through a parameter, by two readers, next to another signal, by the entity itself
    P.append(("chest-through-parameter", 'func watch(Entity e, int px) {\n  Entity l = place("small-lamp", px, 0);\n  l.enable = e.output["iron-plate"] > 10;\n}\n'
              + CH + 'watch(ch, 0);\nwatch(ch, 2);\n'))
    P.append(("chest-two-members", CH + 'Entity a = place("small-lamp", 0, 0);\nEntity b = place("small-lamp", 2, 0);\na.enable = ch.output["iron-plate"] > 10;\n'
              'b.enable = ch.output["copper-plate"] > 5;\n'))
    P.append(("chest-plus-signal", CH + X + 'Entity a = place("small-lamp", 0, 0);\na.enable = ch.output["iron-plate"] + x > 10;\n'))
    P.append(("chest-all-filter", CH + 'Bundle c = ch.output;\nBundle f = (c > 10) : c;\nEntity a = place("small-lamp", 0, 0);\na.enable = any(f) > 0;\n'
              'Entity b = place("small-lamp", 2, 0);\nb.enable = all(c) > 3;\n'))
    P.append(("two-chests-compared", CH + 'Entity c2 = place("steel-chest", 14, 10, {read_contents: 1});\nEntity a = place("small-lamp", 0, 0);\n'
              'a.enable = ch.output["iron-plate"] > c2.output["iron-plate"];\nSignal d = ch.output["copper-plate"] - c2.output["copper-plate"];\n'
              'Entity b = place("small-lamp", 2, 0);\nb.enable = d > 0;\n'))
    P.append(("tank-pump", 'Entity t = place("storage-tank", 10, 10);\nEntity p = place("pump", 0, 0);\np.enable = t.output["water"] > 1000;\n'))
    P.append(("own-report", 'Entity ins = place("inserter", 0, 0, {read_hand_contents: 1});\nins.enable = ins.output["iron-plate"] < 3;\n'))
    # balanced loader: one merge of all chests feeds an average; per chest a merge of average and chest
    for n, pad in ((2, 0), (3, 5)) if tier == "quick" else ((2, 0), (2, 5), (3, 0), (3, 5), (4, 0), (5, 3)):
        L = [f'Signal pad{k} = ("signal-P", {k + 1});' for k in range(pad)]
        L += [f'Entity chest{k} = place("steel-chest", {k}, 0);' for k in range(n)]
        L.append("Bundle total = {" + ", ".join(f"chest{k}.output" for k in range(n)) + "};")
        L.append(f"Bundle neg_avg = total / -{n};")
        L += [f"Bundle diff{k} = {{neg_avg, chest{k}.output}};" for k in range(n)]
        for k in range(n):
            L.append(f'Entity load{k} = place("fast-inserter", {k}, -1, {{direction: 0}});')
            L.append(f"load{k}.enable = all(diff{k}) < 0;")
        P.append((f"balanced-loader{n}-pad{pad}", "\n".join(L) + "\n"))
    return P


def c09_scope(tier):
    P = []
    P.append(("lits", 'Entity a = place("small-lamp", 0, 0);\nEntity b = place("small-lamp", 5, 7);\nEntity c = place("steel-chest", 30, 12);\n'))
    P.append(("multi-tile", 'Entity a = place("assembling-machine-1", 3, 4);\nEntity b = place("train-stop", 8, 16);\n'
              'Entity c = place("storage-tank", 12, 0);\nEntity d = place("substation", 20, 20);\n'))
    P.append(("int-vars", 'Signal s = ("signal-A", 1);\nint bx = 4;\nint by = -3;\nEntity a = place("small-lamp", bx, by);\na.enable = s > 0;\n'
              'Entity b = place("small-lamp", bx * 2 + 1, by - 7);\nb.enable = s > 1;\nEntity c = place("small-lamp", -bx, (by / 2));\nc.enable = s > 2;\n'))
    P.append(("loop", 'for i in 0..6 {\n  Entity l = place("small-lamp", i * 2, 10 - i);\n}\n'))
    P.append(("loop-neg", 'Signal s = ("signal-A", 1);\nfor i in 0..4 {\n  Entity l = place("small-lamp", i * 2 - 3, 0 - i);\n  l.enable = s > i;\n}\n'))
    P.append(("loop-desc", 'Signal s = ("signal-A", 1);\nfor i in 5..-5 step -3 {\n  Entity l = place("inserter", i, i * i);\n  l.enable = s > 0;\n}\n'))
    P.append(("nested-loop", 'for i in 0..3 {\n  for j in [1, 4] {\n    Entity l = place("small-lamp", i * 3, j * 2 + i);\n  }\n}\n'))
    P.append(("func", 'func mk(int x, int y) {\n  Entity l = place("small-lamp", x, y);\n  return l;\n}\nEntity a = mk(1, 2);\nEntity b = mk(3, 9);\n'
              'for i in 0..2 {\n  Entity c = mk(10 + i, 10);\n}\n'))
    P.append(("wired", 'Signal x = ("signal-A", 6);\n' + "".join(
        f'Entity l{k} = place("small-lamp", {k * 12}, {k % 2 * 9});\nl{k}.enable = x > {k};\n' for k in range(5))))
    P.append(("far", 'Signal x = ("signal-A", 6);\nEntity a = place("small-lamp", 0, 0);\na.enable = x > 1;\n'
              'Entity b = place("small-lamp", 60, 0);\nb.enable = x > 2;\n'))
    P.append(("neg-iterator", 'Signal s = ("signal-A", 1);\nfor i in 0..4 {\n  Entity l = place("small-lamp", -i, -6);\n  l.enable = s > i;\n}\n'))
    P.append(("neg-var", 'Signal s = ("signal-A", 1);\nint k = 0;\nint j = 3;\nEntity a = place("small-lamp", -k, -(j * 2));\na.enable = s > 0;\nEntity b = place("small-lamp", -(k + 0), 4);\nb.enable = s > 1;\n'))
    P.append(("user-poles", 'Signal s = ("signal-A", 1);\nEntity l = place("small-lamp", 0, 0);\nl.enable = s > 0;\nEntity p1 = place("small-electric-pole", 15, 4);\n'
              'Entity p2 = place("big-electric-pole", 25, 9);\nEntity p3 = place("medium-electric-pole", 3, 3);\n'))
    P.append(("relay-near-machine", 'Entity ch = place("steel-chest", 0, 2, {read_contents: 1});\nEntity l = place("small-lamp", 30, 2);\n'
              'l.enable = ch.output["iron-plate"] > 5;\nEntity m = place("assembling-machine-1", 8, 0);\n'))
    P.append(("relay-near-stop", 'Entity ch = place("steel-chest", 0, 2, {read_contents: 1});\nEntity l = place("small-lamp", 30, 2);\n'
              'l.enable = ch.output["iron-plate"] > 5;\nEntity t = place("train-stop", 8, 1);\n'))
    P.append(("relay-near-machines-row", 'Signal s = ("signal-A", 1);\nEntity a = place("small-lamp", 0, 1);\na.enable = s > 0;\nEntity b = place("small-lamp", 44, 1);\nb.enable = s > 1;\n'
              + "".join(f'Entity m{k} = place("assembling-machine-1", {6 + 7 * k}, 0);\n' for k in range(5))))
    P.append(("props", 'Entity a = place("small-lamp", 0, 0, {use_colors: 1});\nEntity b = place("inserter", 2, 0, {direction: 4});\n'))
    P.append(("param-name-after-call", 'func lamp_at(int x, int y) {\n  Entity l = place("small-lamp", x, y);\n}\nfunc pair(int x, int y) {\n  lamp_at(x + 1, y);\n'
              '  Entity k = place("small-lamp", x, y + 2);\n}\npair(3, 4);\nint x = 9;\nlamp_at(1, 1);\nEntity z = place("small-lamp", x, 8);\n'))
    P.append(("far-user-poles", 'Signal s = ("signal-A", 1);\nEntity l = place("small-lamp", 0, 0);\nl.enable = s > 0;\nEntity p1 = place("small-electric-pole", 30, 4);\n'
              'Entity p2 = place("medium-electric-pole", 40, 9);\nEntity p3 = place("big-electric-pole", 50, 20);\nEntity p4 = place("substation", 60, 30);\n'))
    # more than 500 entities switches the layout solver to component decomposition
    P.append(("more-than-500", "for i in 0..26 {\n  for j in 0..20 {\n    Entity l = place(\"small-lamp\", i, j);\n  }\n}\n"))
    if tier != "quick":
        P.append(("grid40", "for i in 0..8 {\n  for j in 0..5 {\n    Entity l = place(\"small-lamp\", i * 2, j * 2);\n  }\n}\n"))
    return P


def c15_scope(tier):
    X = 'Signal x = ("signal-A", 6);\nSignal y = ("signal-B", 2);\n'
    P = []
    P.append(("simple", 'func dbl(Signal a) { return a * 2; }\n' + X + "Signal r = dbl(x);\nSignal q = dbl(y) + 1;\n"))
    P.append(("int-coerce", 'func f(Signal a, int n) { return a * n + n; }\n' + X + "Signal r = f(x, 3);\nSignal q = f(7, 3);\nSignal p = f(y, -2);\n"))
    P.append(("locals-shadow", 'func f(Signal a) {\n  Signal x = a + 100;\n  Signal t = x * 2;\n  return t;\n}\n' + X + "Signal r = f(y);\nSignal q = x + 1;\n"))
    P.append(("nested", 'func g(Signal a) { return a + 1; }\nfunc f(Signal a) { return g(a) * g(a + 5); }\n' + X + "Signal r = f(x);\n"))
    P.append(("nested-param-name", 'func inner(Signal v) { return v * 3; }\nfunc outer(Signal x) { return inner(x + 1) + x; }\n' + X + "Signal r = outer(y);\n"))
    P.append(("global-read", 'func addx(Signal a) { return a + x; }\n' + X + "Signal r = addx(y);\n") if False else
             ("two-calls-same-fn", 'func f(Signal a) { return (a > 3) : a; }\n' + X + "Signal r = f(x);\nSignal q = f(y);\n"))
    P.append(("call-in-loop", 'func sc(Signal a, int k) { return a * k; }\n' + X + "for i in 1..4 {\n  Signal t = sc(x, i);\n  Entity l = place(\"small-lamp\", i * 2, 0);\n  l.enable = t > 10;\n}\n"))
    P.append(("param-shadows-iterator", 'func scaled(int i) { return i * 2; }\nfor i in 1..4 {\n  Entity l = place("small-lamp", scaled(5) + i, 0);\n}\n'))
    P.append(("signal-param-shadows-iterator", 'func add7(Signal i) { return i + 7; }\n' + X + "for i in 1..3 {\n  Signal t = add7(x);\n  Entity l = place(\"small-lamp\", i * 2, 0);\n  l.enable = t > 10;\n}\n"))
    P.append(("entity-param", 'func cfg(Entity e, Signal s) { e.enable = s > 2; }\n' + X + 'Entity a = place("small-lamp", 0, 0);\ncfg(a, x);\nEntity b = place("small-lamp", 2, 0);\ncfg(b, y);\n'))
    P.append(("entity-return", 'func mk(int px, Signal s) {\n  Entity l = place("small-lamp", px, 0);\n  l.enable = s > 1;\n  return l;\n}\n' + X + "Entity a = mk(0, x);\nEntity b = mk(4, y);\n"))
    P.append(("typed-arg-override", 'func f(Signal a, Signal b) { return a - b; }\n' + X + "Signal r = f(x, y);\nSignal q = f(y, x);\n"))
    # callee-local entity named like an entity of the caller, which the caller uses again after the call
    P.append(("local-entity-shadows", 'func add_lamp(int px, Signal s) {\n  Entity lamp = place("small-lamp", px, 0);\n  lamp.enable = s > 5;\n}\n' + X
              + 'Entity lamp = place("small-lamp", 0, 4);\nadd_lamp(2, x);\nlamp.enable = y > 7;\n'))
    P.append(("local-entity-shadows-loop", 'func mk(int px, Signal s) {\n  Entity lamp = place("small-lamp", px, 0);\n  lamp.enable = s > px;\n  return lamp;\n}\n' + X
              + 'Entity lamp = place("small-lamp", 0, 4);\nfor i in 0..2 {\n  Entity made = mk(i * 2 + 2, x);\n}\nlamp.enable = y > 7;\n'))
    # literal bound to a Signal parameter: conditional value / folded chain / property write read it (C10 found these)
    P.append(("literal-param-cond", 'func g(Signal s, Signal t) { Signal u = (t > 2) : s; return u + 1; }\n' + X + "Signal r = g(7, x);\n"))
    P.append(("literal-param-row", 'func g(Signal s, Signal t) { return (t > 2 && t < s) : 4; }\n' + X + "Signal r = g(7, x);\n"))
    # a parameter named like an outer int / the iterator of the loop around the call (C15-3)
    P.append(("signal-param-shadows-int", 'int k = 6;\nfunc boost(Signal k) { return (k + 1) * 3; }\n' + X + "Signal r = boost(x);\n"))
    # bundles built from parameters and returned: the members are the signals the ARGUMENTS carry; the result is declared under the caller's name
    FB = 'func pack(Signal a, Signal b) {\n  Bundle t = { a, b };\n  return t;\n}\n'
    P.append(("bundle-return", FB + X + "Bundle r = pack(x, y);\n"))
    P.append(("bundle-return-scaled", 'func sc(Signal a, Signal b, int k) {\n  Bundle t = { a, b };\n  return t * k;\n}\n' + X + "Bundle r = sc(x, y, 3);\nBundle q = sc(y, x, 0 - 2);\n"))
    P.append(("bundle-return-filter", 'func big(Signal a, Signal b, int k) {\n  Bundle t = { a, b };\n  return (t > k) : t;\n}\n' + X + "Bundle r = big(x, y, 3);\n"))
    P.append(("bundle-return-used", FB + X + "Bundle r = pack(x, y);\nBundle q = r * 2;\nSignal s = any(r) > 5;\n"))
    P.append(("bundle-any-in-func", 'func hot(Signal a, Signal b) {\n  Bundle t = { a, b };\n  return any(t) > 5;\n}\n' + X + "Signal r = hot(x, y);\n"))
    P.append(("int-parameter-constant-expression", 'func pick(Signal c, int v) {\n  return (c > 3) : v;\n}\nfunc sc(Signal t, int lo, int hi) {\n  return lo + ((hi - lo) * t) / 100;\n}\n'
              + X + "Signal q = pick(y, 0 - 7) + 0;\nSignal l = sc(x, 10, 5 * 4) * 1;\n"))
    P.append(("bundle-any-in-func-computed-arg", 'func hot(Signal a, Signal b) {\n  Bundle t = { a, b };\n  return any(t) > 5;\n}\n' + X + "Signal q = hot(y, (x + 1) | \"signal-C\");\n"))
    return P


def c16_scope(tier):
    X = 'Signal x = ("signal-A", 6);\n'
    P = []
    triples = [(0, 3, None), (0, 7, 3), (5, 0, -2), (7, 0, -3), (2, 2, None), (3, 0, None), (-3, -4, -2), (-2, 3, 2), (0, 1, 5)]
    if tier != "quick":
        triples += [(a, b, s) for a in (-2, 0, 3) for b in (-3, 1, 4) for s in (-2, -1, 1, 2, 3)]
    for (a, b, s) in triples:
        step = f" step {s}" if s is not None else ""
        P.append((f"range:{a}..{b}{step}", X + f"for i in {a}..{b}{step} {{\n  Entity l = place(\"small-lamp\", i * 2, 5);\n  l.enable = x > i;\n}}\n"))
    P.append(("list", X + "for i in [4, -1, 9] {\n  Entity l = place(\"small-lamp\", i, 0);\n  l.enable = x * i > 8;\n}\n"))
    P.append(("var-bounds", X + "int n = 3;\nint s = 2;\nfor i in 0..n * 2 step s {\n  Entity l = place(\"small-lamp\", i, 0);\n}\n") if False else
             ("var-bounds", X + "int n = 6;\nint s = 2;\nfor i in 0..n step s {\n  Entity l = place(\"small-lamp\", i, 0);\n  l.enable = x > i;\n}\n"))
    P.append(("nested", X + "for i in 0..2 {\n  for j in 0..3 {\n    Entity l = place(\"small-lamp\", i * 4 + j, i);\n    l.enable = x > i * 3 + j;\n  }\n}\n"))
    P.append(("body-locals", X + "for i in 1..4 {\n  Signal t = x * i;\n  Signal u = t + 1;\n  Entity l = place(\"small-lamp\", i * 2, 0);\n  l.enable = u > 10;\n}\n"))
    P.append(("iter-in-literal", "for i in 0..3 {\n  Signal c = (\"signal-A\", i * 5);\n  Entity l = place(\"small-lamp\", i * 2, 0);\n  l.enable = c > 6;\n}\n"))
    P.append(("call-in-body", 'func sc(Signal a, int k) { return a * k + k; }\n' + X + "for i in 0..3 {\n  Entity l = place(\"small-lamp\", i * 2, 0);\n  l.enable = sc(x, i) > 10;\n}\n"))
    P.append(("zero-iter", X + "for i in 3..3 {\n  Entity l = place(\"small-lamp\", i, 0);\n}\nSignal r = x + 1;\n"))
    P.append(("param-shadows-iterator", 'func scaled(int i) { return i * 2; }\nfor i in 1..4 {\n  Entity l = place("small-lamp", scaled(5) + i, 0);\n}\n'))
    # the iterator shadows a global int only inside the loop
    P.append(("iterator-shadows-global", "int i = 5;\n" + X + "for i in 0..2 {\n  Entity l = place(\"small-lamp\", i * 2, 0);\n  l.enable = x > i * 3;\n}\nSignal r = x + i;\n"))
    return P


def c12_scope(tier):
    """Pairs of computations with disjoint variables but overlapping signal names, interleaved."""
    P1 = ['Signal a1 = ("signal-A", 3);', 'Signal b1 = ("signal-B", 10);', "Signal r1 = a1 * b1;"]
    Q1 = ['Signal a2 = ("signal-A", 5);', 'Signal b2 = ("signal-B", 100);', "Signal r2 = a2 + b2;"]
    P2 = ['Signal p = ("signal-A", 3);', "Signal pr = (p > 2) : p;", "Signal ps = pr * 4;"]
    Q2 = ['Signal q = ("signal-A", 7);', "Signal qr = q % 4;", "Signal qs = qr - 1;"]
    P3 = ['Signal u = ("iron-plate", 3);', 'Entity lu = place("small-lamp", 0, 0);', "lu.enable = u > 2;"]
    Q3 = ['Signal v = ("iron-plate", 9);', 'Entity lv = place("small-lamp", 4, 0);', "lv.enable = v < 5;"]
    P4 = ['Bundle bp = { ("signal-A", 1), ("signal-B", 2) };', "Bundle rp = bp * 3;"]
    Q4 = ['Bundle bq = { ("signal-A", 10), ("signal-C", 20) };', "Bundle rq = (bq > 5) : bq;"]
    P5 = ['Signal fa = ("signal-A", 11);', 'Entity f1 = place("small-lamp", 0, 0);', "f1.enable = fa > 10;",
          'Entity f2 = place("small-lamp", 40, 0);', "f2.enable = fa > 12;"]
    Q5 = ['Signal ga = ("signal-A", 4);', 'Entity g1 = place("small-lamp", 0, 1);', "g1.enable = ga > 10;",
          'Entity g2 = place("small-lamp", 40, 1);', "g2.enable = ga > 3;"]
    P6 = ['Signal pa = ("signal-A", 10);', 'Signal pr = (pa + ("signal-B", 5)) | "signal-C";']
    Q6 = ['Signal qa = ("signal-A", 3);', 'Signal qr = (qa + ("signal-B", 5)) | "signal-D";']
    # twins: both computations are the SAME text over their own inputs, which start out equal
    P7 = ['Signal ta = ("signal-A", 5);', "Signal tx = ta * 3;", 'Entity tl = place("small-lamp", 0, 0);', "tl.enable = tx > 20;"]
    Q7 = ['Signal wa = ("signal-A", 5);', "Signal wx = wa * 3;", 'Entity wl = place("small-lamp", 4, 0);', "wl.enable = wx > 20;"]
    out = []
    for tag, (A, Bq) in {"twins": (P7, Q7), "far-apart": (P5, Q5), "same-literal": (P6, Q6), "arith": (P1, Q1), "chains": (P2, Q2), "lamps": (P3, Q3), "bundles": (P4, Q4)}.items():
        inter = list(_interleavings(A, Bq))
        if tier == "quick":
            inter = inter[:: max(1, len(inter) // 4)]
        for k, seq in enumerate(inter):
            out.append((f"{tag}#{k}", "\n".join(seq) + "\n"))
    return out


def _interleavings(a, b):
    if not a:
        yield list(b)
        return
    if not b:
        yield list(a)
        return
    for rest in _interleavings(a[1:], b):
        yield [a[0]] + rest
    for rest in _interleavings(a, b[1:]):
        yield [b[0]] + rest


def c13_scope(tier):
    P = []
    P.append(("untyped-with-A", 'Signal a = ("signal-A", 5);\nSignal b = 7;\nSignal r = a + 1;\nSignal q = b * 2;\n'))
    P.append(("untyped-with-letters", "".join(f'Signal e{c} = ("signal-{c}", {i + 1});\n' for i, c in enumerate("ABCDE")) + "Signal u = 9;\nSignal v = 11;\nSignal r = u + v;\nSignal q = eA + eB;\n"))
    P.append(("untyped-in-bundle", 'Signal a = ("signal-A", 5);\nSignal u = 7;\nBundle b = { a, u };\nBundle r = b * 2;\n'))
    P.append(("untyped-cmp", 'Signal a = ("signal-A", 5);\nSignal c = ("iron-plate", 3) > 2;\nSignal r = c + a;\n'))
    P.append(("many-untyped", "".join(f"Signal u{i} = {i + 1};\n" for i in range(30 if tier == "quick" else 40)) + "Signal r = u0 + u29;\n"))
    P.append(("untyped-lamp", 'Signal a = ("signal-A", 5);\nSignal u = 7;\nEntity l = place("small-lamp", 0, 0);\nl.enable = u > a;\n'))
    P.append(("explicit-digits", 'Signal z = ("signal-0", 5);\nSignal o = ("signal-1", 6);\nSignal u = 3;\nSignal r = u * z + o;\n'))
    P.append(("cond-const", 'Signal a = ("signal-A", 5);\nSignal b = ("signal-B", 5);\nSignal r = (a > 3 && b < 9) : 4;\nSignal q = a + b;\n'))
    return P


def c20_scope(tier):
    X = 'Signal x = ("signal-A", 6);\nSignal y = ("signal-B", 2);\n'
    P = []
    P.append(("mixed", X + "Signal used = x + 1;\nSignal out1 = used * 2;\nSignal out2 = y - 1;\n"))
    P.append(("alias", X + "Signal t = x * 3;\nSignal alias1 = t;\nSignal alias2 = t;\n"))
    P.append(("const-out", 'Signal k = ("signal-C", 42);\n' + X + "Signal r = x + y;\n"))
    P.append(("decider-out", X + "Signal r = x > y;\nSignal q = (x > 1) : y;\n"))
    P.append(("merge-out", 'Signal a = ("signal-A", 1);\nSignal b = ("signal-A", 2);\nSignal r = a + b;\n'))
    P.append(("func-out", 'func f(Signal a) { return a * 2 + 1; }\n' + X + "Signal r = f(x);\nSignal q = f(y);\n"))
    P.append(("bundle-out", 'Bundle b = { ("signal-A", 20), ("signal-B", 5) };\nBundle r = b * 2;\nSignal s = b["signal-A"] + 1;\n'))
    P.append(("named-then-anonymous-twin", X + "Signal s1 = x + y;\nSignal s2 = (x + y) * 2;\nSignal d1 = x > y;\nSignal d2 = (x > y) + 5;\n"))
    P.append(("alias-named-like-param", 'func f(Signal v, Signal total) { return v * 2 + total; }\n' + X + 'Signal k = ("signal-C", 42);\n'
              "Signal c = x + 1;\nSignal v = c;\nSignal total = k;\nSignal r = f(c, y);\n"))
    P.append(("consumed-by-entity", X + 'Signal c = x > 3;\nEntity l = place("small-lamp", 0, 0);\nl.enable = c;\nSignal r = y + 1;\n'))
    # twins: names bound to identical expressions stay findable when the optimiser merges their nodes
    P.append(("twin-names", X + "Signal s1 = x + y;\nSignal s2 = x + y;\nSignal p = (x > 3) : y;\nSignal q = (x > 3) : y;\n"))
    P.append(("anonymous-then-named-twin", X + 'Bundle b = { ("signal-C", 20), ("signal-D", 5) };\nBundle g = (x + y > 2) : b;\nSignal s = x + y;\n'))
    P.append(("three-twins-one-consumed", X + "Signal a = x * y;\nSignal b2 = x * y;\nSignal c = x * y;\nSignal d = a + 1;\n"))
    P.append(("twin-bundles", 'Bundle b = { ("signal-C", 20), ("signal-D", 5) };\nBundle f1 = b * 2;\nBundle f2 = b * 2;\n'))
    # a bundle returned by a function is a named result like any other
    P.append(("func-bundle-out", 'func pack(Signal a, Signal b) {\n  Bundle t = { a, b };\n  return t;\n}\nfunc sc(Signal a, Signal b) {\n  Bundle t = { a, b };\n  return t * 2;\n}\n'
              + X + "Bundle r = pack(x, y);\nBundle q = sc(x, y);\n"))
    P.append(("alias-bundle-out", X + "Bundle t = { x, y };\nBundle u = t * 2;\nBundle r = u;\nBundle p = t;\n"))
    return P


# ---------------------------------------------------------------------------------------------
# memories
def c03_scope(tier):
    """(id, source, pools) — pools: input name -> values a history may switch it to."""
    V = 'Signal v = ("signal-A", 5);\n'
    C = 'Signal c = ("signal-B", 0);\n'
    G = 'Signal g = ("signal-C", 1);\n'
    M = 'Memory m: "signal-M";\n'
    vp, cp = [5, 9, -3, 0], [0, 1, 0, 2]
    P = []
    P.append(("cmp-enable", V + C + M + 'm.write(v | "signal-M", when=c > 0);\nSignal out = m.read();\n', {"v": vp, "c": cp}))
    P.append(("named-cmp-enable", V + C + M + 'Signal en = c > 0;\nm.write(v | "signal-M", when=en);\nSignal out = m.read();\n', {"v": vp, "c": cp}))
    P.append(("compound-enable", V + C + G + M + 'm.write(v | "signal-M", when=(c > 0) && (g > 0));\nSignal out = m.read();\n', {"v": vp, "c": [0, 1], "g": [0, 1]}))
    P.append(("expr-data", V + C + M + 'm.write((v * 2 + 1) | "signal-M", when=c > 0);\nSignal out = m.read();\nSignal plus = m.read() + 0;\n', {"v": vp, "c": cp}))
    P.append(("untyped-cell", V + C + 'Memory m;\nm.write(v, when=c > 0);\nSignal out = m.read();\n', {"v": vp, "c": cp}))
    P.append(("two-readers", V + C + M + 'm.write(v | "signal-M", when=c > 0);\nSignal out = m.read();\nSignal dbl = m.read() * 2;\n'
              'Entity l = place("small-lamp", 0, 0);\nl.enable = m.read() > 6;\n', {"v": vp, "c": cp}))
    P.append(("two-cells", V + C + G + M + 'Memory n: "signal-N";\nm.write(v | "signal-M", when=c > 0);\nn.write(v | "signal-N", when=g > 1);\n'
              'Signal out = m.read();\nSignal out2 = n.read();\n', {"v": [5, 9], "c": [0, 1], "g": [1, 2]}))
    P.append(("shared-enable-var", V + C + G + M + 'Memory n: "signal-N";\nSignal en = c > 0;\nm.write(v | "signal-M", when=en);\n'
              'n.write(v | "signal-N", when=en && (g > 0));\nSignal out = m.read();\nSignal out2 = n.read();\n', {"v": [5, 9], "c": [0, 1], "g": [0, 1]}))
    P.append(("dup-comparison-earlier", V + C + M + 'Signal armed = c > 0;\nm.write(v | "signal-M", when=c > 0);\nSignal out = m.read();\nSignal a2 = armed + 0;\n', {"v": vp, "c": cp}))
    P.append(("enable-used-in-data", V + C + M + 'Signal en = c > 0;\nm.write((v + en) | "signal-M", when=en);\nSignal out = m.read();\n', {"v": vp, "c": cp}))
    P.append(("literal-data", C + M + 'm.write(7, when=c > 0);\nSignal out = m.read();\n', {"c": [0, 1, 2]}))
    P.append(("declared-enable-init-1", V + 'Signal c = ("signal-B", 1);\n' + M + 'm.write(v | "signal-M", when=c);\nSignal out = m.read();\n', {"v": [5, 9], "c": [0, 1]}))
    # a cell declared in a function body: every call owns its own cell (call = substitution)
    P.append(("cell-in-function", 'func keep(Signal d, Signal en) {\n  Memory m: "signal-M";\n  m.write(d | "signal-M", when=en > 0);\n  return m.read();\n}\n'
              + V + C + 'Signal w = ("signal-D", 7);\nSignal out = keep(v, c);\nSignal out2 = keep(w, c);\n', {"v": [5, 9], "c": [0, 1], "w": [7, -2]}))
    P.append(("cell-in-function-3", 'func keep(Signal d, Signal en) {\n  Memory m: "signal-M";\n  m.write(d | "signal-M", when=en > 0);\n  return m.read();\n}\n'
              + V + C + 'Signal w = ("signal-D", 7);\nSignal u = ("signal-E", 70);\nSignal out = keep(v, c);\nSignal out2 = keep(w, c);\nSignal out3 = keep(u, c);\n',
              {"v": [5, 9], "c": [0, 1], "w": [7, -2], "u": [70, 30]}))
    P.append(("enable-derived-with-read", V + C + M + 'Signal en = c > 0;\nm.write(v | "signal-M", when=en);\nSignal idle = 1 - en;\n'
              'Signal shown = (m.read() * idle) | "signal-S";\nSignal out = m.read();\n', {"v": [5, 9], "c": [0, 1]}))
    P.append(("cell-in-loop", V + C + 'for i in 0..2 {\n  Memory m: "signal-M";\n  m.write((v + i) | "signal-M", when=c > i);\n'
              '  Entity l = place("small-lamp", i * 2, 0);\n  l.enable = m.read() > 6;\n}\n', {"v": [5, 9], "c": [0, 1, 2]}))
    # constant conditions: a positive constant always writes (the cell follows v), zero never does; the unconditional write of a value that does
    # not depend on the cell is the same as when=1
    for cid, cond in (("1", "1"), ("5", "5"), ("0", "0"), ("int-var", "k - 1"), ("folded-true", "k > 1"), ("folded-false", "k > 2")):
        P.append((f"constant-enable-{cid}", V + M + f'int k = 2;\nm.write(v | "signal-M", when={cond});\nSignal out = m.read();\n', {"v": vp}))
    P.append(("unconditional-plain", V + M + 'm.write(v | "signal-M");\nSignal out = m.read();\nSignal twice = m.read() * 2;\n', {"v": vp}))
    P.append(("unconditional-expr", V + C + M + 'm.write((v * 2 + c) | "signal-M");\nSignal out = m.read();\n', {"v": vp, "c": [0, 1, 3]}))
    return P


def c04_scope(tier):
    """(id, source, cell name, reader name, input valuations, warmup)"""
    M = 'Memory m: "signal-M";\n'
    P = []
    P.append(("counter", M + "m.write(m.read() + 1);\nSignal out = m.read();\n", [{}], 0))
    P.append(("counter-mod", M + "m.write((m.read() + 3) % 7);\nSignal out = m.read();\n", [{}], 0))
    P.append(("accumulate-input", 'Signal x = ("signal-X", 4);\n' + M + "m.write(m.read() + x);\nSignal out = m.read();\n",
              [{"x": 4}, {"x": -3}, {"x": 0}, {"x": 2147483647}], 2))
    P.append(("chain3", M + "m.write(((m.read() + 5) * 3) % 11);\nSignal out = m.read();\n", [{}], 0))
    P.append(("lfsr-mix", M + "m.write(((m.read() << 1) XOR (m.read() >> 3)) + 1);\nSignal out = m.read();\n", [{}], 0))
    P.append(("two-readers", M + "m.write((m.read() + 1) % 10);\nSignal out = m.read();\nSignal dbl = m.read() * 2;\n"
              'Entity l = place("small-lamp", 0, 0);\nl.enable = m.read() > 4;\n', [{}], 0))
    P.append(("reader-before-write", M + "Signal dbl = m.read() * 2;\nm.write(m.read() + 2);\nSignal out = m.read();\n", [{}], 0))
    P.append(("reader-adds-same-type", 'Signal k = ("signal-K", 2);\n' + M + 'Signal off = (k * 2) | "signal-M";\nm.write((m.read() + 3) % 7);\n'
              "Signal out = m.read();\nSignal shown = m.read() + off;\n", [{"k": 2}], 0))
    P.append(("read-on-right", M + "m.write((1 + m.read()) % 10);\nSignal out = m.read();\n", [{}], 0))
    P.append(("read-on-right-input", 'Signal x = ("signal-X", 100);\n' + M + 'm.write(((x | "signal-M") - m.read()) % 7);\nSignal out = m.read();\n', [{"x": 100}, {"x": 3}], 2))
    P.append(("untyped", "Memory m;\nm.write(m.read() + 1);\nSignal out = m.read();\n", [{}], 0))
    P.append(("times-const", 'Signal x = ("signal-X", 3);\n' + M + "m.write((m.read() * 2 + x) % 1000);\nSignal out = m.read();\n", [{"x": 3}, {"x": 7}], 2))
    # one held input feeding two steps of f (their input networks used to be joined through it: wire isolation in C04's shapes)
    P.append(("input-in-two-steps", 'Signal x = ("signal-X", 3);\n' + M + 'm.write((((m.read() + x) * 2 + x) % 1000) | "signal-M");\nSignal out = m.read();\n', [{"x": 3}, {"x": -2}, {"x": 0}], 2))
    P.append(("input-times-and-plus", 'Signal x = ("signal-X", 3);\n' + M + 'm.write(((m.read() * x + x) % 1000) | "signal-M");\nSignal out = m.read();\n', [{"x": 3}, {"x": -2}, {"x": 0}], 2))
    return P


def c05_scope(tier):
    """(id, source, pools)"""
    M = 'Memory m: "signal-M";\n'
    S = 'Signal s = ("signal-S", 0);\n'
    R = 'Signal r = ("signal-R", 0);\n'
    X = 'Signal x = ("signal-X", 50);\n'
    sr = {"s": [0, 1], "r": [0, 1]}
    xb = {"x": [10, 19, 20, 50, 79, 80, 90]}
    P = []
    for order, args in (("sr", "set=s, reset=r"), ("rs", "reset=r, set=s")):
        P.append((f"bool-{order}-v1", S + R + M + f"m.write(1, {args});\nSignal out = m.read();\n", sr))
        P.append((f"bool-{order}-v7", S + R + M + f"m.write(7, {args});\nSignal out = m.read();\n", sr))
        P.append((f"bool-{order}-vsig", S + R + 'Signal v = ("signal-V", 9);\n' + M + f'm.write(v | "signal-M", {args});\nSignal out = m.read();\n',
                  {"s": [0, 1], "r": [0, 1], "v": [9, 4]}))
    for order, args in (("sr", "set=x < 20, reset=x >= 80"), ("rs", "reset=x >= 80, set=x < 20")):
        P.append((f"hyst-{order}", X + M + f"m.write(1, {args});\nSignal out = m.read();\n", xb))
    for order, args in (("sr", "set=x < 60, reset=x >= 40"), ("rs", "reset=x >= 40, set=x < 60")):
        P.append((f"overlap-{order}", X + M + f"m.write(1, {args});\nSignal out = m.read();\n", {"x": [10, 39, 40, 50, 59, 60, 90]}))
    P.append(("const-left-sr", X + M + "m.write(1, set=20 > x, reset=80 <= x);\nSignal out = m.read();\n", xb))
    P.append(("two-inputs-sr", X + 'Signal y = ("signal-Y", 0);\n' + M + "m.write(1, set=x < 20, reset=y > 5);\nSignal out = m.read();\n",
              {"x": [10, 50], "y": [0, 9]}))
    P.append(("same-type-sr", 'Signal a = ("signal-A", 0);\nSignal b = ("signal-A", 0);\n' + M + "m.write(7, set=a, reset=b);\nSignal out = m.read();\n",
              {"a": [0, 1], "b": [0, 1]}) if False else
             ("same-type-cmp-sr", 'Signal a = ("signal-A", 0);\nSignal b = ("signal-B", 0);\n' + M + "Signal s1 = (a > 0) | \"signal-Q\";\nSignal r1 = (b > 0) | \"signal-Q\";\n"
              "m.write(7, set=s1, reset=r1);\nSignal out = m.read();\n", {"a": [0, 1], "b": [0, 1]}))
    P.append(("lamp", X + M + 'm.write(1, set=x < 20, reset=x >= 80);\nEntity l = place("small-lamp", 0, 0);\nl.enable = m.read() > 0;\nSignal out = m.read();\n', xb))
    return P


# ---------------------------------------------------------------------------------------------
def c14_scope(tier):
    """(id, source): every program violates exactly one documented static rule; the construct is
    embedded at top level, in a called function body, in a loop body, in a nested position."""
    PRE = 'Signal ok1 = ("signal-A", 1);\nSignal ok2 = ok1 + 1;\n'
    POST = "Signal ok3 = ok2 * 2;\n"
    # rule -> list of statement snippets that violate it (as statements in some scope)
    RULES = {
        "undefined-variable": ["Signal bad = nope + 1;"],
        "undefined-function": ["Signal bad = nofunc(3);"],
        "undefined-memory": ["Signal bad = nomem.read();", "nomem.write(1);"],
        "undefined-entity": ["noent.enable = 1;"],
        "redefinition": ["Signal dup = 1;\nSignal dup = 2;"],
        "assign-immutable": ["int k = 1;\nk = 2;"] if False else ["Signal q = 1;\nq = 2;"],
        "wrong-kind-int": ["int n = ok1;"],
        "wrong-kind-bundle": ["Bundle b = ok1 + 1;"],
        "wrong-kind-signal": ['Signal s = { ("signal-A", 1) };'],
        "arg-count": ["Signal bad = helper(1, 2, 3);"],
        "recursion": ["func rec(Signal a) { return rec(a) + 1; }\nSignal bad = rec(1);",
                      "func ra(Signal a) { return rb(a) + 1; }\nfunc rb(Signal a) { return ra(a) + 1; }\nSignal bad = ra(1);"],
        "bundle-duplicate": ['Bundle b = { ("signal-A", 1), ("signal-A", 2) };', 'Bundle b = { ok1, ("signal-A", 2) };',
                             'Bundle bx = { ("signal-B", 1), ("signal-C", 2) };\nBundle b = { bx, ("signal-B", 9) };',
                             'Bundle bx = { ("signal-B", 1) };\nBundle by = { ("signal-B", 3), ("signal-D", 4) };\nBundle b = { bx, by };',
                             'Bundle bx = { ("signal-B", 1) };\nBundle b = { bx, bx };',
                             # the two members only meet when the call is inlined
                             'func pk(Signal a, Signal b) {\n  Bundle t = { a, b };\n  return t;\n}\nBundle b = pk(ok1, ok1 + 1);',
                             'func pk2(Signal a) {\n  Bundle t = { a, ("signal-A", 3) };\n  return t;\n}\nBundle b = pk2(ok1);'],
        "bundle-op-bundle": ['Bundle b1 = { ("signal-A", 1) };\nBundle b2 = { ("signal-B", 1) };\nBundle b3 = b1 + b2;'],
        "bare-bundle-comparison": ['Bundle b1 = { ("signal-A", 1) };\nSignal bad = b1 > 3;'],
        "bundle-select-absent": ['Bundle b1 = { ("signal-A", 1) };\nSignal bad = b1["signal-Z"];'],
        "unknown-signal": ['Signal bad = ("not-a-real-signal", 1);', 'Signal bad = ok1 | "not-a-real-signal";'],
        "reserved-signal": ['Signal bad = ("signal-W", 1);', 'Signal bad = ok1 | "signal-W";', 'Memory mw: "signal-W";'],
        "memory-type-contradiction": ['Memory mt: "signal-M";\nmt.write(("signal-B", 1));'],
        "second-write": ['Memory m2: "signal-M";\nm2.write(1 | "signal-M");\nm2.write(2 | "signal-M");',
                         # the same cell written again from a nested scope, by every iteration of a loop, by every call of a function
                         'Memory m3: "signal-M";\nm3.write(1 | "signal-M");\nfor j3 in 0..1 {\n  m3.write(2 | "signal-M");\n}',
                         'Memory m4: "signal-M";\nfor j4 in 0..3 {\n  m4.write(j4 | "signal-M");\n}',
                         'Memory m5: "signal-M";\nfor j5 in 0..1 {\n  m5.write(1 | "signal-M");\n}\nfor k5 in 0..1 {\n  m5.write(2 | "signal-M");\n}',
                         'Memory m6: "signal-M";\nfunc w6(Signal v) {\n  m6.write(v | "signal-M");\n  return v;\n}\nSignal w6a = w6(ok1);\nSignal w6b = w6(ok2);',
                         'Memory m7: "signal-M";\nm7.write(1 | "signal-M", set=ok1 > 3, reset=ok1 < 0);\nfor j7 in 0..1 {\n  m7.write(2 | "signal-M", when=ok2 > 0);\n}'],
        "zero-step": ["for z in 0..3 step 0 {\n  Signal zz = 1;\n}", "int st = 0;\nfor z in 0..3 step st {\n  Signal zz = 1;\n}"],
        "non-comparison-before-colon": ["Signal bad = (ok1 + 1) : 5;"],
        "syntax-error": ["Signal bad = = 3;", "Signal bad 3;", "for i in { }"],
    }
    HELPERS = "func helper(Signal a) { return a + 1; }\n"
    out = []

    def indent(snip, n=2):
        return "\n".join(" " * n + ln for ln in snip.split("\n"))

    embeddings = {
        "top": lambda s: HELPERS + PRE + s + "\n" + POST,
        "top-first": lambda s: HELPERS + s + "\n" + PRE + POST,
        "func-body": lambda s: HELPERS + PRE + "func host(Signal p) {\n" + indent(s) + "\n  return p;\n}\nSignal call = host(ok1);\n" + POST,
        "loop-body": lambda s: HELPERS + PRE + "for it in 0..2 {\n" + indent(s) + "\n}\n" + POST,
        "func-after-return": lambda s: HELPERS + PRE + "func host(Signal p) {\n  Signal t = p + 1;\n  return t;\n" + indent(s) + "\n}\nSignal call = host(ok1);\n" + POST,
        "func-in-loop": lambda s: HELPERS + PRE + "func host(Signal p) {\n" + indent(s) + "\n  return p;\n}\nfor it in 0..2 {\n  Signal c = host(ok1);\n}\n" + POST,
        "nested-loop": lambda s: HELPERS + PRE + "for i1 in 0..2 {\n  for i2 in [1, 2] {\n" + indent(s, 4) + "\n  }\n}\n" + POST,
    }
    quick_emb = ["top", "func-body", "loop-body", "func-after-return"]
    for rule, snips in RULES.items():
        for si, sn in enumerate(snips):
            for ename, fn in embeddings.items():
                if tier == "quick" and ename not in quick_emb:
                    continue
                if (rule == "recursion" or "func " in sn) and ename != "top":
                    continue
                out.append((f"{rule}#{si}@{ename}", fn(sn)))
    return out


def c14_accepted_hosts():
    """Controls: the hosts without a violating construct must be accepted."""
    PRE = 'Signal ok1 = ("signal-A", 1);\nSignal ok2 = ok1 + 1;\n'
    M = ' | "signal-M"'
    return [("host", "func helper(Signal a) { return a + 1; }\n" + PRE + "Signal c = helper(ok1);\nfor it in 0..2 {\n  Signal t = ok2 + it;\n}\nSignal ok3 = ok2 * 2;\n"),
            # one write per cell: a cell of its own per iteration / per call, an outer cell written by a loop that runs once, two cells
            ("cell-per-iteration", PRE + 'for it in 0..3 {\n  Memory c1: "signal-M";\n  c1.write((ok1 + it)' + M + ');\n  Signal r1 = c1.read();\n}\n'),
            ("cell-per-call", PRE + 'func keep(Signal v) {\n  Memory c2: "signal-M";\n  c2.write(v' + M + ', when=v > 0);\n  return c2.read();\n}\nSignal k1 = keep(ok1);\nSignal k2 = keep(ok2);\n'),
            ("outer-cell-one-iteration", PRE + 'Memory c3: "signal-M";\nfor it in 0..1 {\n  c3.write(ok1' + M + ');\n}\nSignal r3 = c3.read();\n'),
            ("two-cells", PRE + 'Memory c4: "signal-M";\nMemory c5: "signal-M";\nc4.write(ok1' + M + ');\nfor it in 0..1 {\n  c5.write(ok2' + M + ');\n}\nSignal r4 = c4.read() + c5.read();\n')]


def c17_library_scope(tier):
    """Library functions called from programs whose own names collide with the library's parameter names."""
    I = 'import "lib/math.facto";\n'
    X = 'Signal x = ("signal-A", 37);\nSignal y = ("signal-B", -5);\n'
    P = []
    P.append(("abs-sign", I + X + "Signal r = abs(y);\nSignal q = sign(y) + sign(x);\n"))
    P.append(("min-max", I + X + "Signal r = min(x, y);\nSignal q = max(x, y);\n"))
    P.append(("clamp", I + X + "int low = 50;\nint high = 60;\nSignal r = clamp(x, 0, 10);\nSignal q = clamp(y, -3, 3);\n"))
    P.append(("lerp-shadow", I + X + "int a = 7;\nint b = 1000;\nSignal r = lerp(10, 20, x);\n"))
    P.append(("between", I + X + "Signal r = between(x, 0, 100);\nSignal q = between(y, 0, 100);\n"))
    P.append(("bits-shadow", I + X + "int pos = 3;\nSignal r = set_bit(x, 5);\nSignal q = clear_bit(x, 2);\nSignal p = toggle_bit(x, 0);\nSignal g = get_bit(x, 2);\n"))
    P.append(("bits-loop-shadow", I + X + "for pos in 1..3 {\n  Signal t = set_bit(x, 6);\n  Entity l = place(\"small-lamp\", pos * 2, 0);\n  l.enable = t > 100;\n}\n"))
    P.append(("divmod", I + X + "Signal r = div_floor(y, 3 | \"signal-C\");\nSignal q = mod_positive(y, 3 | \"signal-C\");\n"))
    return P


def repo_example_programs():
    """The repository's own stateless example programs (example_programs/*.facto without memories and imports): a realistic corpus next to the
    enumerated shapes.  Read from /repo's working tree at check time."""
    import glob
    import os
    import re
    root = os.environ.get("FACTO_REPO", "/repo")
    out = []
    for path in sorted(glob.glob(os.path.join(root, "example_programs", "*.facto"))):
        src = open(path).read()
        if re.search(r"^\s*Memory\b", src, re.M) or re.search(r"^\s*import\b", src, re.M) or ".write(" in src:
            continue
        out.append(("example:" + os.path.basename(path), src))
    return out
