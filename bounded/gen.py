"""Structural enumeration of small Facto programs (B-enum scopes; enumeration, not sampling)."""
from __future__ import annotations

import itertools

ARITH = ["+", "-", "*", "/", "%", "**", "<<", ">>", "AND", "OR", "XOR"]
CMP = ["==", "!=", "<", "<=", ">", ">="]
LOGIC = ["&&", "||"]

# leaf alphabet: name -> (declaration or None, expression text)
LEAVES = {
    "x": ('Signal x = ("signal-A", 6);', "x"),          # typed input on signal-A
    "y": ('Signal y = ("signal-B", 4);', "y"),          # typed input on signal-B
    "z": ('Signal z = ("signal-A", 9);', "z"),          # second input on x's signal
    "w": ("Signal w = 5;", "w"),                        # untyped input
    "k3": (None, "3"),
    "km2": (None, "-2"),
    "k0": (None, "0"),
    "ip": ('Signal ip = ("iron-plate", 11);', "ip"),    # item signal
}


def program(expr_text, used, result_type="Signal", extra_decls=(), name="r"):
    decls = [LEAVES[u][0] for u in sorted(used) if LEAVES[u][0]]
    return "\n".join(list(decls) + list(extra_decls) + [f"{result_type} {name} = {expr_text};"]) + "\n"


def binary_programs(leaf_pairs, ops):
    for (a, b) in leaf_pairs:
        for op in ops:
            e = f"{LEAVES[a][1]} {op} {LEAVES[b][1]}"
            if LEAVES[a][0] is None and LEAVES[b][0] is None:
                continue  # pure int expression: not a Signal computation (C11 covers folding)
            yield f"bin:{a}{op}{b}", program(e, {a, b})


def unary_programs(leaves):
    for a in leaves:
        for op in ("-", "!"):
            yield f"un:{op}{a}", program(f"{op}{LEAVES[a][1]}", {a})


def projection_programs(leaves):
    for a in leaves:
        for t in ("signal-C", "signal-A", "iron-plate"):
            yield f"proj:{a}|{t}", program(f'{LEAVES[a][1]} | "{t}"', {a})
    yield "proj:x|y.type", program("x | y.type", {"x", "y"})
    yield "lit:(y.type,x)", program("(y.type, 7) + x", {"x", "y"})


def outspec_programs():
    conds = ["x > 3", "x == y", "y <= 4", "x > 3 && y < 9", "x < 2 || y >= 4", "w != 0"]
    outs = ["y", "x", "7", "1", "w", "z"]
    for c, o in itertools.product(conds, outs):
        used = {u for u in ("x", "y", "z", "w") if u in (c + " " + o).replace("&&", " ").split() or f"{u} " in c + " " or c.startswith(u) or o == u}
        used = {u for u in ("x", "y", "z", "w") if _mentions(c, u) or _mentions(o, u)}
        yield f"spec:({c}):{o}", program(f"({c}) : {o}", used)


def _mentions(text, name):
    import re
    return re.search(rf"\b{name}\b", text) is not None


def nested_programs(ops_outer, ops_inner, leaves=("x", "y", "k3")):
    """depth-2 trees: (a op1 b) op2 c and a op2 (b op1 c) — exercises precedence/assoc. when printed
    WITHOUT redundant parentheses in the second family."""
    for o1 in ops_inner:
        for o2 in ops_outer:
            for (a, b, c) in (("x", "y", "k3"), ("x", "k3", "y"), ("y", "x", "z")):
                la, lb, lc = LEAVES[a][1], LEAVES[b][1], LEAVES[c][1]
                yield f"nestL:({a}{o1}{b}){o2}{c}", program(f"({la} {o1} {lb}) {o2} {lc}", {a, b, c})
                yield f"nestR:{a}{o2}({b}{o1}{c})", program(f"{la} {o2} ({lb} {o1} {lc})", {a, b, c})
                yield f"flat:{a}{o1}{b}{o2}{c}", program(f"{la} {o1} {lb} {o2} {lc}", {a, b, c})


def reuse_programs():
    """Sub-results reused by several statements (DAGs) and mixed types."""
    yield "dag1", ('Signal x = ("signal-A", 6);\nSignal y = ("signal-B", 4);\nSignal t = x + y;\n'
                   'Signal r = t * t;\nSignal q = t - x;\n')
    yield "dag2", ('Signal x = ("signal-A", 6);\nSignal t = x * 2;\nSignal r = (t > 5) : t;\nSignal q = t % 4;\n')
    yield "dag3", ('Signal x = ("signal-A", 6);\nSignal y = ("signal-B", 4);\nSignal c = x > y;\n'
                   'Signal r = c * x + (!c) * y;\n')
    yield "dag4", ('Signal x = ("signal-A", 6);\nSignal y = ("signal-B", 4);\nSignal r = (x + 1) * (y + 1);\n')
    yield "dag5", ('Signal x = ("signal-A", 6);\nSignal y = ("signal-A", 4);\nSignal r = x * y;\n')
    yield "dag6", ('Signal x = ("signal-A", 6);\nSignal y = ("signal-A", 4);\nSignal r = x - y;\nSignal q = y - x;\n')
    yield "dag7", ('Signal x = ("signal-A", 6);\nSignal y = ("signal-B", 4);\nSignal z = ("signal-C", 2);\n'
                   'Signal r = x + y + z;\nSignal q = (x | "signal-C") + (y | "signal-C") + z;\n')
    yield "dag8", ('Signal x = ("signal-A", 6);\nSignal r = ((x > 5) : 7) && (x < 100);\n')
    yield "dag9", ('Signal x = ("signal-A", 6);\nSignal y = ("signal-B", 4);\nSignal r = (x > 2) && (y > 2) && (x < 50);\n'
                   'Signal q = (x > 2) || (y > 2) || (x == 0);\n')
    yield "dag10", ('Signal x = ("signal-A", 6);\nSignal r = x * x * x;\nSignal q = -x + x;\n')


PAIRS_QUICK = [("x", "y"), ("x", "z"), ("x", "k3"), ("k3", "x"), ("w", "x"), ("x", "km2"), ("ip", "x")]
PAIRS_FULL = [(a, b) for a in LEAVES for b in LEAVES]


def c01_scope(tier):
    progs = []
    ops = ARITH + CMP + LOGIC
    progs += list(binary_programs(PAIRS_QUICK if tier == "quick" else PAIRS_FULL, ops))
    progs += list(unary_programs(["x", "w"] if tier == "quick" else ["x", "y", "w", "ip"]))
    progs += list(projection_programs(["x", "w"] if tier == "quick" else ["x", "y", "w", "ip", "k3"]))
    osp = list(outspec_programs())
    progs += osp if tier != "quick" else osp[::3]
    if tier == "quick":
        progs += list(nested_programs(["*", "-", "<", "&&"], ["+", "**", ">>", "=="]))[::2]
    else:
        progs += list(nested_programs(ARITH + CMP + LOGIC, ARITH + CMP))
    progs += list(reuse_programs())
    seen = set()
    out = []
    for pid, src in progs:
        if src in seen:
            continue
        seen.add(src)
        out.append((pid, src))
    return out


def c10_scope(tier):
    """Programs with repeated sub-expressions differing only in output type / output mode / operand
    kind, folded constants consumed by several node kinds, and high fan-out (CSE, const-prop, MST)."""
    H = 'Signal x = ("signal-A", 6);\nSignal y = ("signal-B", 4);\n'
    P = []
    P.append(("cse-same", H + "Signal r = (x * y) + 1;\nSignal q = (x * y) + 2;\n"))
    P.append(("cse-proj", H + 'Signal r = ((x * y) | "signal-X") + 1;\nSignal q = (x * y) + 2;\n'))
    P.append(("cse-proj2", H + 'Signal r = (x * 3) | "signal-X";\nSignal q = (x * 3) | "signal-Y";\n'))
    P.append(("cse-mode", H + "Signal r = (x > 3) : y;\nSignal q = (x > 3) : 1;\nSignal p = (x > 3) : 7;\n"))
    P.append(("cse-mode2", 'Signal x = ("signal-A", 6);\nSignal y = ("signal-A", 4);\nSignal r = (x > 3) : x;\nSignal q = (y > 3) : y;\n'))
    P.append(("cse-copysrc", 'Signal c = ("signal-C", 1);\nSignal x = ("signal-A", 6);\nSignal y = ("signal-A", 9);\n'
              'Signal r = ((c > 0) : x) + 0;\nSignal q = ((c > 0) : y) + 0;\n'))
    P.append(("cse-cmp", H + "Signal r = (x > y) * 5;\nSignal q = (x > y) + (x < y);\nSignal p = (x >= y);\n"))
    P.append(("cse-bundle-mode", 'Bundle b = { ("signal-A", 20), ("signal-B", 5) };\nBundle f1 = (b > 10) : b;\nBundle f2 = (b > 10) : 1;\n'))
    P.append(("cse-bundle-op", 'Bundle b = { ("signal-A", 20), ("signal-B", 5) };\nBundle f1 = b * 2;\nBundle f2 = b * 2;\nBundle f3 = b + 2;\n'))
    P.append(("fold-chain", 'Signal x = ("signal-A", 6);\nSignal r = x + (2 * 3) - (10 / 3);\nSignal q = x * (7 % 4) + (1 << 4);\n'))
    P.append(("fold-neg", 'Signal x = ("signal-A", 6);\nSignal r = x + (-7 / 2);\nSignal q = x + (-7 % 3);\nSignal p = x + (7 / -2);\n'))
    P.append(("fold-func", 'func f(Signal a, int n) { return a * n + (n / -3); }\nSignal x = ("signal-A", 6);\nSignal r = f(x, 7);\nSignal q = f(5, -7);\n'))
    P.append(("fold-func2", 'func sh(Signal a, int n) { return a >> n; }\nSignal r = sh(-64, 2);\nSignal q = sh(1000, 3) + sh(-7, 1);\n'))
    P.append(("fold-cond", 'Signal x = ("signal-A", 6);\nSignal r = (x > (2 + 3)) : (4 * 5);\nSignal q = ((1 + 1) < x) : x;\n'))
    P.append(("fold-lamp", 'Signal x = ("signal-A", 6);\nEntity l = place("small-lamp", 0, 0);\nl.enable = x > (2 * 3);\nSignal r = x + 1;\n'))
    fan = 'Signal x = ("signal-A", 6);\n' + "".join(f"Signal r{i} = x + {i + 1};\n" for i in range(6))
    P.append(("fanout6", fan))
    fan2 = H + "".join(f"Signal r{i} = (x * {i + 2}) + y;\n" for i in range(4))
    P.append(("fanout-two-sources", fan2))
    P.append(("diamond", H + "Signal t = x + 1;\nSignal u = t * 2;\nSignal v = t * 3;\nSignal r = u + v;\n"))
    for k in ((2, 3, 4) if tier == "quick" else range(1, 9)):
        lines = ['Signal a = ("signal-A", 10);', "Signal x = a + 1;"]
        for i in range(k):
            lines.append(f"Signal y{i} = x * {i + 1};")
            lines.append(f"Signal z{i} = x + y{i};")
        P.append((f"same-type-diamond{k}", "\n".join(lines) + "\n"))
    if tier != "quick":
        for k in range(2, 9):
            P.append((f"fan{k}", 'Signal x = ("signal-A", 6);\nSignal y = ("signal-A", 2);\n' + "".join(
                f"Signal z{i} = x + y;\nSignal w{i} = z{i} * {i + 2};\n" for i in range(k))))
    return P
