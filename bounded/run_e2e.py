"""Runs a scope of programs through the end-to-end judge in a process pool."""
from __future__ import annotations

import concurrent.futures as cf
import multiprocessing as mp
import os
import time

from checks.common import NPROC, BoundedResult


def _job(args):
    pid, src, opts = args
    import sys
    from bounded.e2e import judge
    try:
        pv = judge(src, **opts)
    except Exception as e:
        import traceback
        return pid, src, {"status": "error", "detail": f"{type(e).__name__}: {e}", "tb": traceback.format_exc()[-1500:], "outputs": []}
    return pid, src, {"status": pv.status, "detail": pv.detail, "n": pv.n_entities,
                      "outputs": [{"name": o.name, "status": o.status, "detail": o.detail, "witness": o.witness} for o in pv.outputs]}


def _init_worker():
    import resource
    import z3
    z3.set_param("memory_max_size", 3000)  # MB; a runaway query becomes `unknown`, not an OOM kill
    try:
        resource.setrlimit(resource.RLIMIT_AS, (12 << 30, 12 << 30))
    except Exception:
        pass


def run_pool(fn, jobs, nproc=None):
    ctx = mp.get_context("spawn")
    with cf.ProcessPoolExecutor(max_workers=nproc or NPROC, mp_context=ctx, initializer=_init_worker) as ex:
        return list(ex.map(fn, jobs, chunksize=max(1, len(jobs) // ((nproc or NPROC) * 4))))


def run_programs(name, progs, scope, known, *, opts=None, kf_crosstalk="KF-K7-crosstalk", classify=None,
                 exhaustive=True, option_refusal_ok=False, skip_rejected=False) -> BoundedResult:
    """progs: [(id, source)].  `classify(pid, src, output_dict) -> finding id | None` lets a property map a
    mismatch that exactly matches a recorded known finding to that finding."""
    opts = opts or {}
    br = BoundedResult(name, scope, exhaustive=exhaustive)
    br.assumptions = [
        "S2 circuit model (spec/circuit.py) and S3 source semantics (spec/facto_sem.py) are the trusted oracle",
        "S2: a circuit wire from a connector to itself (emitted for an entity whose condition reads its own report) is taken to form a one-entity network; "
        "a single-connector entity reads nothing on a colour it has no wire on (game behaviour, not checkable offline)",
        "bounded: the program-shape quantifier is restricted to the stated scope; the input-value quantifier is "
        "decided by SMT over all int32 valuations per program",
    ]
    results = run_pool(_job, [(pid, src, opts) for pid, src in progs])
    judged = 0
    for pid, src, r in results:
        br.cases += 1
        if r["status"] == "error":
            br.error = f"{pid}: {r['detail']}\n{r.get('tb', '')}"
            continue
        if r["status"] == "rejected" and option_refusal_ok and "[layout_planning]" in r["detail"]:
            # the SAME program is accepted without this option (the plain modes of the same check require it); with the option the
            # layout stage refuses it: no blueprint, so nothing the property (accepted programs only) speaks about. Counted and listed.
            br.monitors["refused_with_option"] = br.monitors.get("refused_with_option", 0) + 1
            br.monitors.setdefault("refused_programs", []).append(pid)
            continue
        if r["status"] == "rejected" and skip_rejected:
            # a corpus read from the repository (not a scope of programs known to be valid): a file the compiler refuses is not a case
            br.monitors["rejected_files"] = br.monitors.get("rejected_files", 0) + 1
            continue
        if r["status"] == "rejected":
            br.undecided.append(f"{pid}: scope program rejected by the compiler: {r['detail'][:200]}")
            continue
        if r["status"] in ("outside-s3",):
            continue
        if r["status"] == "accepted-but-s3-rejects":
            br.violations.append({"what": f"{pid}: compiler accepts a program S3 rejects: {r['detail']}", "witness": {"program": src}})
            continue
        judged += 1
        for o in r["outputs"]:
            if o["status"] in ("ok", "skip"):
                continue
            if o["status"] == "const-const-decider":
                if "KF-C01-noopt-constant-comparison" in known:
                    br.known_hits.append({"id": "KF-C01-noopt-constant-comparison", "what": f"{pid}:{o['name']}"})
                    continue
                o["status"] = "mismatch"
            if o["status"] == "entity-output-collision":
                if "KF-C06-entity-output-signal-collision" in known:
                    br.known_hits.append({"id": "KF-C06-entity-output-signal-collision", "what": f"{pid}:{o['name']}"})
                    continue
                o["status"] = "mismatch"
            if o["status"] == "duplicate-missing":
                if "KF-C10-cse-duplicate-name-lost" in known:
                    br.known_hits.append({"id": "KF-C10-cse-duplicate-name-lost", "what": f"{pid}:{o['name']}"})
                    continue
                o["status"] = "missing"
            if o["status"] == "type-deviation-param":
                if "KF-C15-inlined-result-type" in known:
                    br.known_hits.append({"id": "KF-C15-inlined-result-type", "what": f"{pid}:{o['name']}"})
                    continue
                o["status"] = "mismatch"
            if o["status"] == "type-deviation":
                if "KF-C01-comparison-result-type" in known:
                    br.known_hits.append({"id": "KF-C01-comparison-result-type", "what": f"{pid}:{o['name']}"})
                    continue
                o["status"] = "mismatch"
            if o["status"] == "crosstalk":
                wl = (known.get(kf_crosstalk) or {}).get("witnesses") if kf_crosstalk in known else None
                if kf_crosstalk in known and (wl is None or f"{pid}:{o['name']}" in wl):
                    br.known_hits.append({"id": kf_crosstalk, "what": f"{pid}:{o['name']}"})
                    continue
                o["detail"] = ("wire-isolation failure (differs from the source value, equal under ideal isolation) in a program "
                               "that is NOT one of the recorded witnesses of KF-K7-crosstalk; " + o["detail"])
                o["status"] = "mismatch"
            if o["status"] == "undecided":
                br.undecided.append(f"{pid}:{o['name']}: {o['detail']}")
                continue
            fid = classify(pid, src, o) if classify else None
            if not fid:
                # findings recorded by their witnesses only: exactly the listed (program, output) pairs
                for kid, ent in known.items():
                    if isinstance(ent, dict) and ent.get("match") == "witness" and (
                            f"{pid}:{o['name']}" in (ent.get("witnesses") or []) or f"{pid}:*" in (ent.get("witnesses") or [])):
                        fid = kid
                        break
            if fid and fid in known:
                br.known_hits.append({"id": fid, "what": f"{pid}:{o['name']}"})
                continue
            br.violations.append({"what": f"{pid}: output {o['name']}: {o['status']} {o['detail']}",
                                  "witness": {"program": src, **(o.get("witness") or {})}, "options": opts})
        if len(br.samples) < 3:
            br.samples.append({"id": pid, "program": src, "verdict": [(o["name"], o["status"]) for o in r["outputs"]]})
    br.distinct = judged
    if option_refusal_ok and br.monitors.get("refused_with_option", 0) * 2 > br.cases:
        br.undecided.append(f"more than half of the scope ({br.monitors['refused_with_option']} of {br.cases}) is refused with options {opts}: nothing left to judge")
    return br
