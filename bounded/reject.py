"""C14 bounded stand-in: ill-formed programs are refused and nothing that looks like a blueprint is emitted."""
from __future__ import annotations

from bounded.run_e2e import run_pool
from checks.common import BoundedResult


def _job(args):
    pid, src = args
    from bounded import pipeline
    cap = pipeline.compile_capture(src, use_json=True)
    looks_like_bp = bool(cap.ok) or (isinstance(cap.result, str) and ('"blueprint"' in cap.result or cap.result.startswith("0e")))
    return pid, src, {"ok": cap.ok, "error": (cap.error or "")[:300], "blueprint_like": looks_like_bp}


def run_reject_scope(name, progs, controls, scope, known, classify=None):
    br = BoundedResult(name, scope, exhaustive=True, kind="B-enum(ill-formed programs)")
    res = run_pool(_job, list(progs) + [("control:" + p, s) for p, s in controls])
    for pid, src, r in res:
        br.cases += 1
        if pid.startswith("control:"):
            if not r["ok"]:
                br.error = f"{pid}: the accepted host program is rejected: {r['error']}"
            continue
        br.distinct += 1
        if r["ok"] or r["blueprint_like"]:
            fid = classify(pid, src) if classify else None
            if fid and fid in known:
                br.known_hits.append({"id": fid, "what": pid})
                continue
            br.violations.append({"what": f"{pid}: ill-formed program accepted, a blueprint was produced",
                                  "witness": {"program": src}})
        elif not r["error"]:
            br.violations.append({"what": f"{pid}: refused without an error message", "witness": {"program": src}})
        if len(br.samples) < 3:
            br.samples.append({"id": pid, "program": src, "refused_with": r["error"][:120]})
    br.assumptions = ["bounded: the listed rules x snippets x embeddings"]
    return br
