"""C07 bounded stand-in: the REAL command-line entry points are run as subprocesses over a matrix of
invocation modes; the emitted text is decoded (base64 + zlib + JSON, or plain JSON) and the decoded
blueprint is (a) checked for completeness and (b) executed by the S2 model against S3 for all inputs."""
from __future__ import annotations

import base64
import itertools
import json
import os
import subprocess
import sys
import tempfile
import zlib

from bounded.run_e2e import run_pool
from checks.common import BoundedResult

REPO = os.environ.get("FACTO_REPO", "/repo")
PY = sys.executable

PROGRAMS = [
    ("arith", 'Signal x = ("signal-A", 6);\nSignal y = ("signal-B", 4);\nSignal r = (x + y) * 2;\nSignal q = (x > 3) : y;\n'),
    ("const-left-filter", 'Signal a = ("signal-A", 3);\nSignal b = ("signal-A", 7);\nSignal c = (5 < a) : b;\n'),
    ("two-wires-same-pair", 'Signal x = ("iron-plate", 10);\nSignal y = x | "copper-plate";\nSignal z = x + y;\nSignal w0 = x * 3;\nSignal w1 = x - 1;\n'),
    ("bundle", 'Bundle b = { ("signal-A", 20), ("signal-B", 5) };\nBundle r = (b > 10) : b;\nSignal n = any(b) > 15;\n'),
    ("lamp", 'Signal x = ("signal-A", 6);\nEntity l = place("small-lamp", 0, 0);\nl.enable = x > 3;\nEntity p = place("power-switch", 4, 0);\np.enable = x < 9;\n'),
    ("all-implicit", 'Signal a = 5;\nSignal b = a * 2;\nEntity l = place("small-lamp", 0, 0);\nl.enable = b;\nSignal r = b + a;\n'),
    ("const-multi", 'Signal x = ("signal-A", 6);\nSignal y = ("signal-B", 4);\nSignal d = (x > 3 && y < 9) : 4;\nSignal k = ("signal-C", 42);\nSignal s = k + x;\n'),
]

ENTRIES = {"cli": ["-m", "dsl_compiler.cli"], "module": ["-m", "dsl_compiler"], "compile.py": [os.path.join(REPO, "compile.py")]}
OPTION_SETS = {"default": [], "no-optimize": ["--no-optimize"], "poles": ["--power-poles", "medium"], "name": ["--name", "My Circuit"]}


def decode_text(text, as_json):
    text = text.strip()
    if as_json:
        return json.loads(text)
    if not text or text[0] != "0":
        raise ValueError("blueprint string does not start with version byte '0'")
    return json.loads(zlib.decompress(base64.b64decode(text[1:])).decode("utf-8"))


def configs(tier):
    full = []
    for entry, inp, fmt, sink, opt in itertools.product(ENTRIES, ("file", "-i"), ("string", "json"), ("stdout", "-o"), OPTION_SETS):
        if entry == "compile.py" and inp == "-i":
            continue
        full.append((entry, inp, fmt, sink, opt))
    if tier != "quick":
        return full
    # quick: a covering subset (every value of every dimension, every entry x format x sink)
    chosen = []
    for i, cfg in enumerate(full):
        entry, inp, fmt, sink, opt = cfg
        if (i * 7 + len(entry)) % 5 == 0:
            chosen.append(cfg)
    for entry in ENTRIES:
        for fmt in ("string", "json"):
            for sink in ("stdout", "-o"):
                if not any(c[0] == entry and c[2] == fmt and c[3] == sink for c in chosen):
                    chosen.append(next(c for c in full if c[0] == entry and c[2] == fmt and c[3] == sink))
    return chosen


def _run_one(args):
    pid, src, cfg = args
    entry, inp, fmt, sink, opt = cfg
    from bounded.e2e import judge
    with tempfile.TemporaryDirectory(prefix="c07_") as td:
        cmd = [PY] + ENTRIES[entry]
        if inp == "file":
            f = os.path.join(td, "prog_under_test.facto")
            open(f, "w").write(src)
            cmd.append(f)
        else:
            cmd += ["-i", src]
        if fmt == "json":
            cmd.append("--json")
        out_file = None
        if sink == "-o":
            out_file = os.path.join(td, "out", "result.blueprint")
            cmd += ["-o", out_file]
        cmd += OPTION_SETS[opt]
        env = dict(os.environ, PYTHONPATH=REPO, PYTHONDONTWRITEBYTECODE="1")
        p = subprocess.run(cmd, cwd=td, capture_output=True, text=True, env=env, timeout=600)
        res = {"cfg": list(cfg), "rc": p.returncode, "problems": []}
        if p.returncode != 0:
            res["problems"].append(f"exit status {p.returncode}: {p.stderr.strip()[-300:]}")
            return pid, src, res
        if out_file:
            if p.stdout.strip():
                res["problems"].append(f"-o given but stdout is not empty: {p.stdout.strip()[:80]}")
            if not os.path.exists(out_file):
                res["problems"].append("-o file not written")
                return pid, src, res
            text = open(out_file).read()
        else:
            text = p.stdout
        try:
            bp = decode_text(text, fmt == "json")
        except Exception as e:
            res["problems"].append(f"emitted text does not decode: {type(e).__name__}: {e}")
            return pid, src, res
        b = bp.get("blueprint", {})
        ents = b.get("entities", [])
        for e in ents:
            if e["name"] in ("arithmetic-combinator", "decider-combinator") and not e.get("control_behavior"):
                res["problems"].append(f"combinator {e['entity_number']} has no configuration")
        if not b.get("wires") and len(ents) > 1:
            res["problems"].append("no wires in the decoded blueprint")
        if opt == "name" and b.get("label", "").find("My Circuit") < 0:
            res["problems"].append(f"--name not applied: label={b.get('label')!r}")
        res["logical"] = sorted(json.dumps([e["name"], e.get("control_behavior"), (e.get("player_description") or "").split("]")[-1]], sort_keys=True)
                                for e in ents if e["name"] not in ("medium-electric-pole", "small-electric-pole", "big-electric-pole", "substation"))
        pv = judge(src, optimize=(opt != "no-optimize"), bp=bp)
        for o in pv.outputs:
            if o.status not in ("ok", "skip", "type-deviation", "type-deviation-param"):
                res["problems"].append(f"decoded blueprint: {o.name}: {o.status} {o.detail} {o.witness}")
        if pv.status != "judged":
            res["problems"].append(f"judge: {pv.status} {pv.detail}")
        return pid, src, res


def run_cli_matrix(name, tier, scope, known):
    br = BoundedResult(name, scope, exhaustive=(tier != "quick"), kind="B-enum(CLI matrix)")
    cfgs = configs(tier)
    progs = PROGRAMS if tier != "quick" else PROGRAMS
    jobs = []
    for k, (pid, src) in enumerate(progs):
        for j, cfg in enumerate(cfgs):
            if tier == "quick" and (j + k) % 3 != 0:
                continue
            jobs.append((pid, src, cfg))
    logical = {}
    for pid, src, r in run_pool(_run_one, jobs):
        br.cases += 1
        br.distinct += 1
        for prob in r["problems"]:
            br.violations.append({"what": f"{pid} {r['cfg']}: {prob}"[:600], "witness": {"program": src, "invocation": r["cfg"]}})
        if "logical" in r:
            key = (pid, r["cfg"][4])
            logical.setdefault(key, []).append((r["cfg"], r["logical"]))
        if len(br.samples) < 3:
            br.samples.append({"program": pid, "invocation": r["cfg"], "exit": r["rc"]})
    # string and --json (and every entry point / sink) describe the same blueprint
    for (pid, opt), lst in logical.items():
        ref_cfg, ref = lst[0]
        for cfg, lg in lst[1:]:
            if lg != ref:
                br.violations.append({"what": f"{pid}: invocations {ref_cfg} and {cfg} describe different blueprints (configured entities differ)",
                                      "witness": {"a": ref[:6], "b": lg[:6]}})
    br.assumptions = ["stdlib base64/zlib/json round-trip", "S2/S3 oracle for the decoded circuit",
                      "bounded: the listed programs x invocation matrix"]
    return br
