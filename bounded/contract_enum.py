"""B-enum for a single contract: the REAL function is called on every input of a stated finite scope and
the contract's executable twin (the same lambdas the VC generator uses) is evaluated on each call.
Stands in for the P obligations when the function drifts out of the verifier's subset (refactoring);
always labelled bounded."""
from __future__ import annotations

import time

from checks.common import BoundedResult
from pyvc import source
from pyvc.engine import NS
from pyvc.verify import check_real_hash, real_function


def run_contract_enum(name, contract, arg_sets, scope, max_report=5) -> BoundedResult:
    br = BoundedResult(name, scope, exhaustive=True, kind="B-enum(contract)")
    br.function = contract.qualname
    fsrc = source.get_function(contract.qualname)
    check_real_hash(fsrc)
    fn, cls = real_function(fsrc)
    wrap = getattr(contract, "wrap_real", None)
    if wrap is not None:   # harness around the REAL function (sets the environment it reads, adapts the argument tuple); the function itself is unchanged
        fn = wrap(fn)
    seen = set()
    for args in arg_sets:
        br.cases += 1
        a = NS(dict(args))
        if not all(bool(r(a)) for _n, r in contract.requires):
            continue
        key = repr(sorted((k, _key(v)) for k, v in args.items()))
        if key not in seen:
            seen.add(key)
        call = dict(args)
        try:
            if fsrc.cls and not fsrc.is_static:
                recv = call.pop(next(iter(call)))
                res = getattr(cls if fsrc.is_classmethod else recv, fsrc.node.name)(**call)
            else:
                res = fn(**call)
        except Exception as e:
            en = type(e).__name__
            ok = en in contract.raises and (contract.raises[en] is None or bool(contract.raises[en](a)))
            if not ok and len(br.violations) < max_report:
                br.violations.append({"what": f"{contract.short} raised {en} where the contract does not allow it",
                                      "witness": {"args": _show(args), "raised": f"{en}: {e}"}})
            continue
        for ename, efn in contract.ensures:
            try:
                ok = bool(efn(a, res))
            except Exception as e:  # spec could not be evaluated: checker problem, not a verdict
                br.error = f"ensures[{ename}] not evaluable on {_show(args)}: {type(e).__name__}: {e}"
                return br
            if not ok and len(br.violations) < max_report:
                br.violations.append({"what": f"{contract.short}: ensures[{ename}] false",
                                      "witness": {"args": _show(args), "result": _show(res)}})
    br.distinct = len(seen)
    br.samples = [{"args": _show(args)} for args in arg_sets[:2]]
    br.assumptions = ["bounded: only the enumerated argument tuples are covered"]
    return br


def _key(v):
    d = getattr(v, "__dict__", None)
    return repr(sorted(d.items())) if d is not None else repr(v)


def _show(v, depth=0):
    if depth > 6:
        return repr(v)[:80]
    if callable(v) and not isinstance(v, type):
        return getattr(v, "__name__", "callable")
    if isinstance(v, dict):
        return {str(k): _show(x, depth + 1) for k, x in v.items()}
    if isinstance(v, (int, str, bool)) or v is None:
        return v
    if isinstance(v, (list, tuple)):
        return [_show(x, depth + 1) for x in v[:30]]
    d = getattr(v, "__dict__", None)
    if d is not None:
        return {"class": type(v).__name__, **{k: _show(x, depth + 1) for k, x in d.items() if k in ("start", "stop", "step", "values", "op", "value", "_scenario", "source_entity_id", "sink_entity_id")}}
    return repr(v)[:80]
