"""C17 imports: all import graphs over a few generated files; the importing program must compile to a
blueprint that equals (S2 vs S3, all inputs) the program with every file's text pasted in once."""
from __future__ import annotations

import itertools
import os
import shutil
import tempfile

from bounded.run_e2e import run_pool
from checks.common import BoundedResult

FILES = ["fa", "fb", "fc"]
MULT = {"fa": 2, "fb": 3, "fc": 5}


SUBDIR = {"flat": set(), "sub": {"fb"}}  # which library files live in proj/sub/ (the others next to main.facto)


def spelled(importer, importee, layout):
    """the import path as the importing file has to write it: relative to its own directory"""
    in_sub = lambda n: n in SUBDIR[layout]  # noqa: E731
    if in_sub(importer) == in_sub(importee):
        return importee
    return f"sub/{importee}" if in_sub(importee) else f"../{importee}"


def file_text(name, imports, main_name=None, layout="flat"):
    lines = [f'import "{spelled(name, i, layout)}.facto";' for i in imports]
    lines.append(f"func {name}(Signal v) {{ return v * {MULT[name]} + {MULT[name]}; }}")
    return "\n".join(lines) + "\n"


def main_text(imports, layout="flat"):
    body = [f'import "{spelled("main", i, layout)}.facto";' for i in imports]
    body.append('Signal x = ("signal-A", 6);')
    return body


def reachable(edges, start):
    seen, order = set(), []

    def rec(n):
        for m in edges.get(n, []):
            if m not in seen and m != "main":
                seen.add(m)
                rec(m)
                order.append(m)
    rec(start)
    return seen


def pasted_twin(edges):
    """Documented semantics: each file's text stands in place of its FIRST import, once; later or cyclic
    imports of a file already included (or of the importing main file) contribute nothing."""
    done = {"main"}

    def expand(name):
        out = []
        for i in edges.get(name, []):
            if i in done:
                continue
            done.add(i)
            out.extend(expand(i))
        if name != "main":
            out.append(f"func {name}(Signal v) {{ return v * {MULT[name]} + {MULT[name]}; }}")
        return out

    lines = expand("main")
    lines.append('Signal x = ("signal-A", 6);')
    return lines


def cases(tier):
    out = []
    pairs = [(a, b) for a in FILES for b in FILES]  # includes self-imports
    # import edges among library files: subsets of a small candidate set
    cand = [("fa", "fb"), ("fb", "fc"), ("fa", "fc"), ("fb", "fa"), ("fc", "fa"), ("fa", "fa"), ("fc", "main"), ("fb", "main")]
    subsets = []
    for r in range(0, 4 if tier == "quick" else 5):
        subsets.extend(itertools.combinations(cand, r))
    main_imports = [["fa"], ["fa", "fb"], ["fb", "fa", "fb"], ["fa", "fb", "fc"], ["fc", "fa"]]
    k = 0
    for mi in main_imports:
        for sub in subsets:
            k += 1
            if tier == "quick" and k % 5 != 0:
                continue
            edges = {"main": list(mi)}
            for (a, b) in sub:
                edges.setdefault(a, []).append(b)
            out.append(edges)
    return out


def _job(args):
    idx, edges, cwd_mode, layout = args
    from bounded import pipeline
    from bounded.e2e import judge
    td = tempfile.mkdtemp(prefix="c17_")
    old = os.getcwd()
    try:
        sub = os.path.join(td, "proj")
        os.makedirs(sub)
        os.makedirs(os.path.join(sub, "sub"))
        for f in FILES:
            d = os.path.join(sub, "sub") if f in SUBDIR[layout] else sub
            open(os.path.join(d, f + ".facto"), "w").write(file_text(f, edges.get(f, []), layout=layout))
        used = sorted(reachable(edges, "main"))
        calls = [f"Signal r_{f} = {f}(x);" for f in used]
        main_lines = main_text(edges["main"], layout) + calls
        main_src = "\n".join(main_lines) + "\n"
        main_path = os.path.join(sub, "main.facto")
        open(main_path, "w").write(main_src)
        twin = "\n".join(pasted_twin(edges) + calls) + "\n"
        os.chdir({"proj": sub, "parent": td, "root": "/"}[cwd_mode])
        cap = pipeline.compile_capture(main_src, source_name=main_path)
        res = {"edges": edges, "cwd": cwd_mode, "layout": layout, "problems": []}
        if not cap.ok:
            res["problems"].append(f"importing program rejected: {cap.error[:300]}")
            return idx, res
        cap2 = pipeline.compile_capture(twin)
        if not cap2.ok:
            res["problems"].append(f"CHECKER: pasted twin rejected: {cap2.error[:200]}")
            return idx, res
        pv = judge(twin, bp=cap.bp)
        if pv.status != "judged":
            res["problems"].append(f"judge: {pv.status} {pv.detail}")
        for o in pv.outputs:
            if o.status not in ("ok", "skip"):
                res["problems"].append(f"{o.name}: {o.status} {o.detail} {o.witness}")
        return idx, res
    except Exception as e:
        import traceback
        return idx, {"edges": edges, "cwd": cwd_mode, "layout": layout, "problems": [f"CHECKER: {type(e).__name__}: {e} {traceback.format_exc()[-500:]}"]}
    finally:
        os.chdir(old)
        shutil.rmtree(td, ignore_errors=True)


def run_import_scope(name, tier, scope, known):
    br = BoundedResult(name, scope, exhaustive=(tier != "quick"), kind="B-enum(import graphs)")
    cs = cases(tier)
    jobs = []
    for i, e in enumerate(cs):
        for cwd in (("proj", "root") if tier == "quick" else ("proj", "parent", "root")):
            jobs.append((i, e, cwd, "flat"))
        # the same graphs with one file in a subdirectory: a file is then reached under two spellings (x.facto / ../x.facto)
        if tier != "quick" or i % 3 == 0:
            jobs.append((i, e, "proj", "sub"))
    for idx, r in run_pool(_job, jobs):
        br.cases += 1
        br.distinct += 1
        for p in r["problems"]:
            if p.startswith("CHECKER"):
                br.error = p
                continue
            br.violations.append({"what": f"import graph {r['edges']} (cwd={r['cwd']}, layout={r.get('layout')}): {p}"[:500],
                                  "witness": {"edges": r["edges"], "cwd": r["cwd"], "layout": r.get("layout")}})
        if len(br.samples) < 3:
            br.samples.append({"edges": r["edges"], "cwd": r["cwd"]})
    br.assumptions = ["bounded: import graphs over 3 generated files + the main file, listed working directories"]
    return br
