"""C08 / C18 bounded stand-ins on emitted blueprints: collision boxes, wire endpoints / colours / reach,
relay isolation (against the compiler's own signal graph), power coverage and the copper grid."""
from __future__ import annotations

from bounded.run_e2e import run_pool
from checks.common import BoundedResult
from spec import geometry as G
from spec.circuit import Circuit


def check_pasteable(bp):
    """-> list of problems (strings) for C08's geometric part."""
    b = bp.get("blueprint", bp)
    ents = {e["entity_number"]: e for e in b.get("entities", [])}
    probs = []
    items = list(ents.values())
    for i in range(len(items)):
        a = items[i]
        ap = (a["position"]["x"], a["position"]["y"])
        ab = G.collision_box(a["name"], a.get("direction", 0))
        for j in range(i + 1, len(items)):
            c = items[j]
            cp = (c["position"]["x"], c["position"]["y"])
            if abs(ap[0] - cp[0]) > 6 or abs(ap[1] - cp[1]) > 6:
                continue
            if G.boxes_intersect(ap, ab, cp, G.collision_box(c["name"], c.get("direction", 0))):
                probs.append(f"collision boxes of {a['name']}#{a['entity_number']}@{ap} and {c['name']}#{c['entity_number']}@{cp} intersect")
    for w in b.get("wires", []):
        e1, c1, e2, c2 = w
        if e1 not in ents or e2 not in ents:
            probs.append(f"wire {w} joins a non-existing entity")
            continue
        n1, n2 = ents[e1]["name"], ents[e2]["name"]
        if c1 not in G.connector_ids(n1) or c2 not in G.connector_ids(n2):
            probs.append(f"wire {w}: connector not present on {n1}/{n2}")
            continue
        if c1 in (5, 6) or c2 in (5, 6):
            if not (c1 in (5, 6) and c2 in (5, 6)):
                probs.append(f"wire {w}: copper connector joined to a circuit connector")
            continue
        col1 = "red" if c1 in (1, 3) else "green"
        col2 = "red" if c2 in (1, 3) else "green"
        if col1 != col2:
            probs.append(f"wire {w}: colours differ at the two ends ({col1}/{col2})")
        p1 = (ents[e1]["position"]["x"], ents[e1]["position"]["y"])
        p2 = (ents[e2]["position"]["x"], ents[e2]["position"]["y"])
        r1, r2 = G.wire_reach(n1), G.wire_reach(n2)
        reach = min(x for x in (r1, r2) if x is not None) if (r1 or r2) else None
        if e1 != e2 and reach is not None and G.dist(p1, p2) > reach + 1e-6:
            probs.append(f"circuit wire {w} ({n1}@{p1} - {n2}@{p2}) is {G.dist(p1, p2):.2f} long, reach {reach}")
    return probs


def check_relay_isolation(cap, bp):
    """Every actual circuit network, restricted to non-pole connectors, must lie inside ONE component of
    the graph of intended signal-graph edges (a relay — or any wire — joining two intended components
    joins two different circuit networks)."""
    from bounded import pipeline
    c = Circuit(bp)
    pos2pid = pipeline.placement_by_position(cap)
    num2pid = {e.num: pos2pid.get((float(e.pos[0]), float(e.pos[1]))) for e in c.ents.values()}
    cp = cap.planner.connection_planner
    if cp is None:
        return []
    colors = getattr(cp, "_edge_wire_colors", {})
    parent = {}

    def find(x):
        parent.setdefault(x, x)
        while parent[x] != x:
            parent[x] = parent[parent[x]]
            x = parent[x]
        return x

    def union(a, b):
        ra, rb = find(a), find(b)
        if ra != rb:
            parent[ra] = rb

    # intended components per colour over (placement id, role in {out,in})
    for (src, sink, _sig), col in colors.items():
        union((src, "out", col), (sink, "in", col))
    for wc in cap.plan.wire_connections:
        # wires the memory builder adds explicitly (feedback, write->hold) are intended too
        ss = "out" if (wc.source_side or "output") == "output" else "in"
        ks = "in" if (wc.sink_side or "input") == "input" else "out"
        if getattr(cap.plan.entity_placements.get(wc.source_entity_id), "role", "") in ("relay", "wire_relay", "power_pole") or \
           getattr(cap.plan.entity_placements.get(wc.sink_entity_id), "role", "") in ("relay", "wire_relay", "power_pole"):
            continue
    probs = []
    for netset in c.partition():
        comps = {}
        for (num, conn) in netset:
            e = c.ents.get(num)
            if e is None or e.kind == "pole":
                continue
            pid = num2pid.get(num)
            if pid is None:
                continue
            col = c.colour(conn)
            if e.kind in ("arith", "decider"):
                role = "out" if conn in (3, 4) else "in"
                keys = [(pid, role, col)]
            else:
                keys = [(pid, "out", col), (pid, "in", col)]
            known = [k for k in keys if k in parent]
            if not known:
                continue
            comps.setdefault(find(known[0]), []).append((pid, conn))
            for k in known[1:]:
                union(known[0], k)
        roots = {find(r) for r in comps}
        if len(roots) > 1:
            has_pole = any(c.ents[n].kind == "pole" for (n, _c) in netset if n in c.ents)
            probs.append(f"circuit network joins {len(roots)} different intended networks"
                         f"{' through a relay pole' if has_pole else ''}: {sorted(str(v[0]) for v in comps.values())[:4]}")
    return probs


def check_power(bp, pole_type):
    """C18: every electric consumer intersects a supply area of the requested pole type; poles form one
    copper network with wires no longer than both ends' reach; without the option no non-relay pole."""
    POLE = {"small": "small-electric-pole", "medium": "medium-electric-pole", "big": "big-electric-pole", "substation": "substation"}
    b = bp.get("blueprint", bp)
    ents = {e["entity_number"]: e for e in b.get("entities", [])}
    probs = []
    if not pole_type:
        return probs
    pname = POLE[pole_type]
    poles = [e for e in ents.values() if e["name"] == pname]
    r = G.supply_radius(pname)
    for e in ents.values():
        if not G.is_electric_consumer(e["name"]):
            continue
        (x1, y1), (x2, y2) = G.collision_box(e["name"], e.get("direction", 0))
        ex, ey = e["position"]["x"], e["position"]["y"]
        ok = False
        for p in poles:
            px, py = p["position"]["x"], p["position"]["y"]
            # supply square [px-r, px+r] x [py-r, py+r] intersects the entity's box
            if ex + x1 < px + r and px - r < ex + x2 and ey + y1 < py + r and py - r < ey + y2:
                ok = True
                break
        n_consumers = locals().get("n_consumers", 0) + 1
        if not ok:
            uncovered = locals().get("uncovered", 0) + 1
            probs.append(f"[coverage] {e['name']}#{e['entity_number']}@({ex},{ey}) lies outside the supply area of every {pname}")
    n_cons = sum(1 for e in ents.values() if G.is_electric_consumer(e["name"]))
    n_unc = sum(1 for p_ in probs if p_.startswith("[coverage]"))
    if n_cons and pole_type != "big" and n_unc >= 2 and n_unc * 2 > n_cons:   # a collapse needs several consumers: one missed consumer is the [coverage] class
        probs.append(f"[coverage-collapse] {n_unc} of {n_cons} electric consumers are outside every {pname} supply area ({len(poles)} poles emitted)")
    if n_cons and not poles:
        probs.append(f"[no-poles] --power-poles {pole_type} requested, {n_cons} electric consumers, but no {pname} emitted")
    # copper network
    all_poles = [e for e in ents.values() if G.is_pole(e["name"])]
    parent = {p["entity_number"]: p["entity_number"] for p in all_poles}

    def find(x):
        while parent[x] != x:
            parent[x] = parent[parent[x]]
            x = parent[x]
        return x
    for w in b.get("wires", []):
        e1, c1, e2, c2 = w
        if c1 == 5 and c2 == 5 and e1 in parent and e2 in parent:
            p1, p2 = ents[e1], ents[e2]
            d = G.dist((p1["position"]["x"], p1["position"]["y"]), (p2["position"]["x"], p2["position"]["y"]))
            reach = min(G.copper_reach(p1["name"]), G.copper_reach(p2["name"]))
            if d > reach + 1e-6:
                probs.append(f"[copper-reach] copper wire {p1['name']}#{e1} - {p2['name']}#{e2} is {d:.2f} long, reach {reach}")
            parent[find(e1)] = find(e2)
    roots = {find(p["entity_number"]) for p in poles}
    if len(roots) > 1:
        probs.append(f"[grid-split] the {len(poles)} {pname}s form {len(roots)} separate electric networks")
    return probs


def _job(args):
    pid, src, opts, want = args
    from bounded import pipeline
    cap = pipeline.compile_capture(src, **opts)
    if not cap.ok:
        return pid, src, opts, {"rejected": cap.error[:300]}
    res = {"problems": [], "n": len(cap.bp["blueprint"].get("entities", []))}
    if "paste" in want:
        res["problems"] += check_pasteable(cap.bp)
    if "relay" in want:
        try:
            res["problems"] += check_relay_isolation(cap, cap.bp)
        except Exception as e:
            res["problems"].append(f"CHECKER relay isolation: {type(e).__name__}: {e}")
    if "power" in want:
        res["problems"] += check_power(cap.bp, opts.get("power_pole_type"))
        if not opts.get("power_pole_type"):
            relay_ids = {pid_ for pid_, pl in cap.plan.entity_placements.items() if getattr(pl, "role", "") in ("relay", "wire_relay")}
            n_poles = sum(1 for e in cap.bp["blueprint"]["entities"] if G.is_pole(e["name"]))
            user_poles = sum(1 for pl in cap.plan.entity_placements.values() if pl.properties.get("user_specified_position") and G.is_pole(pl.entity_type))
            if n_poles > len(relay_ids) + user_poles:
                res["problems"].append(f"[stray-poles] {n_poles} poles emitted without --power-poles but only {len(relay_ids)} relays and {user_poles} user poles planned")
    return pid, src, opts, res


def run_geometry_scope(name, progs, modes, want, scope, known, classify=None):
    br = BoundedResult(name, scope, exhaustive=True, kind="B-enum(blueprint geometry)")
    jobs = [(pid, src, dict(m), want) for pid, src in progs for m in modes]
    for pid, src, opts, r in run_pool(_job, jobs):
        br.cases += 1
        if "rejected" in r:
            # the compiler refused the program under these options (layout infeasible): no blueprint, nothing to judge
            br.monitors["refused_by_compiler"] = br.monitors.get("refused_by_compiler", 0) + 1
            continue
        br.distinct += 1
        for p in r["problems"][:4]:
            if p.startswith("CHECKER"):
                br.error = f"{pid}: {p}"
                continue
            fid = classify(pid, opts, p) if classify else None
            if fid and fid in known:
                br.known_hits.append({"id": fid, "what": f"{pid} {opts}"})
                continue
            br.violations.append({"what": f"{pid} {opts}: {p}"[:500], "witness": {"program": src, "options": opts}})
        if len(br.samples) < 3:
            br.samples.append({"id": pid, "options": opts, "entities": r["n"]})
    br.assumptions = ["S4: prototype data shipped with draftsman is the game's data; wire length = Euclidean centre distance",
                      "bounded: listed programs x option sets; CP-SAT's nondeterminism is not enumerated"]
    return br
