"""Runs the REAL compiler (imported from FACTO_REPO) and captures its intermediate artefacts by
wrapping stage entry points from the outside (B-mon style; /repo is not edited)."""
from __future__ import annotations

import contextlib
import io
import json
import logging
import os
import sys
from dataclasses import dataclass, field

REPO = os.environ.get("FACTO_REPO", "/repo")


def ensure_repo():
    if REPO not in sys.path:
        sys.path.insert(0, REPO)
    import dsl_compiler
    f = os.path.realpath(dsl_compiler.__path__[0])
    if not f.startswith(os.path.realpath(REPO)):
        raise RuntimeError(f"dsl_compiler imported from {f}, expected under {REPO}")
    logging.disable(logging.CRITICAL)


@dataclass
class Compiled:
    ok: bool
    src: str
    result: str = ""
    bp: dict | None = None
    error: str | None = None
    error_type: str | None = None
    planner: object = None
    plan: object = None
    ir: list = field(default_factory=list)
    ir_pre_opt: list = field(default_factory=list)
    lowerer: object = None
    blueprint_obj: object = None
    messages: list = field(default_factory=list)


@contextlib.contextmanager
def adversarial_layout(det_time=2.0):
    """Layout-solver adversary (C08/C09/C18 quantify over EVERY placement the layout stage may settle on): the CP-SAT
    model the real IntegerLayoutEngine builds is kept (hard constraints: no overlap, fixed positions, edge rows, coordinate
    bounds) but its objective is MAXIMISED instead of minimised, single-threaded under a deterministic work limit — a
    feasible solution of the real model that a time-limited / overloaded search may return, and about the worst one.
    Wraps the third-party ortools classes from outside; /repo is not edited."""
    from ortools.sat.python import cp_model
    o_min, o_solve = cp_model.CpModel.minimize, cp_model.CpSolver.solve

    def minimize(self, expr):
        return cp_model.CpModel.maximize(self, expr)

    def solve(self, model, callback=None):
        self.parameters.num_workers = 1
        self.parameters.max_deterministic_time = det_time
        self.parameters.max_time_in_seconds = 600.0
        return o_solve(self, model)  # no early-stop callback: take what the adversarial search finds

    cp_model.CpModel.minimize, cp_model.CpSolver.solve = minimize, solve
    try:
        yield
    finally:
        cp_model.CpModel.minimize, cp_model.CpSolver.solve = o_min, o_solve


def compile_capture(src, *, optimize=True, power_pole_type=None, use_json=True, source_name="<string>",
                    max_layout_retries=3, _attempts=3, layout_adversary=None):
    if layout_adversary is None:  # VERIF_LAYOUT_ADVERSARY=1 ./check Cxx: run a whole check against adversarial placements
        layout_adversary = os.environ.get("VERIF_LAYOUT_ADVERSARY") == "1"
    if layout_adversary:
        with adversarial_layout():
            return compile_capture(src, optimize=optimize, power_pole_type=power_pole_type, use_json=use_json, source_name=source_name,
                                   max_layout_retries=max_layout_retries, _attempts=1, layout_adversary=False)
    """compile_dsl_source with capture of planner / plan / IR / blueprint object.

    The CP-SAT layout step works under wall-clock limits and gives up ("Failed to find feasible layout") when the
    machine is overloaded; that refusal says nothing about the program, so it is retried (up to 3 attempts)."""
    cap = _compile_capture_once(src, optimize=optimize, power_pole_type=power_pole_type, use_json=use_json,
                                source_name=source_name, max_layout_retries=max_layout_retries)
    while not cap.ok and _attempts > 1 and "Failed to find feasible layout" in (cap.error or ""):
        _attempts -= 1
        cap = _compile_capture_once(src, optimize=optimize, power_pole_type=power_pole_type, use_json=use_json,
                                    source_name=source_name, max_layout_retries=max_layout_retries)
    return cap


def _compile_capture_once(src, *, optimize=True, power_pole_type=None, use_json=True, source_name="<string>",
                          max_layout_retries=3):
    ensure_repo()
    import dsl_compiler.cli as cli
    from dsl_compiler.src.emission.emitter import BlueprintEmitter
    from dsl_compiler.src.layout.planner import LayoutPlanner
    from dsl_compiler.src.lowering.lowerer import ASTLowerer

    cap = Compiled(False, src)
    o_plan = LayoutPlanner.plan_layout
    o_emit = BlueprintEmitter.emit_from_plan
    o_lower = ASTLowerer.lower_program

    def plan_layout(self, ir_operations, *a, **k):
        cap.planner = self
        cap.ir = list(ir_operations)
        r = o_plan(self, ir_operations, *a, **k)
        cap.plan = r
        return r

    def emit_from_plan(self, plan, *a, **k):
        r = o_emit(self, plan, *a, **k)
        cap.blueprint_obj = r
        return r

    def lower_program(self, program, *a, **k):
        cap.lowerer = self
        r = o_lower(self, program, *a, **k)
        cap.ir_pre_opt = list(r)
        return r

    LayoutPlanner.plan_layout = plan_layout
    BlueprintEmitter.emit_from_plan = emit_from_plan
    ASTLowerer.lower_program = lower_program
    try:
        with contextlib.redirect_stderr(io.StringIO()), contextlib.redirect_stdout(io.StringIO()):
            ok, result, msgs = cli.compile_dsl_source(
                src, source_name=source_name, optimize=optimize, power_pole_type=power_pole_type,
                use_json=use_json, log_level="error", max_layout_retries=max_layout_retries)
        cap.ok, cap.result, cap.messages = ok, result, msgs
        if ok and use_json:
            cap.bp = json.loads(result)
        elif not ok:
            cap.error = result
    except Exception as e:  # rejected programs raise (raise_errors=True)
        cap.ok = False
        cap.error = f"{type(e).__name__}: {e}"
        cap.error_type = type(e).__name__
    finally:
        LayoutPlanner.plan_layout = o_plan
        BlueprintEmitter.emit_from_plan = o_emit
        ASTLowerer.lower_program = o_lower
    return cap


def parse(src, source_name="<string>"):
    ensure_repo()
    from dsl_compiler.src.parsing.parser import DSLParser
    return DSLParser().parse(src.strip(), source_name)


def intended_edges(cap: Compiled):
    """{(source placement id, sink placement id)} recorded by the compiler's own signal graph."""
    g = cap.planner.signal_graph if cap.planner is not None else None
    edges = set()
    if g is None:
        return edges
    for _sig, src_id, sink_id in g.iter_source_sink_pairs():
        edges.add((src_id, sink_id))
    return edges


def placement_by_position(cap: Compiled):
    out = {}
    if cap.plan is None:
        return out
    for pid, pl in cap.plan.entity_placements.items():
        if pl.position is not None:
            out[(float(pl.position[0]), float(pl.position[1]))] = pid
    return out
