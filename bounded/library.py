"""C17 library obligations: every function of lib/math.facto, parsed by the repo's own parser and
evaluated by S3 to a bit-vector term over symbolic arguments, is proved against its documented
meaning (S5) for ALL int32 arguments in the documented domain — one SMT obligation per function."""
from __future__ import annotations

import os
import time

import z3

from spec.facto_sem import Sem, SigV
from spec.libdocs import DOCS
from spec.num import Symbolic

from . import pipeline

SIGS = ["signal-A", "signal-B", "signal-C"]


def library_obligations(timeout_ms=120000):
    pipeline.ensure_repo()
    lib_path = os.path.join(pipeline.REPO, "lib", "math.facto")
    lib = open(lib_path).read()
    out = []
    from spec import libdocs
    libdocs.selfcheck()
    B = Symbolic()
    B.pow_uninterpreted = False
    prog0 = pipeline.parse(lib, lib_path)
    declared = {st.name: st for st in prog0.statements if type(st).__name__ == "FuncDecl"}
    for fname, (n, pre, post) in DOCS.items():
        t0 = time.time()
        rec = {"name": f"lib/math.facto::{fname}", "status": "undecided", "backend": "", "ms": 0.0}
        if fname not in declared:
            rec["detail"] = "function missing from lib/math.facto (contract drift)"
            out.append(rec)
            continue
        decls = "".join(f'Signal p{i} = ("{SIGS[i]}", 0);\n' for i in range(n))
        src = lib + "\n" + decls + f"Signal result__out = {fname}({', '.join(f'p{i}' for i in range(n))});\n"
        args = [B.var(f"arg{i}") for i in range(n)]
        try:
            sem = Sem(B, inputs={f"p{i}": {SIGS[i]: args[i]} for i in range(n)})
            sem.run(pipeline.parse(src, lib_path))
            res = sem.outputs()["result__out"]
            assert isinstance(res, SigV)
        except Exception as e:
            rec["detail"] = f"S3 could not evaluate the body: {type(e).__name__}: {e}"
            out.append(rec)
            continue
        s = z3.Solver()
        s.set("timeout", timeout_ms)
        r = z3.BitVec("res", 32)
        s.add(r == res.v, pre(*args), z3.Not(post(*args, r)))
        chk = s.check()
        rec["ms"] = (time.time() - t0) * 1000
        rec["backend"] = "z3-" + z3.get_version_string()
        rec["vc"] = f"pre({fname}) and res == S3[[{fname} body]] |- doc({fname})"
        if chk == z3.unsat:
            rec["status"] = "proved"
        elif chk == z3.sat:
            m = s.model()
            vals = [m.eval(a, model_completion=True).as_signed_long() for a in args]
            rec["status"] = "violated"
            rec["witness"] = {"function": fname, "args": vals, "library_returns": m.eval(r, model_completion=True).as_signed_long()}
        else:
            rec["detail"] = f"solver: {s.reason_unknown()}"
        out.append(rec)
    return out
