"""Bounded stand-ins for the memory properties C03 (gated cell), C04 (self-referential iteration) and
C05 (set/reset latch): the REAL pipeline's blueprint is simulated tick by tick with the S2 model and
compared with the S3 memory semantics after every held input step (C03/C05) or against the iteration
equation value(t+L) = f(value(t)) (C04)."""
from __future__ import annotations

import itertools

from spec.circuit import Circuit
from spec.facto_sem import BunV, IntV, Rejected, Sem, SemError, SigV
from spec.num import Concrete

from . import pipeline
from .e2e import ARROW_RE, _source_input_names, circuit_inputs, find_anchors, find_labelled
from .ticksim import TickSim

CB = Concrete()


def s3_settled(prog, inputs, mem_vis, latch_bits, max_rounds=8):
    """Apply the source-level memory semantics until the stored values stop changing.
    Returns (outputs dict name->value/bundle, entities, mem_vis, latch_bits)."""
    for _ in range(max_rounds):
        sem = Sem(CB, inputs=inputs, mem_state=mem_vis)
        sem.run(prog)
        new = sem.next_mem_state(latch_bits)
        vis, bits = {}, dict(latch_bits)
        for k, v in new.items():
            if isinstance(v, tuple) and v[0] == "latch":
                bits[k] = bool(v[1])
                vis[k] = v[2] if v[1] else 0
            else:
                vis[k] = v
        if vis == mem_vis and bits == latch_bits:
            break
        mem_vis, latch_bits = vis, bits
    sem = Sem(CB, inputs=inputs, mem_state=mem_vis)
    sem.run(prog)
    return sem, mem_vis, latch_bits


def _own_signal(val, anchor_desc):
    if isinstance(val, SigV):
        t = val.type
        if t is None:
            m = ARROW_RE.search(anchor_desc)
            t = m.group(1) if m else None
        return t
    return None


def observe(sim, c, name, val):
    """Value of a named result as the blueprint shows it (own signal only for scalars)."""
    anchors = find_anchors(c, name)
    if not anchors:
        return None
    a = anchors[0]
    content = sim.read_anchor(a)
    if isinstance(val, SigV):
        t = _own_signal(val, a.desc)
        return content.get(t, 0)
    return {k: v for k, v in content.items() if v != 0}


def expected(val):
    if isinstance(val, SigV):
        return val.v
    if isinstance(val, BunV):
        return {k: v for k, v in val.members.items() if v != 0}
    return None


def judge_history_program(src, histories, optimize=True, settle_ticks=40):
    """C03/C05: after every held step the observable results equal the S3 memory semantics.
    histories: list of [(input name, value), ...].  Returns dict(status, mismatches=[...], n_steps)."""
    cap = pipeline.compile_capture(src, optimize=optimize)
    if not cap.ok:
        return {"status": "rejected", "detail": cap.error}
    c = Circuit(cap.bp)
    prog = pipeline.parse(src)
    cin = circuit_inputs(c)
    legit = _source_input_names(prog)
    cin = {n: lst for n, lst in cin.items() if n in legit}
    out = {"status": "judged", "mismatches": [], "steps": 0, "unsettled": 0, "n_entities": len(c.ents)}
    for hist in histories:
        sim = TickSim(c)
        inputs = {}
        # initial values of the inputs = declared constants
        sem0 = Sem(CB)
        try:
            sem0.run(prog)
        except (SemError, Rejected) as e:
            return {"status": "outside-s3", "detail": str(e)}
        mem_vis, bits = {}, {}
        trace = []
        for (name, value) in [(None, None)] + list(hist):
            if name is not None:
                if name not in cin:
                    return {"status": "error", "detail": f"input {name} not found among labelled constants {list(cin)}"}
                for num, sig in cin[name]:
                    sim.set_input(num, sig, value)
                    inputs.setdefault(name, {})[sig] = value
            n = sim.settle(settle_ticks)
            out["steps"] += 1
            if n is None:
                out["unsettled"] += 1
                out["mismatches"].append({"history": list(hist), "at": (name, value), "what": "circuit does not settle while the input is held"})
                break
            try:
                sem, mem_vis, bits = s3_settled(prog, inputs, mem_vis, bits)
            except (SemError, Rejected) as e:
                return {"status": "outside-s3", "detail": str(e)}
            trace.append((name, value))
            bad = None
            for oname, val in sem.outputs().items():
                got = observe(sim, c, oname, val)
                exp = expected(val)
                if got is None:
                    continue
                if got != exp:
                    bad = {"history": list(hist), "after_step": len(trace) - 1, "at": (name, value), "output": oname,
                           "expected": exp, "observed": got}
                    break
            if bad is None:
                for ent in sem.entities:
                    if ent.enable is None or not isinstance(ent.x, IntV):
                        continue
                    from .e2e import tile_size
                    w, h = tile_size(ent.proto)
                    for e in c.ents.values():
                        if e.name == ent.proto and abs(e.pos[0] - (ent.x.v + w / 2.0)) < 1e-6 and abs(e.pos[1] - (ent.y.v + h / 2.0)) < 1e-6:
                            got = sim.condition(e)
                            want = sem.num(ent.enable) > 0
                            if got is not None and bool(got) != bool(want):
                                bad = {"history": list(hist), "after_step": len(trace) - 1, "at": (name, value),
                                       "output": f"entity:{ent.name}", "expected": bool(want), "observed": bool(got)}
            if bad:
                out["mismatches"].append(bad)
                break
    return out


def step_histories(pools, length, limit):
    """All histories of `length` single-input changes over the pools (name -> values), each change
    different from the input's current value; thinned with a fixed stride if there are more than `limit`."""
    names = sorted(pools)
    moves = [(n, v) for n in names for v in pools[n]]
    allh = []

    def rec(prefix, cur):
        if len(prefix) == length:
            allh.append(list(prefix))
            return
        for (n, v) in moves:
            if cur.get(n) == v:
                continue
            cur2 = dict(cur)
            cur2[n] = v
            rec(prefix + [(n, v)], cur2)

    rec([], {})
    if len(allh) <= limit:
        return allh, True
    stride = len(allh) // limit + 1
    return allh[::stride], False


def judge_iteration_program(src, mem_name, read_name, valuations, optimize=True, ticks=48, max_latency=10, warmup=0):
    """C04: from the all-zero state, value(t+L) == f(value(t)) for one fixed L >= 1 at every tick t >= warmup.
    f is the S3 value of the written expression with the cell's read bound to value(t)."""
    cap = pipeline.compile_capture(src, optimize=optimize)
    if not cap.ok:
        return {"status": "rejected", "detail": cap.error}
    c = Circuit(cap.bp)
    prog = pipeline.parse(src)
    cin = circuit_inputs(c)
    legit = _source_input_names(prog)
    cin = {n: lst for n, lst in cin.items() if n in legit}
    res = {"status": "judged", "mismatches": [], "latencies": [], "n_entities": len(c.ents)}
    for vals in valuations:
        sim = TickSim(c)
        inputs = {}
        for name, value in vals.items():
            if name not in cin:
                return {"status": "error", "detail": f"input {name} not among labelled constants {list(cin)}"}
            for num, sig in cin[name]:
                sim.set_input(num, sig, value)
                inputs.setdefault(name, {})[sig] = value

        def f(x):
            sem = Sem(CB, inputs=inputs, mem_state=_State(x))
            sem.run(prog)
            ws = [w for k, w in sem.writes.items() if k.startswith(mem_name + "#")]
            if not ws:
                raise SemError("no write to the cell")
            return ws[0]["value"]

        # what the named reader denotes as a function of the cell value
        def reader(x):
            sem = Sem(CB, inputs=inputs, mem_state=_State(x))
            sem.run(prog)
            return sem.outputs().get(read_name)

        trace = []
        try:
            val0 = reader(0)
        except (SemError, Rejected) as e:
            return {"status": "outside-s3", "detail": str(e)}
        for _t in range(ticks):
            trace.append(observe(sim, c, read_name, val0))
            sim.tick()
        if any(x is None for x in trace):
            return {"status": "error", "detail": f"reader {read_name} has no anchor"}
        okL = None
        for L in range(1, max_latency + 1):
            if all(trace[t + L] == f(trace[t]) for t in range(warmup, ticks - L)):
                okL = L
                break
        if okL is None:
            res["mismatches"].append({"inputs": vals, "trace": trace[:24],
                                      "what": f"no latency L in 1..{max_latency} with value(t+L) == f(value(t)) for all t >= {warmup}",
                                      "f_of_trace": [f(x) for x in trace[:12]]})
        else:
            res["latencies"].append(okL)
    return res


class _State(dict):
    """mem_state that answers every cell key of one declaration with the same value."""

    def __init__(self, x):
        super().__init__()
        self.x = x

    def get(self, k, d=None):
        return self.x
