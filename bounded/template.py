"""Template lemmas for the memory properties (DESIGN §4 C03–C05): for ONE compiled program, statements
about ALL data values and ALL input histories, decided by SMT over the S2 one-tick transition function of
the blueprint the real builder emitted.

  step lemma (C03/C05):  for every state s that is settled under inputs i, and every inputs i':
        after K ticks under i' the circuit is settled again, and every observable result equals
        S3's next-state semantics applied to the value the observation showed in s.
  base lemma:            the same from the all-zero state.
  cover:                 a settled state exists (the step lemma is not vacuous).
  iteration lemma (C04): for every state s reachable by a warm-up of W ticks from an arbitrary state, and constant
        inputs i: obs(step^L(s)) == f(obs(s))  (f = S3 value of the written expression), latency L found by simulation.

Induction over the history (base + step) gives the property for histories of any length in which every
step is held for at least K ticks.  The program-shape quantifier stays bounded (enumerated scope)."""
from __future__ import annotations

import time

import z3

from spec.circuit import Circuit, Evaluator
from spec.facto_sem import BunV, IntV, Rejected, Sem, SemError, SigV
from spec.num import Symbolic

from . import pipeline
from .e2e import ARROW_RE, _source_input_names, circuit_inputs, find_anchors


class _Cell(dict):
    """mem_state keyed by declaration instance name 'm#k' -> symbolic value (by declared name)"""

    def __init__(self, by_name):
        super().__init__()
        self.by_name = by_name

    def get(self, k, d=None):
        return self.by_name.get(k.split("#")[0], d)


class Model:
    def __init__(self, src, optimize=True):
        self.src = src
        self.cap = pipeline.compile_capture(src, optimize=optimize)
        if not self.cap.ok:
            raise Rejected(self.cap.error)
        self.c = Circuit(self.cap.bp)
        self.B = Symbolic()
        self.prog = pipeline.parse(src)
        legit = _source_input_names(self.prog)
        self.cin = {n: lst for n, lst in circuit_inputs(self.c).items() if n in legit}
        self.universe = sorted(self.c.signal_universe())
        self.combs = self.c.combinators()

    def out_signals(self, e):
        """signals a combinator can ever emit (structural invariant of the tick function)"""
        if e.kind == "arith":
            o = (e.cb.get("arithmetic_conditions") or {}).get("output_signal")
            names = {o["name"]} if o else set()
        else:
            names = {o["signal"]["name"] for o in (e.cb.get("decider_conditions") or {}).get("outputs", []) or [] if o.get("signal")}
        if names & {"signal-each", "signal-everything", "signal-anything"}:
            return set(self.universe)
        return names

    def fresh_state(self, tag):
        return {e.num: {s: (self.B.var(f"{tag}_{e.num}_{s}") if s in self.out_signals(e) else self.B.const(0)) for s in self.universe}
                for e in self.combs}

    def zero_state(self):
        return {e.num: {s: self.B.const(0) for s in self.universe} for e in self.combs}

    def inputs(self, tag):
        return {n: {sig: self.B.var(f"{tag}_{n}_{sig}") for (_num, sig) in lst} for n, lst in self.cin.items()}

    def _ov(self, iv):
        return {(num, sig): iv[n][sig] for n, lst in self.cin.items() for (num, sig) in lst}

    def step(self, state, iv, k=1):
        for _ in range(k):
            ev = Evaluator(self.c, self.B, overrides=self._ov(iv), state=state)
            new = ev.step()
            state = {n: {s: d.get(s, self.B.const(0)) for s in self.universe} for n, d in new.items()}
        return state

    def eq_state(self, a, b):
        return z3.And(*[a[k][s] == b[k][s] for k in a for s in self.universe])

    def obs(self, state, iv, name, val):
        anchors = find_anchors(self.c, name)
        if not anchors:
            return None
        ev = Evaluator(self.c, self.B, overrides=self._ov(iv), state=state)
        content = ev.anchor_content(anchors[0])
        t = val.type
        if t is None:
            m = ARROW_RE.search(anchors[0].desc)
            t = m.group(1) if m else None
        return content.get(t, self.B.const(0))

    def s3(self, iv, cells, latch_on=None):
        sem = Sem(self.B, inputs=iv, mem_state=_Cell(cells))
        sem.run(self.prog)
        return sem


def _check(solver_timeout, *assertions):
    s = z3.Solver()
    s.set("timeout", solver_timeout)
    for a in assertions:
        s.add(a)
    t0 = time.time()
    r = s.check()
    return r, (time.time() - t0) * 1000, (s.model() if r == z3.sat else None)


def history_lemmas(pid, src, optimize=True, K=None, timeout_ms=60000, bool_inputs=()):
    """Cover + base + step lemmas for a program with when=-gated cells or latches, each cell observed by a
    top-level reader `Signal <o> = <cell>.read();`.  Returns obligation records."""
    out = []
    try:
        M = Model(src, optimize)
    except Rejected as e:
        return [{"name": f"template:{pid}", "status": "undecided", "detail": f"rejected: {e}", "backend": "", "ms": 0}]
    B = M.B
    K = K or (len(M.combs) + 2)
    # which outputs are plain reads of which cell
    readers = {}
    for st in M.prog.statements:
        if type(st).__name__ == "DeclStmt" and type(st.value).__name__ == "ReadExpr":
            readers[st.name] = st.value.memory_name
    if not readers:
        return [{"name": f"template:{pid}", "status": "not-templated", "detail": "no top-level reader `Signal o = m.read();`", "backend": "", "ms": 0}]

    def expected_next(iv, cells_now):
        sem = M.s3(iv, cells_now)
        nxt = {}
        for key, w in sem.writes.items():
            name = key.split("#")[0]
            cur = cells_now.get(name, B.const(0))
            if w["kind"] == "always":
                nxt[name] = w["value"]
            elif w["kind"] == "when":
                nxt[name] = B.ite(B.cmp(">", w["when"], B.const(0)), w["value"], cur)
            else:
                s_on = B.cmp(">", w["set"], B.const(0))
                r_on = B.cmp(">", w["reset"], B.const(0))
                on = B.nonzero(cur)
                nxt_on = z3.If(z3.And(s_on, r_on), z3.BoolVal(bool(w["set_priority"])), z3.If(s_on, True, z3.If(r_on, False, on)))
                nxt[name] = B.ite(nxt_on, w["value"], B.const(0))
        return sem, nxt

    def lemma(kind, s0, i_old, i_new, premise):
        # abstraction: value of each cell = what its reader shows in s0
        sem0 = M.s3(i_old if i_old is not None else i_new, {})
        outs0 = sem0.outputs()
        cells_now = {}
        for oname, cell in readers.items():
            v = outs0.get(oname)
            if not isinstance(v, SigV):
                continue
            cells_now[cell] = M.obs(s0, i_old if i_old is not None else i_new, oname, v) if s0 is not None else B.const(0)
        sem, nxt = expected_next(i_new, cells_now)
        sk = M.step(s0 if s0 is not None else M.zero_state(), i_new, K)
        goals = [M.eq_state(M.step(sk, i_new), sk)]
        sem_after = M.s3(i_new, nxt)
        for oname, val in sem_after.outputs().items():
            if isinstance(val, SigV):
                got = M.obs(sk, i_new, oname, val)
                if got is not None:
                    goals.append(got == B.lift(val.v))
        extra = []
        # latch value must be non-zero for the on/off abstraction through the reader
        for key, w in sem.writes.items():
            if w["kind"] == "latch":
                extra.append(B.lift(w["value"]) != 0)
                # the abstraction on := (reader != 0) needs the reader to show 0 or the latch value
                name = key.split("#")[0]
                cur = cells_now.get(name, B.const(0))
                old_v = B.lift(M.s3(i_old if i_old is not None else i_new, {}).writes[key]["value"])
                extra.append(old_v != 0)  # a latch that is on with v = 0 is indistinguishable from off at the reader
                extra.append(z3.Or(cur == 0, cur == old_v))
        r, ms, model = _check(timeout_ms, premise, *extra, z3.Not(z3.And(*goals)))
        rec = {"name": f"template:{pid}:{kind}(K={K}){'' if optimize else ':noopt'}", "backend": "z3-" + z3.get_version_string(), "ms": ms,
               "vc": f"{kind}: forall data values / inputs: after {K} ticks settled and readers == S3 next state"}
        if r == z3.unsat:
            rec["status"] = "proved"
        elif r == z3.sat:
            rec["status"] = "violated"
            rec["witness"] = {"program": src, "optimize": optimize, "lemma": kind,
                              "model": {str(d): str(model[d]) for d in model.decls() if str(d).startswith(("i_", "j_", "s_"))}}
        else:
            rec["status"] = "undecided"
            rec["detail"] = "solver unknown"
        return rec

    try:
        s0 = M.fresh_state("s")
        i0, i1 = M.inputs("i"), M.inputs("j")
        # inputs the program uses as boolean set/reset signals range over {0, 1} (property: "boolean signals")
        dom = z3.And(*[z3.Or(iv[n][sg] == 0, iv[n][sg] == 1) for iv in (i0, i1) for n in bool_inputs if n in iv for sg in iv[n]]) if bool_inputs else z3.BoolVal(True)
        settled0 = z3.And(M.eq_state(M.step(s0, i0), s0), dom)
        r, ms, _ = _check(timeout_ms, settled0)
        out.append({"name": f"template:{pid}:cover{'' if optimize else ':noopt'}", "status": "proved" if r == z3.sat else "undecided",
                    "backend": "z3-" + z3.get_version_string(), "ms": ms, "vc": "exists settled state", "detail": "" if r == z3.sat else "no settled state found"})
        out.append(lemma("base", None, None, i1, dom))
        # the property quantifies over histories that change ONE input at a time
        names = sorted(i0)
        one_change = z3.Or(*[z3.And(*[i0[m][sg] == i1[m][sg] for m in names if m != n for sg in i0[m]]) for n in names]) if names else z3.BoolVal(True)
        out.append(lemma("step", s0, i0, i1, z3.And(settled0, one_change)))
    except (SemError, Rejected) as e:
        out.append({"name": f"template:{pid}", "status": "undecided", "detail": f"outside S3: {e}", "backend": "", "ms": 0})
    return out


def iteration_lemma(pid, src, L, optimize=True, timeout_ms=60000):
    """C04: forall states s, constant inputs i: reader(step^L(s)) == f(reader(s))."""
    try:
        M = Model(src, optimize)
    except Rejected as e:
        return [{"name": f"template:{pid}", "status": "undecided", "detail": f"rejected: {e}", "backend": "", "ms": 0}]
    B = M.B
    # every state reachable after a warm-up of W ticks under the held inputs (W = number of combinators: by then every
    # combinator that depends on the inputs alone shows its settled value), from an ARBITRARY state
    s0 = M.step(M.fresh_state("s"), M.inputs("i"), len(M.combs))
    i0 = M.inputs("i")
    sem0 = M.s3(i0, {})
    v = sem0.outputs().get("out")
    if not isinstance(v, SigV):
        return [{"name": f"template:{pid}", "status": "undecided", "detail": "no reader `out`", "backend": "", "ms": 0}]
    x = M.obs(s0, i0, "out", v)
    sem = M.s3(i0, {"m": x})
    ws = [w for k, w in sem.writes.items() if k.startswith("m#")]
    fx = B.lift(ws[0]["value"])
    sL = M.step(s0, i0, L)
    got = M.obs(sL, i0, "out", v)
    r, ms, model = _check(timeout_ms, got != fx)
    rec = {"name": f"template:{pid}:iteration(L={L}){'' if optimize else ':noopt'}", "backend": "z3-" + z3.get_version_string(), "ms": ms,
           "vc": f"forall state s0, inputs; s = step^W(s0) (warm-up W = #combinators): reader(step^{L}(s)) == f(reader(s))"}
    if r == z3.unsat:
        rec["status"] = "proved"
    elif r == z3.sat:
        rec["status"] = "violated"
        rec["witness"] = {"program": src, "optimize": optimize, "L": L}
    else:
        rec["status"] = "undecided"
        rec["detail"] = "solver unknown"
    return [rec]
