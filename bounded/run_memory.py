"""Pool runner for the memory scopes."""
from __future__ import annotations

from bounded.run_e2e import run_pool
from checks.common import BoundedResult


def _job_hist(args):
    pid, src, pools, length, limit, optimize = args
    from bounded.memory import judge_history_program, step_histories
    hs, exhaustive = step_histories(pools, length, limit)
    try:
        r = judge_history_program(src, hs, optimize=optimize)
    except Exception as e:
        import traceback
        r = {"status": "error", "detail": f"{type(e).__name__}: {e}\n{traceback.format_exc()[-1200:]}"}
    r["n_histories"] = len(hs)
    r["exhaustive"] = exhaustive
    return pid, src, r


def _job_iter(args):
    pid, src, vals, warmup, optimize, ticks = args
    from bounded.memory import judge_iteration_program
    try:
        r = judge_iteration_program(src, "m", "out", vals, optimize=optimize, ticks=ticks, warmup=warmup)
    except Exception as e:
        import traceback
        r = {"status": "error", "detail": f"{type(e).__name__}: {e}\n{traceback.format_exc()[-1200:]}"}
    return pid, src, r


def run_history_scope(name, progs, scope, known, *, length, limit, optimize, classify=None):
    br = BoundedResult(name, scope, kind="B-enum(histories)")
    jobs = [(pid, src, pools, length, limit, optimize) for pid, src, pools in progs]
    exhaustive = True
    for pid, src, r in run_pool(_job_hist, jobs):
        br.cases += r.get("n_histories", 0)
        exhaustive = exhaustive and r.get("exhaustive", False)
        if r["status"] == "error":
            br.error = f"{pid}: {r['detail']}"
            continue
        if r["status"] in ("rejected", "outside-s3"):
            br.undecided.append(f"{pid}: {r['status']}: {r.get('detail', '')[:200]}")
            continue
        br.distinct += r.get("steps", 0)
        for m in r["mismatches"][:3]:
            fid = classify(pid, src, m, optimize) if classify else None
            if fid and fid in known:
                br.known_hits.append({"id": fid, "what": f"{pid}"})
                continue
            br.violations.append({"what": f"{pid}: after step {m.get('at')}: {m.get('output', m.get('what'))} expected {m.get('expected')} observed {m.get('observed')}",
                                  "witness": {"program": src, **m}, "options": {"optimize": optimize}})
        if len(br.samples) < 2:
            br.samples.append({"id": pid, "program": src, "histories": r.get("n_histories"), "held_steps": r.get("steps")})
    br.exhaustive = exhaustive
    br.assumptions = ["S2 tick model (spec/circuit.py) and S3 memory semantics (spec/facto_sem.py) are the trusted oracle",
                      "bounded: histories of the stated length over the stated value pools, each step held until the circuit is stable"]
    return br


def run_iteration_scope(name, progs, scope, known, *, optimize, ticks=48, classify=None):
    br = BoundedResult(name, scope, kind="B-enum(ticks)", exhaustive=True)
    jobs = [(pid, src, vals, warmup, optimize, ticks) for pid, src, vals, warmup in progs]
    for pid, src, r in run_pool(_job_iter, jobs):
        br.cases += 1
        if r["status"] == "error":
            br.error = f"{pid}: {r['detail']}"
            continue
        if r["status"] in ("rejected", "outside-s3"):
            br.undecided.append(f"{pid}: {r['status']}: {r.get('detail', '')[:200]}")
            continue
        br.distinct += 1
        for m in r["mismatches"][:2]:
            fid = classify(pid, src, m, optimize) if classify else None
            if fid and fid in known:
                br.known_hits.append({"id": fid, "what": pid})
                continue
            br.violations.append({"what": f"{pid}: {m['what']}", "witness": {"program": src, **m}, "options": {"optimize": optimize}})
        if len(br.samples) < 2:
            br.samples.append({"id": pid, "program": src, "latencies": r.get("latencies")})
    br.assumptions = ["S2 tick model and S3 semantics of the written expression are the trusted oracle",
                      f"bounded: {ticks} ticks from the all-zero state for the listed constant input valuations"]
    return br


def _job_tmpl(args):
    kind, pid, src, extra, optimize = args
    from bounded import template
    try:
        if kind == "history":
            bi = [n for n, v in extra.items() if set(v) <= {0, 1}]
            return pid, src, template.history_lemmas(pid, src, optimize, timeout_ms=60000, bool_inputs=bi)
        from bounded.memory import judge_iteration_program
        vals, warm = extra
        res = judge_iteration_program(src, "m", "out", vals[:1], optimize=optimize, ticks=30, warmup=warm)
        if res.get("status") != "judged":
            return pid, src, [{"name": f"template:{pid}:iteration", "status": "undecided", "backend": "", "ms": 0,
                               "detail": f"{res.get('status')}: {str(res.get('detail'))[:200]}"}]
        L = (res.get("latencies") or [None])[0]
        if L is None:
            return pid, src, [{"name": f"template:{pid}:iteration", "status": "violated", "backend": "", "ms": 0,
                               "witness": {"program": src, "detail": "no round-trip latency found by simulation", **(res.get("mismatches") or [{}])[0]}}]
        return pid, src, template.iteration_lemma(pid, src, L, optimize, timeout_ms=60000)
    except Exception as e:
        import traceback
        return pid, src, [{"name": f"template:{pid}", "status": "error", "detail": f"{type(e).__name__}: {e} {traceback.format_exc()[-800:]}", "backend": "", "ms": 0}]


def run_template_scope(name, kind, progs, scope, known, *, optimize):
    """progs: history -> [(pid, src, pools)], iteration -> [(pid, src, vals, warmup)]"""
    br = BoundedResult(name, scope, exhaustive=True, kind="template lemmas (SMT, all values / all histories; program scope enumerated)")
    jobs = [(kind, p[0], p[1], (p[2] if kind == "history" else (p[2], p[3])), optimize) for p in progs]
    for pid, src, recs in run_pool(_job_tmpl, jobs):
        for r in recs:
            br.cases += 1
            if r["status"] == "proved":
                br.distinct += 1
                br.monitors["lemmas_discharged_by_smt"] = br.monitors.get("lemmas_discharged_by_smt", 0) + 1
            elif r["status"] == "violated":
                br.violations.append({"what": f"{r['name']}: lemma refuted", "witness": r.get("witness", {"program": src})})
            elif r["status"] == "error":
                br.error = f"{r['name']}: {r['detail']}"
            elif r["status"] == "not-templated":
                # program shape the template abstraction does not cover (no top-level reader per cell); the
                # tick-simulation stand-in of the same scope still judges it
                br.monitors["programs_without_template"] = br.monitors.get("programs_without_template", 0) + 1
            else:
                br.undecided.append(f"{r['name']}: {r.get('detail', 'undecided')}")
        if len(br.samples) < 2 and recs:
            br.samples.append({"program": src, "lemmas": [(r["name"], r["status"], round(r.get("ms", 0), 1)) for r in recs]})
    br.assumptions = ["S2 one-tick transition function and S3 memory semantics are the trusted oracle",
                      "induction over the input history (base + step) is the argument that extends the step lemma to all histories whose steps are held >= K ticks",
                      "program scope enumerated (bounded); data values, thresholds and history length unbounded"]
    return br
