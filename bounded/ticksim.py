"""Tick-accurate simulation of a (possibly cyclic) blueprint with the S2 model (concrete back end)."""
from __future__ import annotations

from spec.circuit import Circuit, Evaluator
from spec.num import Concrete


class TickSim:
    def __init__(self, circuit: Circuit, overrides=None):
        self.c = circuit
        self.B = Concrete()
        self.overrides = dict(overrides or {})
        self.state = {e.num: {} for e in circuit.combinators()}
        self.t = 0

    def set_input(self, num, sig, value):
        self.overrides[(num, sig)] = self.B.const(value)

    def tick(self, n=1):
        for _ in range(n):
            ev = Evaluator(self.c, self.B, overrides=self.overrides, state=self.state)
            new = ev.step()
            self.state = {k: {s: v for s, v in d.items() if v != 0} for k, d in new.items()}
            self.t += 1

    def read_anchor(self, ent):
        ev = Evaluator(self.c, self.B, overrides=self.overrides, state=self.state)
        return {s: v for s, v in ev.anchor_content(ent).items() if v != 0}

    def condition(self, ent):
        ev = Evaluator(self.c, self.B, overrides=self.overrides, state=self.state)
        return ev.condition(ent)

    def settle(self, max_ticks=60):
        """Tick until the state repeats (fixpoint); returns the number of ticks, or None if it keeps changing."""
        for k in range(max_ticks):
            before = self.state
            self.tick()
            if self.state == before:
                return k + 1
        return None
