"""End-to-end judge for stateless programs (bounded stand-in for the K3..K9 chain).

For ONE source program: compile with the real compiler, decode the blueprint (S2), evaluate the
source (S3) and decide by SMT — for ALL int32 valuations of the program's named inputs — whether
every output anchor carries exactly the value the source denotes.

Each mismatch is classified:
  ok          : equal for all inputs (unsat)
  crosstalk   : differs, but equals S3 once producers that have no signal-graph edge to the
                consumer are disconnected ("ideal isolation") -> wire-isolation defect K7
  mismatch    : differs even under ideal isolation -> a stage other than wiring is wrong
  undecided   : solver budget exhausted and random testing found no difference
"""
from __future__ import annotations

import random
import re
from dataclasses import dataclass, field

import z3

from spec.circuit import Circuit, Cyclic, Evaluator, Unsupported
from spec.facto_sem import BunV, IntV, Rejected, Sem, SemError, SigV
from spec.num import Concrete, Symbolic

from . import pipeline

INPUT_RE = re.compile(r"^(?:\[[^\]]*\]\s*)?(\S+) \(value=(-?\d+) \(input\)\)")
ARROW_RE = re.compile(r"-> (\S+)\s*$")
SMT_TIMEOUT_MS = 8000


@dataclass
class OutputVerdict:
    name: str
    status: str
    detail: str = ""
    witness: dict | None = None


@dataclass
class ProgramVerdict:
    src: str
    status: str  # judged | rejected | outside-s3 | cyclic | error
    outputs: list = field(default_factory=list)
    detail: str = ""
    n_entities: int = 0
    cap: object = None

    def worst(self):
        order = ["mismatch", "crosstalk", "undecided", "ok"]
        for o in order:
            if any(v.status == o for v in self.outputs):
                return o
        return "ok"


def circuit_inputs(c: Circuit):
    """{variable name: [(entity num, signal)]} for the constant combinators labelled as inputs."""
    out = {}
    for e in c.ents.values():
        if e.kind == "const" and "(input)" in e.desc:
            m = INPUT_RE.match(e.desc)
            if m:
                for s, _cnt in c.const_signals(e):
                    out.setdefault(m.group(1), []).append((e.num, s))
    return out


def find_anchors(c: Circuit, name):
    pat = re.compile(r"(?:^|\]\s|\s)" + re.escape(name) + r" \(output anchor\)")
    return [e for e in c.ents.values() if c.is_anchor(e) and pat.search(e.desc)]


def find_labelled(c: Circuit, name):
    pat = re.compile(r"(?:^|\]\s)" + re.escape(name) + r" \(")
    return [e for e in c.ents.values() if pat.search(e.desc) and "(output anchor)" not in e.desc]


def _edge_filter(cap, c: Circuit):
    """producer/consumer filter for ideal isolation, keyed by blueprint entity numbers."""
    pos2pid = pipeline.placement_by_position(cap)
    num2pid = {}
    for e in c.ents.values():
        pid = pos2pid.get((float(e.pos[0]), float(e.pos[1])))
        if pid is not None:
            num2pid[e.num] = pid
    edges = pipeline.intended_edges(cap)

    def allowed(p_num, e_num):
        p, q = num2pid.get(p_num), num2pid.get(e_num)
        if p is None or q is None:
            return True
        return (p, q) in edges or p == q

    return allowed


class IdealEvaluator(Evaluator):
    """S2 with every consumer reading only the producers the compiler's signal graph intends."""

    def __init__(self, *a, allowed=None, **k):
        super().__init__(*a, **k)
        self.allowed = allowed

    def read(self, e, sel):
        acc = {}
        for colour in ("red", "green"):
            if not sel[colour]:
                continue
            n = self.c.net(e.num, self.c.in_conn(e, colour))
            for p in self.c.producers(n):
                if not self.allowed(p.num, e.num):
                    continue
                for s, v in self.emitted(p).items():
                    self._add(acc, s, v)
        return acc


def _differs(B, pairs, timeout=SMT_TIMEOUT_MS):
    """pairs: [(label, expected, got)] -> ('same'|'differs'|'unknown', model, label)"""
    s = z3.Solver()
    s.set("timeout", timeout)
    diffs = []
    for label, exp, got in pairs:
        d = z3.simplify(B.lift(exp) != B.lift(got))
        if z3.is_false(d):
            continue
        diffs.append((label, d))
    if not diffs:
        return "same", None, None
    for label, d in diffs:
        s.push()
        s.add(d)
        r = s.check()
        if r == z3.sat:
            return "differs", s.model(), label
        if r == z3.unknown:
            s.pop()
            return "unknown", None, label
        s.pop()
    return "same", None, None


def expected_pairs(B, val, content, desc):
    """[(signal, expected, got)] for one output value against an anchor's network content."""
    zero = B.const(0)
    if isinstance(val, SigV):
        t = val.type
        if t is None:
            m = ARROW_RE.search(desc)
            t = m.group(1) if m else None
            if t is None or t in ("bundle", "signal-each"):
                return None
        return [(t, val.v, content.get(t, zero))]
    if isinstance(val, BunV):
        if any(isinstance(k, tuple) for k in val.members):
            return None
        keys = set(val.members) | set(content)
        return [(k, val.members.get(k, zero), content.get(k, zero)) for k in sorted(keys)]
    return None


def judge(src, *, optimize=True, power_pole_type=None, rnd=None, scalar_own_signal_only=True, keep_cap=False):
    cap = pipeline.compile_capture(src, optimize=optimize, power_pole_type=power_pole_type)
    if not cap.ok:
        return ProgramVerdict(src, "rejected", detail=cap.error or "")
    c = Circuit(cap.bp)
    pv = ProgramVerdict(src, "judged", n_entities=len(c.ents), cap=cap if keep_cap else None)
    B = Symbolic()
    cin = circuit_inputs(c)
    invars = {name: {sig: B.var(f"in_{name}.{sig}") for (_n, sig) in lst} for name, lst in cin.items()}
    overrides = {(num, sig): invars[name][sig] for name, lst in cin.items() for (num, sig) in lst}
    try:
        prog = pipeline.parse(src)
        sem = Sem(B, inputs=invars)
        sem.run(prog)
        outs = sem.outputs()
    except SemError as e:
        pv.status, pv.detail = "outside-s3", str(e)
        return pv
    except Rejected as e:
        pv.status, pv.detail = "accepted-but-s3-rejects", str(e)
        return pv
    ev = Evaluator(c, B, overrides=overrides)
    ideal = None
    for name, val in outs.items():
        anchors = find_anchors(c, name)
        if not anchors:
            ov = _judge_constant(c, B, name, val, overrides)
            if ov.status == "missing" and optimize:
                twin = _identical_earlier_output(B, outs, name, c)
                if twin:
                    ov = OutputVerdict(name, "duplicate-missing",
                                       f"no anchor: CSE merged it with the identical earlier result '{twin}'")
            pv.outputs.append(ov)
            continue
        for a in anchors:
            try:
                content = ev.anchor_content(a)
            except Cyclic:
                pv.outputs.append(OutputVerdict(name, "skip", "cyclic circuit"))
                continue
            except Unsupported as e:
                pv.outputs.append(OutputVerdict(name, "skip", f"S2 unsupported: {e}"))
                continue
            pairs = expected_pairs(B, val, content, a.desc)
            if pairs is None:
                pv.outputs.append(OutputVerdict(name, "skip", "implicitly typed bundle member"))
                continue
            type_dev = None
            if isinstance(val, SigV) and val.type is not None:
                m = ARROW_RE.search(a.desc)
                if m and m.group(1) not in (val.type, "signal-each", "bundle"):
                    if val.note == "cmp-nonvirtual" and (m.group(1).startswith("signal-")):
                        # class of KF-C01-comparison-result-type: judge the VALUE on the channel used
                        type_dev = m.group(1)
                        pairs = [(type_dev, val.v, content.get(type_dev, B.const(0)))]
                    else:
                        pv.outputs.append(OutputVerdict(name, "mismatch", f"anchor labelled '-> {m.group(1)}', language assigns {val.type}"))
                        continue
            st, model, label = _differs(B, pairs)
            if st == "same":
                if type_dev:
                    pv.outputs.append(OutputVerdict(name, "type-deviation", f"comparison with item/fluid left operand ({val.type}) carried on {type_dev}; value correct"))
                else:
                    pv.outputs.append(OutputVerdict(name, "ok"))
                continue
            if st == "unknown":
                w = _random_search(src, c, cin, name, a, optimize, rnd)
                if w is None:
                    pv.outputs.append(OutputVerdict(name, "undecided", f"solver unknown on {label}"))
                    continue
                witness = w
            else:
                witness = _witness(src, c, cin, model, invars, name, a)
                if not _witness_differs(witness, a):
                    # the model leaned on an uninterpreted symbol (power): look for a real input
                    witness = _random_search(src, c, cin, name, a, optimize, rnd)
                    if witness is None:
                        pv.outputs.append(OutputVerdict(name, "undecided", f"counter-model for {label} does not replay concretely"))
                        continue
            # classify: does the difference vanish under ideal isolation?
            if ideal is None:
                ideal = IdealEvaluator(c, B, overrides=overrides, allowed=_edge_filter(cap, c))
            try:
                icontent = ideal.anchor_content(a)
                ipairs = expected_pairs(B, val, icontent, a.desc)
                ist, _, _ = _differs(B, ipairs)
            except (Cyclic, Unsupported):
                ist = "unknown"
            status = "crosstalk" if ist == "same" else "mismatch"
            pv.outputs.append(OutputVerdict(name, status, f"signal {label}", witness))
    return pv


def _same_value(B, a, b):
    if type(a) is not type(b):
        return False
    if isinstance(a, SigV):
        if a.type != b.type:
            return False
        return _differs(B, [("v", a.v, b.v)], timeout=3000)[0] == "same"
    if isinstance(a, BunV):
        if set(a.members) != set(b.members):
            return False
        return _differs(B, [(k, a.members[k], b.members[k]) for k in a.members], timeout=3000)[0] == "same"
    return False


def _identical_earlier_output(B, outs, name, c):
    """Name of another exposed result that denotes exactly the same value and type (class of
    KF-C10-cse-duplicate-name-lost)."""
    for other, val in outs.items():
        if other == name:
            continue
        if _same_value(B, outs[name], val) and find_anchors(c, other):
            return other
    return None


def _judge_constant(c, B, name, val, overrides):
    """Named result produced by a constant combinator itself (no anchor by design)."""
    ents = [e for e in find_labelled(c, name) if e.kind == "const"]
    if not ents:
        return OutputVerdict(name, "missing", "no anchor and no labelled constant for this name")
    if isinstance(val, SigV):
        e = ents[0]
        sigs = dict(c.const_signals(e))
        t = val.type
        if t is None:
            if len(sigs) != 1:
                return OutputVerdict(name, "skip", "implicit constant")
            t = next(iter(sigs))
        got = overrides.get((e.num, t), B.const(sigs.get(t, 0)))
        st, model, _ = _differs(B, [(t, val.v, got)])
        return OutputVerdict(name, "ok" if st == "same" else "mismatch", f"constant {t}")
    return OutputVerdict(name, "skip", "constant bundle")


def _concrete_eval(src, c, cin, values, name, anchor):
    """Both sides on concrete inputs (back end Concrete): (expected, got) as plain dicts."""
    CB = Concrete()
    ov = {(num, sig): CB.const(values[n][sig]) for n, lst in cin.items() for (num, sig) in lst}
    ev = Evaluator(c, CB, overrides=ov)
    got = {k: v for k, v in ev.anchor_content(anchor).items() if v != 0}
    sem = Sem(CB, inputs={n: {s_: CB.const(v) for s_, v in d.items()} for n, d in values.items()})
    sem.run(pipeline.parse(src))
    val = sem.outputs().get(name)
    if isinstance(val, SigV):
        exp = {"type": val.type, "value": val.v}
    elif isinstance(val, BunV):
        exp = {str(k): v for k, v in val.members.items() if v != 0}
    else:
        exp = None
    return exp, got


def _witness(src, c, cin, model, invars, name, anchor):
    values = {}
    for n, d in invars.items():
        values[n] = {s_: model.eval(var, model_completion=True).as_signed_long() for s_, var in d.items()}
    exp, got = _concrete_eval(src, c, cin, values, name, anchor)
    return {"inputs": values, "expected": exp, "anchor_network": got, "output": name}


def _witness_differs(w, anchor):
    exp, got = w["expected"], w["anchor_network"]
    if exp is None:
        return True
    if "type" in exp and "value" in exp and len(exp) == 2:
        t = exp["type"]
        if t is None:
            m = ARROW_RE.search(anchor.desc)
            t = m.group(1) if m else None
        return got.get(t, 0) != exp["value"]
    return exp != {str(k): v for k, v in got.items()}


def _random_search(src, c, cin, name, anchor, optimize, rnd):
    rnd = rnd or random.Random(0)
    pool = [0, 1, -1, 2, 3, 7, -7, 31, 32, 100, 2**31 - 1, -(2**31), 65536, 46341]
    for _ in range(200):
        values = {n: {sig: (rnd.choice(pool) if rnd.random() < 0.7 else rnd.randint(-(2**31), 2**31 - 1))
                      for (_e, sig) in lst} for n, lst in cin.items()}
        exp, got = _concrete_eval(src, c, cin, values, name, anchor)
        if exp is None:
            return None
        if "type" in exp:
            t = exp["type"]
            if t is None:
                m = ARROW_RE.search(anchor.desc)
                t = m.group(1) if m else None
            if got.get(t, 0) != exp["value"]:
                return {"inputs": values, "expected": exp, "anchor_network": got, "output": name}
        else:
            if exp != {str(k): v for k, v in got.items()}:
                return {"inputs": values, "expected": exp, "anchor_network": got, "output": name}
    return None
