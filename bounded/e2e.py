"""End-to-end judge for stateless programs (bounded stand-in for the K3..K9 chain).

For ONE source program: compile with the real compiler, decode the blueprint (S2), evaluate the
source (S3) and decide by SMT — for ALL int32 valuations of the program's named inputs — whether
every output anchor carries exactly the value the source denotes.

Each mismatch is classified:
  ok          : equal for all inputs (unsat)
  crosstalk   : differs, but equals S3 once producers that have no signal-graph edge to the
                consumer are disconnected ("ideal isolation") -> wire-isolation defect K7
  mismatch    : differs even under ideal isolation -> a stage other than wiring is wrong
  undecided   : solver budget exhausted and random testing found no difference
"""
from __future__ import annotations

import random
import re
from dataclasses import dataclass, field

import z3

from spec.circuit import Circuit, Cyclic, Evaluator, Unsupported
from spec.facto_sem import BunV, IntV, Rejected, Sem, SemError, SigV, entity_key
from spec.num import Concrete, Symbolic

from . import pipeline

INPUT_RE = re.compile(r"^(?:\[[^\]]*\]\s*)?(\S+) \(value=(-?\d+) \(input\)\)")
ARROW_RE = re.compile(r"-> (\S+)\s*$")
SMT_TIMEOUT_MS = 8000


@dataclass
class OutputVerdict:
    name: str
    status: str
    detail: str = ""
    witness: dict | None = None


@dataclass
class ProgramVerdict:
    src: str
    status: str  # judged | rejected | outside-s3 | cyclic | error
    outputs: list = field(default_factory=list)
    detail: str = ""
    n_entities: int = 0
    cap: object = None
    free: dict = field(default_factory=dict)

    def worst(self):
        order = ["mismatch", "crosstalk", "undecided", "ok"]
        for o in order:
            if any(v.status == o for v in self.outputs):
                return o
        return "ok"


def circuit_inputs(c: Circuit):
    """{variable name: [(entity num, signal)]} for the constant combinators labelled as inputs."""
    out = {}
    for e in c.ents.values():
        if e.kind == "const" and "(input)" in e.desc:
            m = INPUT_RE.match(e.desc)
            if m:
                for s, _cnt in c.const_signals(e):
                    out.setdefault(m.group(1), []).append((e.num, s))
    return out


def _source_input_names(prog):
    names = {}
    for st in prog.statements:
        if type(st).__name__ != "DeclStmt":
            continue
        v = st.value
        k = type(v).__name__
        ok = False
        if st.type_name == "Signal" and (k == "NumberLiteral" or (k == "SignalLiteral" and type(v.value).__name__ == "NumberLiteral")):
            ok = True
        if st.type_name == "Bundle" and k == "BundleLiteral" and all(
                type(el).__name__ == "SignalLiteral" and type(el.value).__name__ == "NumberLiteral" for el in v.elements):
            ok = True
        names[st.name] = names.get(st.name, 0) + (1 if ok else 100)
    return {n for n, cnt in names.items() if cnt == 1}


def find_anchors(c: Circuit, name):
    pat = re.compile(r"(?:^|\]\s|\s)" + re.escape(name) + r" \(output anchor\)")
    return [e for e in c.ents.values() if c.is_anchor(e) and pat.search(e.desc)]


def find_labelled(c: Circuit, name):
    pat = re.compile(r"(?:^|\]\s)" + re.escape(name) + r" \(")
    return [e for e in c.ents.values() if pat.search(e.desc) and "(output anchor)" not in e.desc]


def _edge_filter(cap, c: Circuit):
    """producer/consumer filter for ideal isolation, keyed by blueprint entity numbers."""
    if cap is None:
        return lambda p, e: True
    pos2pid = pipeline.placement_by_position(cap)
    num2pid = {}
    for e in c.ents.values():
        pid = pos2pid.get((float(e.pos[0]), float(e.pos[1])))
        if pid is not None:
            num2pid[e.num] = pid
    edges = pipeline.intended_edges(cap)

    def allowed(p_num, e_num):
        p, q = num2pid.get(p_num), num2pid.get(e_num)
        if p is None or q is None:
            return True
        return (p, q) in edges or p == q

    return allowed


class IdealEvaluator(Evaluator):
    """S2 with every consumer reading only the producers the compiler's signal graph intends."""

    def __init__(self, *a, allowed=None, **k):
        super().__init__(*a, **k)
        self.allowed = allowed

    def visible(self, p, e):
        return bool(self.allowed(p.num, e.num))

    def read(self, e, sel):
        acc = {}
        for colour in ("red", "green"):
            if not sel[colour]:
                continue
            n = self.c.net(e.num, self.c.in_conn(e, colour))
            for p in self.c.producers(n):
                if not self.allowed(p.num, e.num):
                    continue
                for s, v in self.emitted(p).items():
                    self._add(acc, s, v)
        return acc


def _differs(B, pairs, timeout=SMT_TIMEOUT_MS):
    """pairs: [(label, expected, got)] -> ('same'|'differs'|'unknown', model, label)"""
    s = z3.Solver()
    s.set("timeout", timeout)
    diffs = []
    for label, exp, got in pairs:
        d = z3.simplify(B.lift(exp) != B.lift(got))
        if z3.is_false(d):
            continue
        diffs.append((label, d))
    if not diffs:
        return "same", None, None
    for label, d in diffs:
        s.push()
        s.add(d)
        r = s.check()
        if r == z3.sat:
            return "differs", s.model(), label
        if r == z3.unknown:
            s.pop()
            return "unknown", None, label
        s.pop()
    return "same", None, None


def expected_pairs(B, val, content, desc):
    """[(signal, expected, got)] for one output value against an anchor's network content."""
    zero = B.const(0)
    if isinstance(val, SigV):
        t = val.type
        if t is None:
            m = ARROW_RE.search(desc)
            t = m.group(1) if m else None
            if t is None or t in ("bundle", "signal-each"):
                return None
        return [(t, val.v, content.get(t, zero))]
    if isinstance(val, BunV):
        if any(isinstance(k, tuple) for k in val.members):
            return None
        keys = set(val.members) | set(content)
        return [(k, val.members.get(k, zero), content.get(k, zero)) for k in sorted(keys)]
    return None


def judge(src, *, optimize=True, power_pole_type=None, rnd=None, scalar_own_signal_only=True, keep_cap=False, bp=None):
    """bp: judge an already decoded blueprint dict (e.g. the CLI's output) instead of compiling in-process;
    no plan is available then, so a wire-isolation difference cannot be told from any other mismatch."""
    if bp is not None:
        cap = None
        c = Circuit(bp)
    else:
        cap = pipeline.compile_capture(src, optimize=optimize, power_pole_type=power_pole_type)
        if not cap.ok:
            return ProgramVerdict(src, "rejected", detail=cap.error or "")
        c = Circuit(cap.bp)
    pv = ProgramVerdict(src, "judged", n_entities=len(c.ents), cap=cap if keep_cap else None)
    B = Symbolic()
    cin = circuit_inputs(c)
    try:
        legit = _source_input_names(pipeline.parse(src))
    except Exception:
        legit = set()
    # only top-level constant declarations are inputs (S3 overrides exactly those); a labelled
    # constant created inside a loop/function or inside an expression keeps its concrete value
    cin = {n: lst for n, lst in cin.items() if n in legit and len({num for num, _ in lst}) == 1}
    invars = {name: {sig: B.var(f"in_{name}.{sig}") for (_n, sig) in lst} for name, lst in cin.items()}
    overrides = {(num, sig): invars[name][sig] for name, lst in cin.items() for (num, sig) in lst}
    try:
        prog = pipeline.parse(src)
        universe = sorted(set(re.findall(r'"([A-Za-z][A-Za-z0-9_-]+)"', src)) | {"iron-plate", "copper-plate"})
        # what a container / machine can report: items and fluids — never a virtual signal (a chest has no "signal-A")
        universe = [u for u in universe if not _is_proto_only(u, src) and not u.startswith("signal-")]

        class _Outputs(dict):
            """free contents per ENTITY (key: spec.facto_sem.entity_key), created when first read"""
            def get(self, key, default=None):
                if key not in self:
                    self[key] = {sig: B.var(f"out_{key}.{sig}") for sig in universe}
                return self[key]
        ent_out = _Outputs()
        sem = Sem(B, inputs=invars, entity_outputs=ent_out)
        sem.run(prog)
        outs = sem.outputs()
    except SemError as e:
        pv.status, pv.detail = "outside-s3", str(e)
        return pv
    except Rejected as e:
        pv.status, pv.detail = "accepted-but-s3-rejects", str(e)
        return pv
    free = {}
    for ent in sem.entities:
        if isinstance(ent.x, IntV) and isinstance(ent.y, IntV) and entity_key(ent) in ent_out:
            w, h = tile_size(ent.proto)
            for e in c.ents.values():
                if e.name == ent.proto and abs(e.pos[0] - (ent.x.v + w / 2.0)) < 1e-6 and abs(e.pos[1] - (ent.y.v + h / 2.0)) < 1e-6:
                    free[e.num] = ent_out[entity_key(ent)]
    ev = Evaluator(c, B, overrides=overrides, free_outputs=free)
    pv.free = free
    _ENT["vars"] = ent_out
    _ENT["out"] = {n: list(d) for n, d in ent_out.items()}
    _ENT["free"] = {}
    for ent in sem.entities:
        for num, d in free.items():
            if entity_key(ent) in ent_out and d is ent_out[entity_key(ent)]:
                _ENT["free"][num] = (entity_key(ent), list(d))
    ideal = None
    for name, val in outs.items():
        anchors = find_anchors(c, name)
        if not anchors:
            ov = _judge_constant(c, B, name, val, overrides)
            if ov.status == "missing" and optimize:
                twin = _identical_earlier_output(B, outs, name, c)
                if twin:
                    ov = OutputVerdict(name, "duplicate-missing",
                                       f"no anchor: CSE merged it with the identical earlier result '{twin}'")
            pv.outputs.append(ov)
            continue
        for a in anchors:
            try:
                content = ev.anchor_content(a)
            except Cyclic:
                # a stateless program whose circuit has a wire-level cycle: some combinator's output reaches its own input
                # network (input networks joined by chained wires).  Not skipped: if the circuit restricted to the compiler's own
                # signal graph (ideal isolation) gives the S3 value, this is the wire-isolation class (crosstalk); otherwise a mismatch.
                if ideal is None:
                    ideal = IdealEvaluator(c, B, overrides=overrides, free_outputs=free, allowed=_edge_filter(cap, c))
                try:
                    icontent = ideal.anchor_content(a)
                    ipairs = expected_pairs(B, val, icontent, a.desc)
                    ist = _differs(B, ipairs)[0] if ipairs is not None else "unknown"
                except (Cyclic, Unsupported):
                    ist = "unknown"
                pv.outputs.append(OutputVerdict(name, "crosstalk" if ist == "same" else "mismatch",
                                                "cyclic circuit: an output is wired back into its own input network", {"cyclic": True}))
                continue
            except Unsupported as e:
                pv.outputs.append(OutputVerdict(name, "skip", f"S2 unsupported: {e}"))
                continue
            pairs = expected_pairs(B, val, content, a.desc)
            if pairs is None:
                pv.outputs.append(OutputVerdict(name, "skip", "implicitly typed bundle member"))
                continue
            if isinstance(val, SigV) and val.type is None:
                m = ARROW_RE.search(a.desc)
                chosen = m.group(1) if m else None
                explicit = set(re.findall(r'"([A-Za-z][A-Za-z0-9_-]+)"', src))
                if chosen in ("signal-each", "signal-anything", "signal-everything", "signal-W") or chosen in explicit:
                    pv.outputs.append(OutputVerdict(name, "implicit-collision",
                                                    f"compiler-chosen signal {chosen} for the untyped value '{name}' is a wildcard/reserved signal or is used explicitly by the program"))
                    continue
            type_dev = None
            if isinstance(val, SigV) and val.type is not None:
                m = ARROW_RE.search(a.desc)
                if m and m.group(1) not in (val.type, "signal-each", "bundle"):
                    if val.note in ("cmp-nonvirtual", "param") and (m.group(1).startswith("signal-")):
                        # class of KF-C01-comparison-result-type: judge the VALUE on the channel used
                        type_dev = m.group(1)
                        pairs = [(type_dev, val.v, content.get(type_dev, B.const(0)))]
                    else:
                        pv.outputs.append(OutputVerdict(name, "mismatch", f"anchor labelled '-> {m.group(1)}', language assigns {val.type}"))
                        continue
            st, model, label = _differs(B, pairs)
            if st == "same":
                if type_dev and val.note == "param":
                    pv.outputs.append(OutputVerdict(name, "type-deviation-param", f"result typed through a function parameter ({val.type}) carried on {type_dev}; value correct"))
                elif type_dev:
                    pv.outputs.append(OutputVerdict(name, "type-deviation", f"comparison with item/fluid left operand ({val.type}) carried on {type_dev}; value correct"))
                else:
                    pv.outputs.append(OutputVerdict(name, "ok"))
                continue
            if st == "unknown":
                w = _random_search(src, c, cin, name, a, optimize, rnd)
                if w is None:
                    pv.outputs.append(OutputVerdict(name, "undecided", f"solver unknown on {label}"))
                    continue
                witness = w
            else:
                witness = _witness(src, c, cin, model, invars, name, a)
                if not _witness_differs(witness, a):
                    # the model leaned on an uninterpreted symbol (power): look for a real input
                    witness = _random_search(src, c, cin, name, a, optimize, rnd)
                    if witness is None:
                        pv.outputs.append(OutputVerdict(name, "undecided", f"counter-model for {label} does not replay concretely"))
                        continue
            # classify: does the difference vanish under ideal isolation?
            if ideal is None:
                ideal = IdealEvaluator(c, B, overrides=overrides, free_outputs=free, allowed=_edge_filter(cap, c))
            try:
                icontent = ideal.anchor_content(a)
                ipairs = expected_pairs(B, val, icontent, a.desc)
                ist, _, _ = _differs(B, ipairs)
            except (Cyclic, Unsupported):
                ist = "unknown"
            status = "crosstalk" if ist == "same" else "mismatch"
            pv.outputs.append(OutputVerdict(name, status, f"signal {label}", witness))
    _judge_entities(pv, sem, c, ev, B, cap, overrides)
    if not optimize and any(o.status == "mismatch" for o in pv.outputs) and _const_const_decider(c):
        for o in pv.outputs:
            if o.status == "mismatch":
                o.status = "const-const-decider"
    if cap is not None and any(o.status == "mismatch" for o in pv.outputs) and _entity_output_collision(cap):
        for o in pv.outputs:
            if o.status == "mismatch":
                o.status = "entity-output-collision"
    return pv


def _const_const_decider(c):
    """Class of KF-C01-noopt-constant-comparison: the (unoptimised) blueprint contains a decider whose
    condition compares the placeholder signal-0 with a constant, i.e. both operands of the source
    comparison were constants and the left one was lost."""
    for e in c.ents.values():
        if e.kind != "decider":
            continue
        for cond in (e.cb.get("decider_conditions", {}) or {}).get("conditions", []) or []:
            fs = cond.get("first_signal") or {}
            if fs.get("name") == "signal-0" and not cond.get("second_signal"):
                return True
    return False


def _entity_output_collision(cap):
    """Class of KF-C06-entity-output-signal-collision: some combinator receives, on ONE colour, an edge
    from a user entity's circuit output (registered under the name 'bundle') together with an edge of an
    ordinary signal from another source — the conflict graph compares signal names and cannot see that
    the entity output may carry that very signal."""
    try:
        colors = cap.planner.connection_planner._edge_wire_colors
        placements = cap.plan.entity_placements
    except Exception:
        return False
    by_sink = {}
    for (src, sink, sig), col in colors.items():
        by_sink.setdefault((sink, col), []).append((src, sig))
    for (sink, col), lst in by_sink.items():
        ent_edges = [(s_, g) for s_, g in lst if g == "bundle" and getattr(placements.get(s_), "role", "") not in ("combinator", "arithmetic", "decider", "constant")
                     and not str(getattr(placements.get(s_), "entity_type", "")).endswith("combinator")]
        others = [(s_, g) for s_, g in lst if g != "bundle" and s_ not in {e for e, _ in ent_edges}]
        if ent_edges and others:
            return True
    return False


def _is_proto_only(name, src):
    """quoted names used only as place() prototypes are not signals"""
    return re.search(r'place\(\s*"' + re.escape(name) + '"', src) is not None and len(re.findall('"' + re.escape(name) + '"', src)) == len(re.findall(r'place\(\s*"' + re.escape(name) + '"', src))


_TILE = {}


def tile_size(proto):
    if proto not in _TILE:
        from draftsman.entity import new_entity
        e = new_entity(proto)
        _TILE[proto] = (e.tile_width, e.tile_height)
    return _TILE[proto]


_FLAG = {}


def _has_enable_flag(proto):
    if proto not in _FLAG:
        from draftsman.entity import new_entity
        _FLAG[proto] = hasattr(new_entity(proto), "circuit_enabled")
    return _FLAG[proto]


def _judge_entities(pv, sem, c, ev, B, cap, overrides):
    """C06/C09: every place() yields exactly one entity of that prototype at that tile, and its circuit
    condition is true exactly when the assigned enable expression is positive."""
    from spec.facto_sem import EntV
    user_like = [e for e in c.ents.values() if e.kind in ("other", "pole")]
    claimed = set()
    for ent in sem.entities:
        if not (isinstance(ent.x, IntV) and isinstance(ent.y, IntV)):
            continue
        w, h = tile_size(ent.proto)
        cx, cy = ent.x.v + w / 2.0, ent.y.v + h / 2.0
        label = f"entity:{ent.name or ent.proto}@{ent.x.v},{ent.y.v}"
        matches = [e for e in user_like if e.name == ent.proto and abs(e.pos[0] - cx) < 1e-6 and abs(e.pos[1] - cy) < 1e-6]
        if len(matches) != 1:
            near = [(e.name, e.pos) for e in user_like if e.name == ent.proto][:4]
            pv.outputs.append(OutputVerdict(label, "mismatch", f"{len(matches)} entities of {ent.proto} with top-left tile ({ent.x.v},{ent.y.v}); same-prototype entities at {near}",
                                            {"expected_centre": [cx, cy]}))
            continue
        e = matches[0]
        if e.num in claimed:
            pv.outputs.append(OutputVerdict(label, "mismatch", "two place() calls share one entity"))
            continue
        claimed.add(e.num)
        if ent.enable is None:
            pv.outputs.append(OutputVerdict(label, "ok"))
            continue
        try:
            want = B.cmp(">", sem.num(ent.enable), B.const(0))
            got = ev.condition(e)
        except (Cyclic, Unsupported) as ex:
            pv.outputs.append(OutputVerdict(label, "skip", str(ex)))
            continue
        if got is None or (_has_enable_flag(ent.proto) and not e.cb.get("circuit_enabled", False)):
            pv.outputs.append(OutputVerdict(label, "mismatch", "enable assigned in the source but the entity has no enabled circuit condition"))
            continue
        s = z3.Solver()
        s.set("timeout", SMT_TIMEOUT_MS)
        s.add(B._b(want) != B._b(got))
        r = s.check()
        if r == z3.unsat:
            pv.outputs.append(OutputVerdict(label, "ok"))
        elif r == z3.sat:
            m = s.model()
            inputs = {str(d): m[d].as_signed_long() for d in m.decls() if d.name().startswith("in_")}
            # ideal isolation?
            status = "mismatch"
            try:
                ideal = IdealEvaluator(c, B, overrides=overrides, free_outputs=getattr(pv, 'free', {}), allowed=_edge_filter(cap, c))
                s2 = z3.Solver()
                s2.set("timeout", SMT_TIMEOUT_MS)
                s2.add(B._b(want) != B._b(ideal.condition(e)))
                if s2.check() == z3.unsat:
                    status = "crosstalk"
            except (Cyclic, Unsupported):
                pass
            pv.outputs.append(OutputVerdict(label, status, f"circuit condition {e.cb.get('circuit_condition')} differs from (enable > 0)",
                                            {"inputs": inputs, "expected_enabled": bool(m.eval(B._b(want), model_completion=True)),
                                             "condition_true": bool(m.eval(B._b(got), model_completion=True))}))
        else:
            pv.outputs.append(OutputVerdict(label, "undecided", "solver unknown on entity condition"))
    extra = [e for e in user_like if e.num not in claimed and e.kind == "other"]
    n_places = len([x for x in sem.entities if isinstance(x.x, IntV) and isinstance(x.y, IntV)])
    if extra and n_places == len(sem.entities):
        pv.outputs.append(OutputVerdict("entities", "mismatch", f"{len(extra)} non-compiler entities not accounted for by any place(): {[(e.name, e.pos) for e in extra][:4]}"))


def _same_value(B, a, b):
    if type(a) is not type(b):
        return False
    if isinstance(a, SigV):
        if a.type != b.type:
            return False
        return _differs(B, [("v", a.v, b.v)], timeout=3000)[0] == "same"
    if isinstance(a, BunV):
        if set(a.members) != set(b.members):
            return False
        return _differs(B, [(k, a.members[k], b.members[k]) for k in a.members], timeout=3000)[0] == "same"
    return False


def _identical_earlier_output(B, outs, name, c):
    """Name of another exposed result that denotes exactly the same value and type (class of
    KF-C10-cse-duplicate-name-lost)."""
    for other, val in outs.items():
        if other == name:
            continue
        if _same_value(B, outs[name], val) and find_anchors(c, other):
            return other
    return None


def _judge_constant(c, B, name, val, overrides):
    """Named result produced by a constant combinator itself (no anchor by design)."""
    ents = [e for e in find_labelled(c, name) if e.kind == "const"]
    if not ents:
        return OutputVerdict(name, "missing", "no anchor and no labelled constant for this name")
    if isinstance(val, SigV):
        e = ents[0]
        sigs = dict(c.const_signals(e))
        t = val.type
        if t is None:
            if len(sigs) != 1:
                return OutputVerdict(name, "skip", "implicit constant")
            t = next(iter(sigs))
        got = overrides.get((e.num, t), B.const(sigs.get(t, 0)))
        st, model, _ = _differs(B, [(t, val.v, got)])
        return OutputVerdict(name, "ok" if st == "same" else "mismatch", f"constant {t}")
    return OutputVerdict(name, "skip", "constant bundle")


_ENT = {"out": {}, "free": {}}  # per-judge context: entity output variables and their circuit entities


def _concrete_eval(src, c, cin, values, name, anchor):
    """Both sides on concrete inputs (back end Concrete): (expected, got) as plain dicts."""
    CB = Concrete()
    ov = {(num, sig): CB.const(values[n][sig]) for n, lst in cin.items() if n != "__entity_outputs__" for (num, sig) in lst}
    evals = values.get("__entity_outputs__", {})
    free = {num: {sig: CB.const(evals.get(nm, {}).get(sig, 0)) for sig in sigs}
            for num, (nm, sigs) in _ENT["free"].items()}
    ev = Evaluator(c, CB, overrides=ov, free_outputs=free)
    got = {k: v for k, v in ev.anchor_content(anchor).items() if v != 0}
    sem = Sem(CB, inputs={n: {s_: CB.const(v) for s_, v in d.items()} for n, d in values.items() if n != "__entity_outputs__"},
              entity_outputs={nm: {sig: CB.const(evals.get(nm, {}).get(sig, 0)) for sig in sigs} for nm, sigs in _ENT["out"].items()})
    sem.run(pipeline.parse(src))
    val = sem.outputs().get(name)
    if isinstance(val, SigV):
        exp = {"type": val.type, "value": val.v}
    elif isinstance(val, BunV):
        exp = {str(k): v for k, v in val.members.items() if v != 0}
    else:
        exp = None
    return exp, got


def _witness(src, c, cin, model, invars, name, anchor):
    values = {}
    for n, d in invars.items():
        values[n] = {s_: model.eval(var, model_completion=True).as_signed_long() for s_, var in d.items()}
    if _ENT["out"]:
        values["__entity_outputs__"] = {nm: {sig: model.eval(var, model_completion=True).as_signed_long() for sig, var in d.items()}
                                        for nm, d in _ENT["vars"].items()}
    exp, got = _concrete_eval(src, c, cin, values, name, anchor)
    return {"inputs": values, "expected": exp, "anchor_network": got, "output": name}


def _witness_differs(w, anchor):
    exp, got = w["expected"], w["anchor_network"]
    if exp is None:
        return True
    if "type" in exp and "value" in exp and len(exp) == 2:
        t = exp["type"]
        if t is None:
            m = ARROW_RE.search(anchor.desc)
            t = m.group(1) if m else None
        return got.get(t, 0) != exp["value"]
    return exp != {str(k): v for k, v in got.items()}


def _random_search(src, c, cin, name, anchor, optimize, rnd):
    rnd = rnd or random.Random(0)
    pool = [0, 1, -1, 2, 3, 7, -7, 31, 32, 100, 2**31 - 1, -(2**31), 65536, 46341]
    for _ in range(200):
        values = {n: {sig: (rnd.choice(pool) if rnd.random() < 0.7 else rnd.randint(-(2**31), 2**31 - 1))
                      for (_e, sig) in lst} for n, lst in cin.items()}
        if _ENT["out"]:
            values["__entity_outputs__"] = {nm: {sig: rnd.choice(pool) for sig in sigs} for nm, sigs in _ENT["out"].items()}
        exp, got = _concrete_eval(src, c, cin, values, name, anchor)
        if exp is None:
            return None
        if "type" in exp:
            t = exp["type"]
            if t is None:
                m = ARROW_RE.search(anchor.desc)
                t = m.group(1) if m else None
            if got.get(t, 0) != exp["value"]:
                return {"inputs": values, "expected": exp, "anchor_network": got, "output": name}
        else:
            if exp != {str(k): v for k, v in got.items()}:
                return {"inputs": values, "expected": exp, "anchor_network": got, "output": name}
    return None
