"""C14 / C01 / C13: the leaves and the dispatch of SemanticAnalyzer.infer_expr_type, and the analyser's helpers for `cond : value`,
`x.type` and `literal | T` (the memory-write branch of infer_expr_type is in contracts.c14c, whose apparatus is shared).

Leaves      NumberLiteral -> int with its value; IdentifierExpr -> the symbol's type, an undefined name is ONE error (and int);
            ReadExpr -> the cell's type, ONE error for an undefined name / a name that is not a memory; UnaryOp -> the operand's type;
            projection / typed literal -> a signal of exactly the resolved type (reserved and unknown names reported); calls, property
            reads; every other class is handed to its own rule, once, and that rule's answer is returned."""
from __future__ import annotations

import z3

from contracts.c14c import AN, ERR, IMPLICIT, TYPED, WARN, _DYN, _INFO, _OPQ, _SELF, _USES, _VT, _b, _is, _reset
from pyvc import types as ty
from pyvc.contract import Contract
from pyvc.ghost import ghost, isa
from pyvc.values import SObj, fresh_name
from spec import ops
from spec.ops import And, Not, Or

CONTRACTS = []


# =================================================================================================
# Leaves and dispatch of infer_expr_type (one scenario per expression class).
# =================================================================================================
LEAF = {}
_SYM_ANY = ty.TObj("Symbol", only=("Symbol",), ftypes=(("symbol_type", ty.Str), ("value_type", _VT),
                                                      ("properties", ty.TOpt(ty.TObjMap(ty.Str, ty.TObj("Symbol", only=("Symbol",), ftypes=(("value_type", _VT),)))))))


def _leaf_reset(a):
    LEAF.clear()
    return _reset(a)


def _leaf_lookup(ex, a):
    LEAF.setdefault("looked_up", []).append(a.name)
    return ghost(ex.args_ns.expr, "symbol", ty.TOpt(_SYM_ANY))


leaf_lookup = Contract(qualname="dsl_compiler/src/semantic/symbol_table.py::SymbolTable.lookup", params={"self": _OPQ, "name": _OPQ}, effect=_leaf_lookup, verify=False,
                       note="proved in contracts.c14: innermost definition of the name, None when undefined")


def _helper(kind, t=_VT):
    def eff(ex, a):
        LEAF.setdefault(kind, []).append(a)
        return ghost(ex.args_ns.expr, "result_of_" + kind, t)
    return eff


def _resolve_eff(ex, a):
    LEAF.setdefault("resolved", []).append((a.type_ref, a.node))
    return ghost(ex.args_ns.expr, "resolved", ty.TOpt(ty.Str))


def _reserved_eff(ex, a):
    LEAF.setdefault("reserved_reported", []).append(a.signal_name)
    return None


def _validate_eff(ex, a):
    LEAF.setdefault("validated", []).append(a.signal_name)
    return ghost(ex.args_ns.expr, "valid", ty.Bool)


_P1 = {"self": _OPQ, "expr": _OPQ}
_LEAF_USES = {**_USES, "SymbolTable.lookup": leaf_lookup,
              "SemanticAnalyzer.infer_binary_op_type": Contract(qualname=AN + "infer_binary_op_type", params=_P1, effect=_helper("binary"), verify=False, note="proved in contracts.c14b"),
              "SemanticAnalyzer._infer_output_spec_type": Contract(qualname=AN + "_infer_output_spec_type", params=_P1, effect=_helper("output_spec"), verify=False, note="type of `cond : value` (S3 scope, bounded)"),
              "SemanticAnalyzer._infer_bundle_literal_type": Contract(qualname=AN + "_infer_bundle_literal_type", params=_P1, effect=_helper("bundle_literal"), verify=False, note="proved in contracts.c14"),
              "SemanticAnalyzer._infer_bundle_select_type": Contract(qualname=AN + "_infer_bundle_select_type", params=_P1, effect=_helper("bundle_select"), verify=False, note="proved in contracts.c14b"),
              "SemanticAnalyzer._infer_bundle_any_type": Contract(qualname=AN + "_infer_bundle_any_type", params=_P1, effect=_helper("bundle_any"), verify=False, note="type of any(b) (S3 scope, bounded)"),
              "SemanticAnalyzer._infer_bundle_all_type": Contract(qualname=AN + "_infer_bundle_all_type", params=_P1, effect=_helper("bundle_all"), verify=False, note="type of all(b) (S3 scope, bounded)"),
              "SemanticAnalyzer._infer_entity_output_type": Contract(qualname=AN + "_infer_entity_output_type", params=_P1, effect=_helper("entity_output"), verify=False, note="type of entity.output (S3 scope, bounded)"),
              "SemanticAnalyzer._infer_builtin_call_type": Contract(qualname=AN + "_infer_builtin_call_type", params=_P1, effect=_helper("builtin", ty.TOpt(_VT)), verify=False,
                                                                    note="the type of place / input / memory calls, None for any other name"),
              "SemanticAnalyzer._get_function_return_type": Contract(qualname=AN + "_get_function_return_type", params={"self": _OPQ, "function_name": _OPQ}, effect=_helper("return_type"), verify=False,
                                                                     note="type of the function's return expression (C15: S3 scope, bounded)"),
              "SemanticAnalyzer.visit_CallExpr": Contract(qualname=AN + "visit_CallExpr", params={"self": _OPQ, "node": _OPQ}, effect=lambda ex, a: LEAF.setdefault("call_checked", []).append(a.node), verify=False,
                                                          note="proved in contracts.c14b: the static rules of a call"),
              "SemanticAnalyzer.resolve_signal_type_access": Contract(qualname=AN + "resolve_signal_type_access", params={"self": _OPQ, "type_ref": _OPQ, "node": _OPQ}, effect=_resolve_eff, verify=False,
                                                                      note="the type name written, or the type of the signal named by `x.type`; None (reported) when that cannot be resolved"),
              "SemanticAnalyzer._emit_reserved_signal_diagnostic": Contract(qualname=AN + "_emit_reserved_signal_diagnostic", params={"self": _OPQ, "signal_name": _OPQ, "node": _OPQ, "context": _OPQ},
                                                                            effect=_reserved_eff, verify=False, note="proved in contracts.c14b: signal-W is an ERROR"),
              "SemanticAnalyzer.validate_signal_type_with_error": Contract(qualname=AN + "validate_signal_type_with_error", params={"self": _OPQ, "signal_name": _OPQ, "node": _OPQ, "context": _OPQ},
                                                                           defaults={"context": ""}, effect=_validate_eff, verify=False, note="proved in contracts.c14b: an unknown name is an ERROR")}
_LEAF_DYN = {"self": {**_DYN["self"], "RESERVED_SIGNAL_RULES": ty.TConcrete({"signal-W": ("error", "reserved")})}}


def _fresh_signal(res):
    return isa(res, "SignalValue") is True and isinstance(res.signal_type, SObj) and res.signal_type.name == IMPLICIT


def _number_post(a, res):
    return _b(isa(res, "IntValue") is True and res.value is a.expr.value and not ERR)


def _text_post(a, res):
    return _b(isa(res, "IntValue") is True and res.value is None and not ERR)


def _ident_post(a, res):
    sym = a.expr._fields.get("@symbol")
    if LEAF.get("looked_up") != [a.expr.name] and not (len(LEAF.get("looked_up", [])) == 1 and LEAF["looked_up"][0] is a.expr.name):
        return False
    if sym is None:
        return _b(len(ERR) == 1 and isa(res, "IntValue") is True)
    return _b(not ERR and res is sym.value_type)


def _read_post(a, res):
    sym = a.expr._fields.get("@symbol")
    if not (len(LEAF.get("looked_up", [])) == 1 and LEAF["looked_up"][0] is a.expr.memory_name):
        return False
    if sym is None:
        return _b(len(ERR) == 1 and _fresh_signal(res))
    return And(_b(res is sym.value_type), len(ERR) == ops.ite(sym.symbol_type == "memory", 0, 1))


def _unary_post(a, res):
    return _b(len(TYPED) == 1 and TYPED[0] is a.expr.expr and res is a.expr.expr._fields.get("@type") and not ERR)


def _typed_literal_post(what):
    """projection `e | T` and typed literal (T, e): the inner expression is analysed; the type name is resolved; an unresolvable name gives a fresh type
    (reported by the resolver); the reserved signal is reported; the name is validated; result: a signal of exactly the resolved type"""
    def post(a, res):
        e = a.expr
        inner = e.expr if what == "projection" else e.value
        ref = e.target_type if what == "projection" else e.signal_type
        if not (len(TYPED) == 1 and TYPED[0] is inner):
            return False
        if what == "literal" and ref is not None and not LEAF.get("resolved"):
            # an empty type name counts as no type
            inner_num = isa(inner, "NumberLiteral") is True
            return And(z3.Length(ref) == 0, _b((isa(res, "IntValue") is True and res.value is inner.value) if inner_num else (_fresh_signal(res) and res.count_expr is inner)), _b(not ERR))
        if what == "literal" and ref is None:
            # untyped literal: a number stays an integer (with its value), anything else gets a fresh type and remembers the expression
            if isa(inner, "NumberLiteral") is True:
                return _b(isa(res, "IntValue") is True and res.value is inner.value and not LEAF.get("resolved") and not ERR)
            return _b(_fresh_signal(res) and res.count_expr is inner and not LEAF.get("resolved") and not ERR)
        rs = LEAF.get("resolved", [])
        if not (len(rs) == 1 and rs[0][0] is ref and rs[0][1] is e):
            return False
        nonempty = z3.Length(ref) > 0 if what == "literal" else z3.BoolVal(True)
        name = e._fields.get("@resolved")
        if name is None:
            return And(nonempty, _b(_fresh_signal(res) and not LEAF.get("validated") and not ERR))
        reported = LEAF.get("reserved_reported", [])
        ok_reserved = And(name == "signal-W", _b(len(reported) == 1 and reported[0] is name)) if reported else Not(name == "signal-W")
        validated = LEAF.get("validated", [])
        return And(nonempty, ok_reserved, _b(len(validated) == 1 and validated[0] is name and isa(res, "SignalValue") is True and isinstance(res.signal_type, SObj) and res.signal_type.name is name
                                   and (what == "projection" or res.count_expr is inner) and not ERR))
    return post


def _call_post(a, res):
    e = a.expr
    if not (len(LEAF.get("call_checked", [])) == 1 and LEAF["call_checked"][0] is e):
        return False   # the static rules of the call are always checked first
    b = e._fields.get("@result_of_builtin")
    if b is not None:
        return _b(res is b and not LEAF.get("return_type"))
    sym = e._fields.get("@symbol")
    if LEAF.get("return_type"):
        return And(_b(sym is not None and res is e._fields.get("@result_of_return_type") and LEAF["return_type"][0].function_name is e.name), sym.symbol_type == "function" if sym is not None else False)
    return And(_b(_fresh_signal(res)), Not(sym.symbol_type == "function") if sym is not None else True)


def _prop_post(a, res):
    e = a.expr
    sym = e._fields.get("@symbol")
    if not (len(LEAF.get("looked_up", [])) == 1 and LEAF["looked_up"][0] is e.object_name):
        return False
    if sym is None:
        return _b(len(ERR) == 1 and isa(res, "IntValue") is True)
    entity, module = sym.symbol_type == "entity", sym.symbol_type == "module"
    if _fresh_signal(res):
        return And(entity, _b(not ERR))
    props = sym._fields.get("properties")
    members = [r for _k, r in props.lookups] if props is not None else []
    if members and res is members[-1]._fields.get("value_type"):
        # a module member: the type recorded for that function
        return And(Not(entity), module, _b(not ERR and len(members) == 1 and props.lookups[0][0] is e.property_name))
    return And(Not(entity), _b(isa(res, "IntValue") is True and len(ERR) == 1))


def _dispatch_post(kind):
    def post(a, res):
        calls = LEAF.get(kind, [])
        return _b(len(calls) == 1 and calls[0].expr is a.expr and res is a.expr._fields.get("@result_of_" + kind) and not ERR)
    return post


def _leaf(cls, post, what, ftypes=(), props=("C14",), min_obl=1, note=None):
    return Contract(qualname=AN + "infer_expr_type", params={"self": _SELF, "expr": ty.TObj(cls, only=(cls,), ftypes=tuple(ftypes))},
                    requires=[("(reset capture)", _leaf_reset), ("the analyser has a current scope", lambda a: a.self.current_scope is not None)],
                    ensures=[(what, post)], uses=_LEAF_USES, dynamic_types=_LEAF_DYN, properties=props, min_obligations=min_obl, no_replay=True, note=note or cls)


_ID = ty.TObj("Expr", only=("IdentifierExpr",))
CONTRACTS += [
    _leaf("NumberLiteral", _number_post, "an integer with the literal's value", (("value", ty.Int),), ("C14", "C11")),
    _leaf("StringLiteral", _text_post, "an integer without a compile-time value"),
    _leaf("DictLiteral", _text_post, "an integer without a compile-time value"),
    _leaf("IdentifierExpr", _ident_post, "the symbol's type; an undefined name is ONE error", (("name", ty.Str),), min_obl=2),
    _leaf("ReadExpr", _read_post, "the cell's type; ONE error for an undefined name or a name that is not a memory", (("memory_name", ty.Str),), ("C14", "C03"), 2),
    _leaf("UnaryOp", _unary_post, "the operand's type (the operand is analysed)", (("expr", _ID),), ("C14", "C01")),
    _leaf("ProjectionExpr", _typed_literal_post("projection"), "source analysed; a signal of exactly the resolved target type; reserved and unknown names reported",
          (("expr", _ID), ("target_type", ty.Str)), ("C14", "C01", "C13"), 3),
    _leaf("SignalLiteral", _typed_literal_post("literal"), "value analysed; typed: a signal of exactly the resolved type (reserved / unknown names reported); untyped number: an integer with its value; "
          "untyped expression: a fresh type", (("value", ty.TObj("Expr", only=("IdentifierExpr", "NumberLiteral"), ftypes=(("value", ty.Int),))), ("signal_type", ty.TOpt(ty.Str))), ("C14", "C01", "C13"), 4),
    _leaf("CallExpr", _call_post, "the call's static rules are checked; builtin: its type; a function: its return type; anything else: a fresh signal type", (("name", ty.Str),), ("C14", "C15"), 3),
    _leaf("PropertyAccessExpr", _prop_post, "undefined object: ONE error; an entity's property: a fresh signal type; a module's function: its type, an absent member ONE error; "
          "any other object: ONE error", (("object_name", ty.Str), ("property_name", ty.Str)), ("C14", "C06"), 4),
]
for _cls, _kind in (("BinaryOp", "binary"), ("OutputSpecExpr", "output_spec"), ("BundleLiteral", "bundle_literal"), ("BundleSelectExpr", "bundle_select"), ("BundleAnyExpr", "bundle_any"),
                    ("BundleAllExpr", "bundle_all"), ("EntityOutputExpr", "entity_output")):
    CONTRACTS.append(_leaf(_cls, _dispatch_post(_kind), f"exactly what the {_kind} rule says for this expression (called once, on it)", (), ("C14", "C01", "C02")))
CONTRACTS += [leaf_lookup] + [v for v in _LEAF_USES.values() if isinstance(v, Contract) and v.qualname.startswith(AN) and v not in CONTRACTS]


# =================================================================================================
# `cond : value` and `x.type` in the analyser.
#   _is_comparison_expr        true exactly for: a comparison; an && / || whose BOTH sides are such expressions (recursively); a name
#                              bound to a comparison result.  Anything else (arithmetic, a plain signal, a literal) is not a condition.
#   _infer_output_spec_type    bundle filter `(bundle CMP x) : out` -> the filter rule, nothing else; otherwise ONE error exactly when
#                              the left side is not a condition; condition and value are both analysed; the result is the value's type,
#                              an integer value taking the comparison's left signal type (a fresh type when that is no signal)
#   resolve_signal_type_access a written name is returned as it is; `x.type` is the type name of the signal variable x — an error
#                              (and None) for any other property, an undefined name, a non-signal, a signal without type
#   _try_simplify_signal_projection  `literal | T` becomes the typed literal (T, value): the innermost value expression is kept, the
#                              OUTERMOST type wins; a projection of anything else is left alone
# =================================================================================================
_CMPS = ("==", "!=", "<", "<=", ">", ">=")
_CSYM = ty.TObj("Symbol", only=("Symbol",), ftypes=(("value_type", ty.TObj("ValueInfo", only=("IntValue", "SignalValue", "BundleValue"), ftypes=(("is_comparison_result", ty.Bool), ("signal_type", ty.TOpt(_INFO))))),))


def _cmp_lookup(ex, a):
    # one symbol per identifier NODE (the name is the node's)
    for node in CMP_NODES:
        if isinstance(node, SObj) and node._fields.get("name") is a.name:
            return ghost(node, "symbol", ty.TOpt(_CSYM))
    raise NotImplementedError("lookup of a name that is not one of the identifiers")


CMP_NODES = []
cmp_lookup = Contract(qualname="dsl_compiler/src/semantic/symbol_table.py::SymbolTable.lookup", params={"self": _OPQ, "name": _OPQ}, effect=_cmp_lookup, verify=False,
                      note="proved in contracts.c14: innermost definition of the name, None when undefined")


def _collect_nodes(e, out):
    if isinstance(e, SObj):
        out.append(e)
        for f in ("left", "right"):
            if f in e._fields:
                _collect_nodes(e._fields[f], out)


def _cmp_reset(a):
    CMP_NODES.clear()
    _leaf_reset(a)
    return True


def _spec_is_cmp(e):
    """the specification, over the (concrete-shape) tree"""
    if isa(e, "BinaryOp") is True:
        is_cmp = Or(*[e.op == o for o in _CMPS])
        is_log = Or(*[e.op == o for o in ("&&", "||", "and", "or")])
        if "left" in e._fields or "left" in e._ftypes:
            both = And(_spec_is_cmp(e.left), _spec_is_cmp(e.right))
        else:
            both = z3.BoolVal(False)
        return Or(is_cmp, And(is_log, both))
    if isa(e, "IdentifierExpr") is True:
        sym = e._fields.get("@symbol")
        if sym is None:
            return z3.BoolVal(False)
        return And(_is(sym.value_type, "SignalValue"), sym.value_type.is_comparison_result) if isa(sym.value_type, "SignalValue") is not False else z3.BoolVal(False)
    return z3.BoolVal(False)


def _is_cmp_post(a, res):
    want = _spec_is_cmp(a.expr)
    return ops.eq(res, want) if ops.is_sym(res) or ops.is_sym(want) else _b(res == want)


def _register_nodes(a):
    _collect_nodes(a.expr, CMP_NODES)
    return True


_LEAFX = ty.TObj("Expr", only=("IdentifierExpr", "NumberLiteral", "BinaryOp"), ftypes=(("name", ty.Str), ("op", ty.Str), ("left", ty.TObj("Expr", only=("NumberLiteral",))), ("right", ty.TObj("Expr", only=("NumberLiteral",)))))
_TREE1 = ty.TObj("BinaryOp", only=("BinaryOp",), ftypes=(("op", ty.Str), ("left", _LEAFX), ("right", _LEAFX)))
_TREE2 = ty.TObj("BinaryOp", only=("BinaryOp",), ftypes=(("op", ty.Str), ("left", _TREE1), ("right", _LEAFX)))
_CMP_DYN = {"self": {**_DYN["self"], "COMPARISON_OPS": ty.TConcrete(set(_CMPS))}}
for _shape, _t in (("leaf", _LEAFX), ("one operator over two leaves", _TREE1), ("(a OP b) OP c", _TREE2)):
    CONTRACTS.append(Contract(
        qualname=AN + "_is_comparison_expr", params={"self": _SELF, "expr": _t},
        requires=[("(reset capture)", _cmp_reset), ("(the identifiers of the tree)", lambda a: _touch_tree(a.expr) and _register_nodes(a))],
        ensures=[("a comparison, an && / || of conditions on BOTH sides, or a name bound to a comparison result — nothing else", _is_cmp_post)],
        uses={"SymbolTable.lookup": cmp_lookup, "SemanticAnalyzer._is_comparison_expr": "inline"}, dynamic_types=_CMP_DYN, properties=("C14", "C01"), min_obligations=3, no_replay=True,
        note=_shape))


def _touch_tree(e):
    """materialise the tree (classes, names, children) so that the specification and the code see the same nodes"""
    if isinstance(e, SObj):
        for c in e._cls_set:
            pass
        if isa(e, "BinaryOp") is not False and ("left" in e._ftypes):
            _touch_tree(e.left), _touch_tree(e.right)
        if isa(e, "IdentifierExpr") is not False and "name" in e._ftypes:
            e.name
    return True


# ---------------------------------------------------------------------------------------------------------------------
OS = {}


def _os_reset(a):
    OS.clear()
    return _leaf_reset(a)


def _os_rec(kind, t):
    def eff(ex, a):
        OS.setdefault(kind, []).append(a)
        return ghost(ex.args_ns.expr, kind, t)
    return eff


def _os_post(a, res):
    e = a.expr
    flt = e._fields.get("@is_filter")
    if flt is None or len(OS.get("is_filter", [])) != 1:
        return False
    if OS.get("filter_type"):
        return And(flt, _b(res is e._fields.get("@filter_type") and not ERR and not TYPED and not OS.get("is_cmp")))
    is_cmp = e._fields.get("@is_cmp")
    if is_cmp is None or len(OS["is_cmp"]) != 1 or OS["is_cmp"][0].expr is not e.condition:
        return False
    if len(TYPED) != 2 or TYPED[0] is not e.condition or TYPED[1] is not e.output_value:
        return False   # both parts are analysed (their own errors are not lost), condition first
    vt = e.output_value._fields.get("@type")
    cs = [Not(flt), len(ERR) == ops.ite(is_cmp, 0, 1)]
    if isa(vt, "IntValue") is True:
        lt = e._fields.get("@left_type")
        if lt is None or OS["left_type"][0].expr is not e.condition:
            return False
        if isa(lt, "SignalValue") is True:
            cs.append(_b(res is lt))
        else:
            cs.append(_b(_fresh_signal(res)))
    else:
        cs.append(_b(res is vt and not OS.get("left_type")))
    return And(*cs)


_OS_USES = {**_USES,
            "SemanticAnalyzer._is_bundle_filter_pattern": Contract(qualname=AN + "_is_bundle_filter_pattern", params=_P1, effect=_os_rec("is_filter", ty.Bool), verify=False,
                                                                   note="a comparison whose left operand is a bundle (four-line test)"),
            "SemanticAnalyzer._infer_bundle_filter_type": Contract(qualname=AN + "_infer_bundle_filter_type", params=_P1, effect=_os_rec("filter_type", _VT), verify=False,
                                                                   note="type of a bundle filter (S3 scope, bounded)"),
            "SemanticAnalyzer._is_comparison_expr": Contract(qualname=AN + "_is_comparison_expr", params=_P1, effect=_os_rec("is_cmp", ty.Bool), verify=False, note="proved above"),
            "SemanticAnalyzer._get_comparison_left_type": Contract(qualname=AN + "_get_comparison_left_type", params=_P1, effect=_os_rec("left_type", _VT), verify=False,
                                                                   note="type of the first comparison's left operand (an integer when there is none)")}
for _cond in ("IdentifierExpr", "BinaryOp", "NumberLiteral"):
    CONTRACTS.append(Contract(
        qualname=AN + "_infer_output_spec_type",
        params={"self": _SELF, "expr": ty.TObj("OutputSpecExpr", only=("OutputSpecExpr",), ftypes=(("condition", ty.TObj("Expr", only=(_cond,), ftypes=(("name", ty.Str),))), ("output_value", _ID)))},
        requires=[("(reset capture)", _os_reset)],
        ensures=[("filter pattern: the filter rule only; else ONE error exactly for a non-condition left side, both parts analysed, result = the value's type, an integer taking the "
                  "comparison's left signal type or a fresh one", _os_post)],
        uses=_OS_USES, dynamic_types=_DYN, properties=("C14", "C01", "C02"), min_obligations=3, no_replay=True, note=f"condition is a {_cond}"))


# ---------------------------------------------------------------------------------------------------------------------
def _rsta_lookup(ex, a):
    OS.setdefault("looked_up", []).append(a.name)
    return ghost(ex.args_ns.type_ref, "symbol", ty.TOpt(ty.TObj("Symbol", only=("Symbol",), ftypes=(("value_type", _VT),))))


def _rsta_str_post(a, res):
    return _b(res is a.type_ref and not ERR)


def _rsta_post(a, res):
    r = a.type_ref
    if not OS.get("looked_up"):
        return And(Not(r.property_name == "type"), _b(res is None and len(ERR) == 1))
    sym = r._fields.get("@symbol")
    cs = [r.property_name == "type", _b(len(OS["looked_up"]) == 1 and OS["looked_up"][0] is r.object_name)]
    if sym is None:
        return And(*cs, _b(res is None and len(ERR) == 1))
    if isa(sym.value_type, "SignalValue") is not True:
        return And(*cs, _b(res is None and len(ERR) == 1 and isa(sym.value_type, "SignalValue") is False))
    if sym.value_type.signal_type is None:
        return And(*cs, _b(res is None and len(ERR) == 1))
    return And(*cs, _b(res is sym.value_type.signal_type.name and not ERR))


CONTRACTS.append(Contract(qualname=AN + "resolve_signal_type_access", params={"self": _SELF, "type_ref": ty.Str, "node": ty.TObj("ASTNode", only=("ProjectionExpr",))},
                          requires=[("(reset capture)", _os_reset)], ensures=[("a written type name is returned as it is, silently", _rsta_str_post)],
                          uses=_USES, dynamic_types=_DYN, properties=("C13", "C01"), min_obligations=1, no_replay=True, note="a written name"))
CONTRACTS.append(Contract(qualname=AN + "resolve_signal_type_access",
                          params={"self": _SELF, "type_ref": ty.TObj("SignalTypeAccess", only=("SignalTypeAccess",), ftypes=(("object_name", ty.Str), ("property_name", ty.Str))),
                                  "node": ty.TObj("ASTNode", only=("ProjectionExpr",))},
                          requires=[("(reset capture)", _os_reset)],
                          ensures=[("x.type is the type name of the signal variable x; ONE error and None for another property, an undefined name, a non-signal, a signal without a type", _rsta_post)],
                          uses={**_USES, "SymbolTable.lookup": Contract(qualname="dsl_compiler/src/semantic/symbol_table.py::SymbolTable.lookup", params={"self": _OPQ, "name": _OPQ}, effect=_rsta_lookup,
                                                                        verify=False, note="proved in contracts.c14: innermost definition of the name, None when undefined")},
                          dynamic_types=_DYN, properties=("C13", "C01", "C14"), min_obligations=5, no_replay=True, note="x.type"))


# ---------------------------------------------------------------------------------------------------------------------
def _simplify_post(depth):
    def post(a, res):
        p = a.proj_expr
        # walk down the projections to the innermost source
        src, n = p.expr, 1
        while isa(src, "ProjectionExpr") is True and n < depth + 1:
            src, n = src.expr, n + 1
        if isa(src, "NumberLiteral") is True:
            want_value = src
        elif isa(src, "SignalLiteral") is True:
            want_value = src.value
        else:
            return _b(res is None)
        return _b(res is not None and isa(res, "SignalLiteral") is True and res.value is want_value and res.signal_type is p.target_type and res.line is p.line)
    return post


_SRC0 = ty.TObj("Expr", only=("NumberLiteral", "SignalLiteral", "IdentifierExpr", "BinaryOp"), ftypes=(("value", ty.TObj("Expr", only=("NumberLiteral", "BinaryOp"))),))
_PROJ1 = ty.TObj("ProjectionExpr", only=("ProjectionExpr",), ftypes=(("expr", _SRC0), ("target_type", ty.Str), ("line", ty.Int), ("column", ty.Int), ("raw_text", ty.TOpt(ty.Str))))
_PROJ2 = ty.TObj("ProjectionExpr", only=("ProjectionExpr",), ftypes=(("expr", _PROJ1), ("target_type", ty.Str), ("line", ty.Int), ("column", ty.Int), ("raw_text", ty.TOpt(ty.Str))))
_PROJ3 = ty.TObj("ProjectionExpr", only=("ProjectionExpr",), ftypes=(("expr", _PROJ2), ("target_type", ty.Str), ("line", ty.Int), ("column", ty.Int), ("raw_text", ty.TOpt(ty.Str))))
for _d, _t in ((0, _PROJ1), (1, _PROJ2), (2, _PROJ3)):
    CONTRACTS.append(Contract(qualname=AN + "_try_simplify_signal_projection", params={"self": _SELF, "proj_expr": _t},
                              ensures=[("a (nested) projection of a literal is the typed literal of the INNERMOST value on the OUTERMOST type; any other source is left alone", _simplify_post(_d))],
                              uses={"SemanticAnalyzer._try_simplify_signal_projection": "inline"}, properties=("C01", "C13"), min_obligations=2, no_replay=True, note=f"{_d + 1} projection(s)"))
CONTRACTS += [v for v in _OS_USES.values() if isinstance(v, Contract) and v.qualname.startswith(AN) and v not in CONTRACTS]


# =================================================================================================
# Bundles and entities in the analyser (C14 / C02 / C06 / C09).
#   _validate_place_call          place() takes 3 or 4 arguments (else ONE error, nothing analysed); a prototype that is not a string literal is ONE
#                                 error; a fourth argument that is not a dictionary literal is ONE error; x, y and every dictionary value are analysed
#                                 (their own errors are not lost); the prototype text is recorded on the call
#   _infer_bundle_filter_type     `(bundle CMP x) : out`: a bundle on the RIGHT of the comparison is ONE error; right side and output are analysed; the
#                                 result is a bundle with the SOURCE bundle's members (a copy of the set, not the same object)
#   _infer_entity_output_type     `e.output`: ONE error when e is undefined or not an entity; always a dynamic bundle naming e
#   _infer_bundle_any_type / _all_type   ONE error when the argument is not a bundle; always a signal on a fresh type
# =================================================================================================
PLC = {}


def _plc_reset(a):
    PLC.clear()
    return _leaf_reset(a)


def _place_post(n_args, proto_cls, dict_cls):
    def post(a, res):
        node = a.node
        args = list(node.args)
        if n_args not in (3, 4):
            return _b(len(ERR) == 1 and not TYPED and "prototype" not in node.metadata)
        errs = (0 if proto_cls == "StringLiteral" else 1)
        want_typed = [args[1], args[2]]
        if n_args == 4:
            if dict_cls == "DictLiteral":
                want_typed += list(args[3].entries.values())
            else:
                errs += 1
        ok = len(ERR) == errs and len(TYPED) == len(want_typed) and all(x is y for x, y in zip(TYPED, want_typed))
        if proto_cls == "StringLiteral":
            ok = ok and node.metadata.get("prototype") is args[0].value
        else:
            ok = ok and "prototype" not in node.metadata
        return _b(ok)
    return post


_IDX = ty.TObj("Expr", only=("IdentifierExpr",))
for _n, _pc, _dc in ((2, "StringLiteral", None), (5, "StringLiteral", None), (3, "StringLiteral", None), (3, "IdentifierExpr", None), (4, "StringLiteral", "DictLiteral"),
                     (4, "StringLiteral", "IdentifierExpr"), (4, "IdentifierExpr", "IdentifierExpr")):
    _proto = ty.TObj("Expr", only=(_pc,), ftypes=(("value", ty.Str),))
    _args = [_proto, _IDX, _IDX][:_n] if _n <= 3 else [_proto, _IDX, _IDX]
    if _n >= 4:
        _args.append(ty.TObj("Expr", only=(_dc or "IdentifierExpr",), ftypes=(("entries", ty.TRecord((("direction", _IDX), ("recipe", _IDX)))),)))
    if _n == 5:
        _args.append(_IDX)
    CONTRACTS.append(Contract(
        qualname=AN + "_validate_place_call",
        params={"self": _SELF, "node": ty.TObj("CallExpr", only=("CallExpr",), ftypes=(("args", ty.TTuple(tuple(_args))), ("metadata", ty.TConcrete({}))))},
        requires=[("(reset capture)", _plc_reset)],
        ensures=[("3 or 4 arguments, a string-literal prototype and a dictionary-literal fourth argument are demanded (one error each); x, y and the dictionary's values are analysed; "
                  "the prototype text is recorded", _place_post(_n, _pc, _dc))],
        uses={**_USES, "SemanticAnalyzer.get_expr_type": Contract(qualname=AN + "get_expr_type", params={"self": _OPQ, "expr": _OPQ}, effect=lambda ex, a: (TYPED.append(a.expr), ghost(a.expr, "type", _VT))[1],
                                                                   verify=False, note="type of a sub-expression (records that it was analysed)")},
        dynamic_types=_DYN, properties=("C14", "C09"), min_obligations=1, no_replay=True, note=f"{_n} arguments, prototype {_pc}" + (f", fourth {_dc}" if _dc else "")))


def _bt_type(ex, a):
    TYPED.append(a.expr)
    return ghost(a.expr, "type", ty.TObj("ValueInfo", only=("IntValue", "SignalValue", "BundleValue", "DynamicBundleValue"), ftypes=(("signal_types", ty.TConcrete({"signal-A", "signal-B"})),)))


_bt_get = Contract(qualname=AN + "get_expr_type", params={"self": _OPQ, "expr": _OPQ}, effect=_bt_type, verify=False, note="type of a sub-expression (records that it was analysed)")


def _filter_post(a, res):
    c = a.expr.condition
    lt, rt = c.left._fields.get("@type"), c.right._fields.get("@type")
    if lt is None or rt is None:
        return False
    right_bundle = Or(_is(rt, "BundleValue"), _is(rt, "DynamicBundleValue"))
    return And(_b(len(TYPED) == 3 and TYPED[0] is c.left and TYPED[1] is c.right and TYPED[2] is a.expr.output_value),
               len(ERR) == ops.ite(right_bundle, 1, 0),
               _b(isa(res, "BundleValue") is True and res.signal_types == lt.signal_types and res.signal_types is not lt.signal_types))


CONTRACTS.append(Contract(
    qualname=AN + "_infer_bundle_filter_type",
    params={"self": _SELF, "expr": ty.TObj("OutputSpecExpr", only=("OutputSpecExpr",), ftypes=(("condition", ty.TObj("BinaryOp", only=("BinaryOp",), ftypes=(("left", _IDX), ("right", _IDX)))), ("output_value", _IDX)))},
    requires=[("(reset capture)", _plc_reset), ("the left operand is a bundle (what makes this the filter pattern: _is_bundle_filter_pattern)",
                                              lambda a: _force_class(a.expr.condition.left, "BundleValue"))],
    ensures=[("bundle on the right: ONE error; all three parts analysed; result: a bundle with the source's members (its own copy)", _filter_post)],
    uses={**_USES, "SemanticAnalyzer.get_expr_type": _bt_get}, dynamic_types=_DYN, properties=("C14", "C02"), min_obligations=2, no_replay=True))


def _force_class(node, cls):
    """the scenario's precondition: the ghost type of this node is of the given class"""
    t = ghost(node, "type", ty.TObj("ValueInfo", only=(cls,), ftypes=(("signal_types", ty.TConcrete({"signal-A", "signal-B"})),)))
    return t is not None


def _entout_lookup(ex, a):
    PLC.setdefault("looked_up", []).append(a.name)
    return ghost(ex.args_ns.expr, "symbol", ty.TOpt(ty.TObj("Symbol", only=("Symbol",), ftypes=(("symbol_type", ty.Str),))))


def _entout_post(a, res):
    sym = a.expr._fields.get("@symbol")
    ok = isa(res, "DynamicBundleValue") is True and res.source_entity_id is a.expr.entity_name and len(PLC.get("looked_up", [])) == 1 and PLC["looked_up"][0] is a.expr.entity_name
    if sym is None:
        return _b(ok and len(ERR) == 1)
    return And(_b(ok), len(ERR) == ops.ite(sym.symbol_type == "entity", 0, 1))


CONTRACTS.append(Contract(
    qualname=AN + "_infer_entity_output_type", params={"self": _SELF, "expr": ty.TObj("EntityOutputExpr", only=("EntityOutputExpr",), ftypes=(("entity_name", ty.Str),))},
    requires=[("(reset capture)", _plc_reset)],
    ensures=[("ONE error for an undefined name or a name that is not an entity; always a dynamic bundle naming the entity", _entout_post)],
    uses={**_USES, "SymbolTable.lookup": Contract(qualname="dsl_compiler/src/semantic/symbol_table.py::SymbolTable.lookup", params={"self": _OPQ, "name": _OPQ}, effect=_entout_lookup, verify=False,
                                                  note="proved in contracts.c14: innermost definition of the name, None when undefined")},
    dynamic_types=_DYN, properties=("C14", "C06"), min_obligations=3, no_replay=True))


def _anyall_post(a, res):
    t = a.expr.bundle._fields.get("@type")
    if t is None or len(TYPED) != 1 or TYPED[0] is not a.expr.bundle:
        return False
    return And(len(ERR) == ops.ite(_is(t, "BundleValue"), 0, 1), _b(_fresh_signal(res)))


for _fn, _cls in (("_infer_bundle_any_type", "BundleAnyExpr"), ("_infer_bundle_all_type", "BundleAllExpr")):
    CONTRACTS.append(Contract(
        qualname=AN + _fn, params={"self": _SELF, "expr": ty.TObj(_cls, only=(_cls,), ftypes=(("bundle", _IDX),))},
        requires=[("(reset capture)", _plc_reset)],
        ensures=[("ONE error when the argument is not a bundle; the result is a signal on a fresh type", _anyall_post)],
        uses={**_USES, "SemanticAnalyzer.get_expr_type": _bt_get}, dynamic_types=_DYN, properties=("C14", "C02"), min_obligations=2, no_replay=True))
CONTRACTS.append(_bt_get)
