"""C18: copper wiring of power poles (BlueprintEmitter._connect_pole_to_nearest).

Every pole is connected to its NEAREST other poles — at most `max_neighbors` of them, nearest first — and only to poles within the
wire reach of BOTH ends (the shorter of the two reaches); nothing is connected beyond that, and a pole is never connected to
itself.  (That the resulting grid is ONE network is not implied — see KF-C18-grid-split.)
The blueprint and the poles are third-party draftsman objects: the contract is evaluated on the REAL method with recording stand-ins
that answer the spatial query exactly (all poles within the radius) — a bounded stand-in."""
from __future__ import annotations

import itertools
import math

from pyvc import types as ty
from pyvc.contract import Contract

BEQ = "dsl_compiler/src/emission/emitter.py::BlueprintEmitter._connect_pole_to_nearest"


class _Pos:
    def __init__(self, x, y):
        self.x, self.y, self._data = x, y, (x, y)


class _Pole:
    def __init__(self, name, x, y, reach):
        self.id, self.global_position, self.maximum_wire_distance = name, _Pos(x, y), reach

    def __repr__(self):
        return self.id


class _Blueprint:
    def __init__(self, poles):
        self.poles, self.connections = poles, []

    def find_entities_filtered(self, type=None, position=None, radius=None):  # noqa: A002
        return [p for p in self.poles if math.dist(position, p.global_position._data) <= radius]

    def add_power_connection(self, a, b):
        self.connections.append((a.id, b.id))


def _post(a, res):
    bp, pole = a.self.blueprint, a.pole
    others = sorted((math.dist(pole.global_position._data, p.global_position._data), p.id, p) for p in bp.poles if p is not pole)
    got = [c for c in bp.connections]
    if any(x != pole.id for x, _ in got) or len(got) > a.max_neighbors or len({y for _, y in got}) != len(got):
        return False
    dist = {p.id: d for d, _, p in others}
    reach = {p.id: min(pole.maximum_wire_distance, p.maximum_wire_distance) for _, _, p in others}
    if any(dist[y] > reach[y] + 1e-9 for _, y in got):
        return False          # beyond the reach of one end
    # nearest first: every pole among the max_neighbors nearest (ties aside) that is within reach of both ends is connected
    nearest = others[:a.max_neighbors]
    if len(others) > a.max_neighbors and abs(others[a.max_neighbors][0] - nearest[-1][0]) < 1e-9:
        return True           # a tie at the cut-off: either choice is fine
    want = {p.id for d, _, p in nearest if d <= reach[p.id] and d <= pole.maximum_wire_distance}
    return {y for _, y in got} == want


connect_nearest = Contract(qualname=BEQ, params={"self": ty.TOpaque("emitter"), "pole": ty.TOpaque("pole"), "max_neighbors": ty.Int},
                           ensures=[("connected to the nearest poles only, at most max_neighbors, each within the reach of both ends", _post)],
                           verify=False, properties=("C18", "C08"), note="evaluated on the real method over an enumerated box (bounded stand-in)")
CONTRACTS = [connect_nearest]


def connect_arg_sets():
    from dsl_compiler.src.emission.emitter import BlueprintEmitter
    out = []
    spots = [(0.5, 0.5), (4.5, 0.5), (9.5, 0.5), (0.5, 7.5), (12.5, 0.5), (3.5, 3.5)]
    for n in (1, 2, 3, 4):
        for pts in itertools.combinations(spots, n):
            for reaches in ((9.0,) * n, (7.5,) + (9.0,) * (n - 1), (9.0,) + (7.5,) * (n - 1), (32.0,) * n):
                for k in (1, 2, 5):
                    poles = [_Pole(f"p{i}", x, y, r) for i, ((x, y), r) in enumerate(zip(pts, reaches))]
                    em = object.__new__(BlueprintEmitter)
                    em.blueprint = _Blueprint(poles)
                    out.append({"self": em, "pole": poles[0], "max_neighbors": k})
    return out
