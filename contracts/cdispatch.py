"""The three dispatchers of the pipeline: every kind of node goes to ITS handler, exactly once, and the handler's result is returned.

  ExpressionLowerer.lower_expr       number literal -> its value; every other expression class -> the lowering method of that class
                                     (reads and writes of memory cells to the memory lowerer); the result is the handler's result
  StatementLowerer.lower_statement   every statement class -> the lowering method of that class
  EntityPlacer.place_ir_operation    every IR node is recorded (by id, and with the memory builder) and handed to the placer of its class
A swapped table entry (any() lowered as all(), a latch write placed as a plain write) type-checks and passes most tests; these
contracts are one scenario per class (the class set is finite and closed: exhaustive)."""
from __future__ import annotations

from pyvc import types as ty
from pyvc.contract import Contract
from pyvc.values import SObj, fresh_name

_OPQ = ty.TOpaque("x")
EL = "dsl_compiler/src/lowering/expression_lowerer.py::ExpressionLowerer."
SLW = "dsl_compiler/src/lowering/statement_lowerer.py::StatementLowerer."
EPL = "dsl_compiler/src/layout/entity_placer.py::EntityPlacer."
CALLS = []
CONTRACTS = []


def _reset(a):
    CALLS.clear()
    return True


def _handler(name, owner_q, params=("self", "x")):
    def eff(ex, a):
        r = SObj(["SignalRef"], fresh_name("result_of_" + name), lazy=True)
        CALLS.append((name, getattr(a, params[1]) if len(params) > 1 else None, r))
        return r
    return Contract(qualname=owner_q + name, params={p: _OPQ for p in params}, effect=eff, verify=False, note="the handler of this class (contracted on its own)")


def _opaque_handler(name):
    def eff(ex, a):
        r = SObj(["SignalRef"], fresh_name("result_of_" + name), lazy=True)
        CALLS.append((name, a.args[0] if a.args else None, r))
        return r
    return Contract(qualname="(other stage)::" + name, params={"args": _OPQ}, effect=eff, verify=False, note="the handler of this class in the neighbouring component (recorded)")


_EXPR_TABLE = {"IdentifierExpr": "lower_identifier", "BinaryOp": "lower_binary_op", "UnaryOp": "lower_unary_op", "ProjectionExpr": "lower_projection_expr", "CallExpr": "lower_call_expr",
               "PropertyAccess": "lower_property_access", "PropertyAccessExpr": "lower_property_access", "SignalLiteral": "lower_signal_literal", "DictLiteral": "lower_dict_literal",
               "OutputSpecExpr": "lower_output_spec_expr", "BundleLiteral": "lower_bundle_literal", "BundleSelectExpr": "lower_bundle_select", "BundleAnyExpr": "lower_bundle_any",
               "BundleAllExpr": "lower_bundle_all", "EntityOutputExpr": "lower_entity_output", "ReadExpr": "lower_read_expr", "WriteExpr": "lower_write_expr"}
_expr_uses = {f"ExpressionLowerer.{m}": _handler(m, EL, ("self", "expr")) for m in set(_EXPR_TABLE.values()) if not m.endswith(("read_expr", "write_expr"))}
_expr_uses.update({"opaque.lower_read_expr": _opaque_handler("lower_read_expr"), "opaque.lower_write_expr": _opaque_handler("lower_write_expr"), "ExpressionLowerer._error": "skip"})


def _dispatch_post(want):
    def post(a, res):
        node = a.expr if hasattr(a, "expr") else (a.stmt if hasattr(a, "stmt") else a.op)
        return len(CALLS) == 1 and CALLS[0][0] == want and CALLS[0][1] is node and (res is CALLS[0][2] or res is None)
    return post


for _cls, _m in _EXPR_TABLE.items():
    CONTRACTS.append(Contract(
        qualname=EL + "lower_expr", params={"self": ty.TObj("ExpressionLowerer", only=("ExpressionLowerer",)), "expr": ty.TObj(_cls, only=(_cls,))},
        requires=[("(reset capture)", _reset)],
        ensures=[(f"a {_cls} is lowered by {_m} (once) and its result returned", lambda a, res, w=_m: _dispatch_post(w)(a, res) and res is CALLS[0][2])],
        uses=_expr_uses, dynamic_types={"self": {"parent": ty.TObj("ASTLowerer", only=("ASTLowerer",))}, "self.parent": {"mem_lowerer": ty.TOpaque("mem_lowerer")}},
        properties=("C01", "C02", "C03"), min_obligations=1, no_replay=True, note=f"class {_cls}"))
CONTRACTS.append(Contract(
    qualname=EL + "lower_expr", params={"self": ty.TObj("ExpressionLowerer", only=("ExpressionLowerer",)), "expr": ty.TObj("NumberLiteral", only=("NumberLiteral",), ftypes=(("value", ty.Int),))},
    requires=[("(reset capture)", _reset)], ensures=[("a number literal lowers to its value, without any handler", lambda a, res: not CALLS and res is a.expr.value)],
    uses=_expr_uses, properties=("C01", "C11"), min_obligations=1, no_replay=True, note="class NumberLiteral"))

_STMT_TABLE = {"DeclStmt": "lower_decl_stmt", "AssignStmt": "lower_assign_stmt", "MemDecl": "lower_mem_decl", "ExprStmt": "lower_expr_stmt", "ReturnStmt": "lower_return_stmt",
               "FuncDecl": "lower_func_decl", "ImportStmt": "lower_import_stmt", "ForStmt": "lower_for_stmt"}
_stmt_uses = {f"StatementLowerer.{m}": _handler(m, SLW, ("self", "stmt")) for m in _STMT_TABLE.values() if m != "lower_mem_decl"}
_stmt_uses.update({"opaque.lower_mem_decl": _opaque_handler("lower_mem_decl"), "StatementLowerer._error": "skip"})
for _cls, _m in _STMT_TABLE.items():
    CONTRACTS.append(Contract(
        qualname=SLW + "lower_statement", params={"self": ty.TObj("StatementLowerer", only=("StatementLowerer",)), "stmt": ty.TObj(_cls, only=(_cls,))},
        requires=[("(reset capture)", _reset)], ensures=[(f"a {_cls} is lowered by {_m}, once", _dispatch_post(_m))],
        uses=_stmt_uses, dynamic_types={"self": {"parent": ty.TObj("ASTLowerer", only=("ASTLowerer",))}, "self.parent": {"mem_lowerer": ty.TOpaque("mem_lowerer")}},
        properties=("C03", "C15", "C16", "C20"), min_obligations=1, no_replay=True, note=f"class {_cls}"))

_IR_TABLE = {"IRConst": "_place_constant", "IRArith": "_place_arithmetic", "IRDecider": "_place_decider", "IRMemCreate": "create_memory", "IRMemRead": "handle_read", "IRMemWrite": "handle_write",
             "IRLatchWrite": "handle_latch_write", "IRPlaceEntity": "_place_user_entity", "IREntityPropWrite": "_place_entity_prop_write", "IREntityPropRead": "_place_entity_prop_read",
             "IREntityOutput": "_place_entity_output", "IRWireMerge": "_place_wire_merge"}
_ir_uses = {f"EntityPlacer.{m}": _handler(m, EPL, ("self", "op")) for m in _IR_TABLE.values() if m.startswith("_place")}
for _m in ("create_memory", "handle_read", "handle_write", "handle_latch_write"):
    _ir_uses["opaque." + _m] = _opaque_handler(_m)
_ir_uses["opaque.register_ir_node"] = Contract(qualname="dsl_compiler/src/layout/memory_builder.py::MemoryBuilder.register_ir_node", params={"args": _OPQ},
                                               effect=lambda ex, a: CALLS.append(("register", a.args[0], None)), verify=False, note="records the node with the memory builder")
_ir_uses["opaque.warning"] = "skip"


def _ir_post(want):
    def post(a, res):
        reg = [c for c in CALLS if c[0] == "register"]
        rest = [c for c in CALLS if c[0] != "register"]
        stored = [v for k, v in a.self._ir_nodes.__dict__.get("stores", []) if k is a.op.node_id]
        return len(reg) == 1 and reg[0][1] is a.op and len(rest) == 1 and rest[0][0] == want and rest[0][1] is a.op and bool(stored) and stored[-1] is a.op
    return post


for _cls, _m in _IR_TABLE.items():
    CONTRACTS.append(Contract(
        qualname=EPL + "place_ir_operation", params={"self": ty.TObj("EntityPlacer", only=("EntityPlacer",)), "op": ty.TObj(_cls, only=(_cls,), ftypes=(("node_id", ty.Str),))},
        requires=[("(reset capture)", _reset)], ensures=[(f"a {_cls} is recorded by id and with the memory builder, and placed by {_m}, once", _ir_post(_m))],
        uses=_ir_uses, dynamic_types={"self": {"memory_builder": ty.TOpaque("memory_builder"), "signal_graph": ty.TOpaque("graph"), "diagnostics": ty.TOpaque("diag"),
                                               "_ir_nodes": ty.TObjMap(ty.Str, ty.TObj("IRNode"))}},
        properties=("C01", "C03", "C05", "C06", "C09"), min_obligations=1, no_replay=True, note=f"class {_cls}"))
