"""K7 contract (C12 / C01): wire_router.plan_wire_colors.

If the planner reports a bipartite (conflict-free) colouring, then any two different producers of one signal name
that feed the same consumer — and are not members of one intended wire merge — are on different colours, every
producer has a colour, and locked colours are respected.  The function works on concrete lists/dicts of tuples
(outside the symbolic executor's subset), so the contract's executable twin is evaluated on the REAL function over
an enumerated box of edge sets: bounded, labelled as such."""
from __future__ import annotations

import itertools

from pyvc import types as ty
from pyvc.contract import Contract

Q = "dsl_compiler/src/layout/wire_router.py::plan_wire_colors"


def _conflict_pairs(edges):
    groups = {}
    for e in edges:
        if not e.source_entity_id:
            continue
        groups.setdefault((e.sink_entity_id, e.resolved_signal_name), []).append(((e.source_entity_id, e.resolved_signal_name), e.originating_merge_id))
    pairs = set()
    for members in groups.values():
        first = {}
        for node, merge in members:
            first.setdefault(node, merge)
        items = list(first.items())
        for (a, ma), (b, mb) in itertools.combinations(items, 2):
            if a != b and not (ma is not None and ma == mb):
                pairs.add(tuple(sorted((a, b))))
    return pairs


def _post(a, res):
    edges, locked = a.edges, (a.locked_colors or {})
    nodes = {(e.source_entity_id, e.resolved_signal_name) for e in edges if e.source_entity_id}
    asg = res.assignments
    if any(n not in asg or asg[n] not in ("red", "green") for n in nodes):
        return False
    if any(asg.get(n) != c for n, c in locked.items()):
        return False
    proper = all(asg[x] != asg[y] for x, y in _conflict_pairs(edges))
    return (not res.is_bipartite) or proper


plan_colors = Contract(
    qualname=Q, params={"edges": ty.TOpaque("edges"), "locked_colors": ty.TOpaque("locked")},
    ensures=[("a colouring reported conflict-free separates every pair of competing producers and respects locks", _post)],
    verify=False, properties=("C12", "C01"),
    note="evaluated on the real function over an enumerated box (bounded stand-in)")
CONTRACTS = [plan_colors]


def arg_sets(tier):
    from dsl_compiler.src.layout.wire_router import CircuitEdge
    srcs, sinks, sigs, merges = ("A", "B", "C"), ("X", "Y"), ("s", "t"), (None, "m1")
    universe = [(s, k, g, m) for s in srcs for k in sinks for g in sigs for m in merges]
    out = []
    kmax = 3 if tier == "quick" else 4
    for k in range(1, kmax + 1):
        for combo in itertools.combinations(universe, k):
            edges = [CircuitEdge(logical_signal_id=g, resolved_signal_name=g, source_entity_id=s, sink_entity_id=kk, source_entity_type=None,
                                 sink_entity_type=None, sink_role=None, originating_merge_id=m) for (s, kk, g, m) in combo]
            out.append({"edges": edges, "locked_colors": None})
            if k <= 2 or tier != "quick":
                out.append({"edges": edges, "locked_colors": {(combo[0][0], combo[0][2]): "green"}})
    return out


# =================================================================================================
# ConnectionPlanner._compute_network_ids: relay isolation key.  Two edges get the same (positive) network id exactly when
# they have the same SOURCE ENTITY and the same wire colour — independent of the source's prototype, the sink or the signal —
# so two producers never share a relay network.  Evaluated on the real method (object built without its constructor) over an
# enumerated box of edge sets and colour maps: bounded.
# =================================================================================================
QN = "dsl_compiler/src/layout/connection_planner.py::ConnectionPlanner._compute_network_ids"


def _ids_post(a, res):
    me = a.self
    edges = [e for e in a.edges if e.source_entity_id]
    def key(e):
        return (e.source_entity_id, e.sink_entity_id, e.resolved_signal_name)
    ids = me._edge_network_ids
    if any(key(e) not in ids or not (isinstance(ids[key(e)], int) and ids[key(e)] > 0) for e in edges):
        return False
    for e1 in edges:
        for e2 in edges:
            same_class = e1.source_entity_id == e2.source_entity_id and me._edge_color_map.get(key(e1), "red") == me._edge_color_map.get(key(e2), "red")
            if (ids[key(e1)] == ids[key(e2)]) != same_class:
                return False
    return True


network_ids = Contract(qualname=QN, params={"self": ty.TOpaque("planner"), "edges": ty.TOpaque("edges")},
                       ensures=[("same network id iff same source entity and same colour; ids positive", _ids_post)],
                       verify=False, properties=("C12", "C08"), note="evaluated on the real method over an enumerated box (bounded stand-in)")
CONTRACTS.append(network_ids)


def network_arg_sets(tier):
    from dsl_compiler.src.layout.connection_planner import ConnectionPlanner
    from dsl_compiler.src.layout.wire_router import CircuitEdge

    class _Diag:
        def info(self, *a, **k):
            pass
        warning = error = info
    srcs = (("A", "constant-combinator"), ("B", "constant-combinator"), ("C", "arithmetic-combinator"))
    universe = [(s, t, k, g) for (s, t) in srcs for k in ("X", "Y") for g in ("s", "t")]
    out = []
    kmax = 3 if tier == "quick" else 4
    for k in range(1, kmax + 1):
        for combo in itertools.combinations(universe, k):
            edges = [CircuitEdge(logical_signal_id=g, resolved_signal_name=g, source_entity_id=s, sink_entity_id=kk, source_entity_type=t) for (s, t, kk, g) in combo]
            for colouring in ("all-red", "first-green"):
                p = object.__new__(ConnectionPlanner)
                p.diagnostics = _Diag()
                p._edge_network_ids = {}
                p._edge_color_map = {} if colouring == "all-red" else {(combo[0][0], combo[0][2], combo[0][3]): "green"}
                out.append({"self": p, "edges": edges})
    return out


# =================================================================================================
# ConnectionPlanner._find_bidirectional_pairs: (s, t) is in the result exactly when both s -> t and t -> s are edges — a
# SELF-LOOP s -> s (the feedback edge of a folded memory cell) is its own reverse and is included, so that it is routed
# directly and never handed to the spanning-tree fan-out (which cannot emit a wire from an entity to itself).
# Evaluated on the real method over all edge sets of up to 3 edges over 3 entities (self-loops included): bounded.
# =================================================================================================
BQ = "dsl_compiler/src/layout/connection_planner.py::ConnectionPlanner._find_bidirectional_pairs"


def _bidi_post(a, res):
    es = {(e.source_entity_id, e.sink_entity_id) for e in a.edges if e.source_entity_id is not None}
    want = {(s, t) for (s, t) in es if (t, s) in es}
    return set(res) == want


bidi = Contract(qualname=BQ, params={"self": ty.TOpaque("planner"), "edges": ty.TOpaque("edges")},
                ensures=[("result = the edges whose reverse is an edge too (self-loops included)", _bidi_post)],
                verify=False, properties=("C04", "C12"), note="evaluated on the real method over an enumerated box (bounded stand-in)")
CONTRACTS.append(bidi)


def bidi_arg_sets():
    from dsl_compiler.src.layout.connection_planner import ConnectionPlanner
    from dsl_compiler.src.layout.wire_router import CircuitEdge
    ents = ("A", "B", "C")
    universe = [(s, t) for s in ents + (None,) for t in ents]
    out = []
    for k in range(0, 4):
        for combo in itertools.combinations(universe, k):
            edges = [CircuitEdge(logical_signal_id="s", resolved_signal_name="s", source_entity_id=s, sink_entity_id=t) for (s, t) in combo]
            out.append({"self": object.__new__(ConnectionPlanner), "edges": edges})
    return out
