"""K7 contract (C12 / C01): wire_router.plan_wire_colors.

If the planner reports a bipartite (conflict-free) colouring, then any two different producers of one signal name
that feed the same consumer — and are not members of one intended wire merge — are on different colours, every
producer has a colour, and locked colours are respected.  The function works on concrete lists/dicts of tuples
(outside the symbolic executor's subset), so the contract's executable twin is evaluated on the REAL function over
an enumerated box of edge sets: bounded, labelled as such."""
from __future__ import annotations

import itertools

from pyvc import types as ty
from pyvc.contract import Contract

Q = "dsl_compiler/src/layout/wire_router.py::plan_wire_colors"


def _conflict_pairs(edges):
    groups = {}
    for e in edges:
        if not e.source_entity_id:
            continue
        groups.setdefault((e.sink_entity_id, e.resolved_signal_name), []).append(((e.source_entity_id, e.resolved_signal_name), e.originating_merge_id))
    pairs = set()
    for members in groups.values():
        first = {}
        for node, merge in members:
            first.setdefault(node, merge)
        items = list(first.items())
        for (a, ma), (b, mb) in itertools.combinations(items, 2):
            if a != b and not (ma is not None and ma == mb):
                pairs.add(tuple(sorted((a, b))))
    return pairs


def _post(a, res):
    edges, locked = a.edges, (a.locked_colors or {})
    nodes = {(e.source_entity_id, e.resolved_signal_name) for e in edges if e.source_entity_id}
    asg = res.assignments
    if any(n not in asg or asg[n] not in ("red", "green") for n in nodes):
        return False
    if any(asg.get(n) != c for n, c in locked.items()):
        return False
    proper = all(asg[x] != asg[y] for x, y in _conflict_pairs(edges))
    return (not res.is_bipartite) or proper


plan_colors = Contract(
    qualname=Q, params={"edges": ty.TOpaque("edges"), "locked_colors": ty.TOpaque("locked")},
    ensures=[("a colouring reported conflict-free separates every pair of competing producers and respects locks", _post)],
    verify=False, properties=("C12", "C01"),
    note="evaluated on the real function over an enumerated box (bounded stand-in)")
CONTRACTS = [plan_colors]


def arg_sets(tier):
    from dsl_compiler.src.layout.wire_router import CircuitEdge
    srcs, sinks, sigs, merges = ("A", "B", "C"), ("X", "Y"), ("s", "t"), (None, "m1")
    universe = [(s, k, g, m) for s in srcs for k in sinks for g in sigs for m in merges]
    out = []
    kmax = 3 if tier == "quick" else 4
    for k in range(1, kmax + 1):
        for combo in itertools.combinations(universe, k):
            edges = [CircuitEdge(logical_signal_id=g, resolved_signal_name=g, source_entity_id=s, sink_entity_id=kk, source_entity_type=None,
                                 sink_entity_type=None, sink_role=None, originating_merge_id=m) for (s, kk, g, m) in combo]
            out.append({"edges": edges, "locked_colors": None})
            if k <= 2 or tier != "quick":
                out.append({"edges": edges, "locked_colors": {(combo[0][0], combo[0][2]): "green"}})
    return out
