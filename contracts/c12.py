"""K7 contract (C12 / C01): wire_router.plan_wire_colors.

If the planner reports a bipartite (conflict-free) colouring, then any two different producers of one signal name
that feed the same consumer — and are not members of one intended wire merge — are on different colours, and so are a
BUNDLE wire (it carries every signal of the bundle) and any other producer at the same consumer; every producer has a
colour, and locked colours are respected.  K7 (wire isolation): two same-named producers that share a potential network
but not a consumer are separated as well whenever two colours suffice for all such pairs.  The function works on concrete lists/dicts of tuples
(outside the symbolic executor's subset), so the contract's executable twin is evaluated on the REAL function over
an enumerated box of edge sets: bounded, labelled as such."""
from __future__ import annotations

import itertools

from pyvc import types as ty
from pyvc.contract import Contract

Q = "dsl_compiler/src/layout/wire_router.py::plan_wire_colors"
_BUNDLE_WIRES = {"bundle", "signal-each"}   # what the wire of a bundle is called in an edge: an entity's output / a bundle constant or each-result


def _conflict_pairs(edges):
    groups = {}
    for e in edges:
        if not e.source_entity_id:
            continue
        groups.setdefault((e.sink_entity_id, e.resolved_signal_name), []).append(((e.source_entity_id, e.resolved_signal_name), e.originating_merge_id))
    pairs = set()
    # a BUNDLE wire carries every signal of the bundle: at a common consumer it competes with any other producer, whatever its signal is called
    by_sink = {}
    for e in edges:
        if e.source_entity_id:
            by_sink.setdefault(e.sink_entity_id, []).append(((e.source_entity_id, e.resolved_signal_name), e.originating_merge_id))
    for members in by_sink.values():
        for (a, ma), (b, mb) in itertools.combinations(members, 2):
            if a[0] != b[0] and (a[1] in _BUNDLE_WIRES or b[1] in _BUNDLE_WIRES) and not (ma is not None and ma == mb):
                pairs.add(tuple(sorted((a, b))))
    for members in groups.values():
        first = {}
        for node, merge in members:
            first.setdefault(node, merge)
        items = list(first.items())
        for (a, ma), (b, mb) in itertools.combinations(items, 2):
            if a != b and not (ma is not None and ma == mb):
                pairs.add(tuple(sorted((a, b))))
    return pairs


def _network_pairs(edges):
    """K7: same-named producers that no consumer reads together but that are wired into ONE potential network (connectors joined by any edge, whatever its colour): a consumer
    that filters its operands by colour (a combinator) stays clear of the foreign producer exactly when the two are on different colours"""
    parent = {}

    def find(x):
        parent.setdefault(x, x)
        while parent[x] != x:
            parent[x] = parent[parent[x]]
            x = parent[x]
        return x
    wired = [e for e in edges if e.source_entity_id]
    for e in wired:
        ra, rb = find(("out", e.source_entity_id)), find(("in", e.sink_entity_id))
        if ra != rb:
            parent[ra] = rb
    producers, together, merge = {}, {}, {}
    for e in wired:
        if e.resolved_signal_name in _BUNDLE_WIRES:
            continue
        producers.setdefault((find(("out", e.source_entity_id)), e.resolved_signal_name), set()).add(e.source_entity_id)
        together.setdefault((e.sink_entity_id, e.resolved_signal_name), set()).add(e.source_entity_id)
        merge[(e.source_entity_id, e.resolved_signal_name)] = e.originating_merge_id
    pairs = set()
    for e in wired:
        n = e.resolved_signal_name
        if n in _BUNDLE_WIRES or e.sink_entity_type not in ("arithmetic-combinator", "decider-combinator"):
            continue
        wanted = together[(e.sink_entity_id, n)]
        for other in producers[(find(("in", e.sink_entity_id)), n)] - wanted:
            for mine in wanted:
                a, b = (mine, n), (other, n)
                if a != b and not (merge.get(a) is not None and merge.get(a) == merge.get(b)):
                    pairs.add(tuple(sorted((a, b))))
    return pairs


def _two_colourable(nodes, pairs, locked):
    adj = {n: set() for n in nodes}
    for x, y in pairs:
        adj.setdefault(x, set()).add(y)
        adj.setdefault(y, set()).add(x)
    colour = {}
    for start in sorted(adj):
        if start in colour:
            continue
        options = [locked[start]] if start in locked else ["red", "green"]
        ok_any = False
        for first in options:
            trial, stack, ok = dict(colour), [(start, first)], True
            while stack and ok:
                n, c = stack.pop()
                if n in locked and locked[n] != c:
                    ok = False
                    break
                if n in trial:
                    ok = trial[n] == c
                    continue
                trial[n] = c
                for m in adj[n]:
                    stack.append((m, "green" if c == "red" else "red"))
            if ok:
                colour, ok_any = trial, True
                break
        if not ok_any:
            return False
    return True


def _post(a, res):
    edges, locked = a.edges, (a.locked_colors or {})
    nodes = {(e.source_entity_id, e.resolved_signal_name) for e in edges if e.source_entity_id}
    asg = res.assignments
    if any(n not in asg or asg[n] not in ("red", "green") for n in nodes):
        return False
    if any(asg.get(n) != c for n, c in locked.items()):
        return False
    essential = _conflict_pairs(edges)
    proper = all(asg[x] != asg[y] for x, y in essential)
    if not ((not res.is_bipartite) or proper):
        return False
    # K7: when two colours are enough for ALL network pairs as well, every one of them is separated (when they are not, as many as the planner can add one by one; not
    # specified here beyond: the essential pairs are never given up for them)
    network = _network_pairs(edges)
    if res.is_bipartite and _two_colourable(nodes, essential | network, {k: v for k, v in locked.items()}):
        return all(asg[x] != asg[y] for x, y in network)
    return True


plan_colors = Contract(
    qualname=Q, params={"edges": ty.TOpaque("edges"), "locked_colors": ty.TOpaque("locked")},
    ensures=[("a colouring reported conflict-free separates every pair of competing producers and respects locks", _post)],
    verify=False, properties=("C12", "C01"),
    note="evaluated on the real function over an enumerated box (bounded stand-in)")
CONTRACTS = [plan_colors]


def arg_sets(tier):
    from dsl_compiler.src.layout.wire_router import CircuitEdge
    srcs, sinks, sigs, merges = ("A", "B", "C"), ("X", "Y"), ("s", "t", "bundle", "signal-each"), (None, "m1")
    universe = [(s, k, g, m) for s in srcs for k in sinks for g in sigs for m in merges]
    out = []
    kmax = 3 if tier == "quick" else 4
    for k in range(1, kmax + 1):
        for combo in itertools.combinations(universe, k):
            edges = [CircuitEdge(logical_signal_id=g, resolved_signal_name=g, source_entity_id=s, sink_entity_id=kk, source_entity_type=None,
                                 sink_entity_type=("arithmetic-combinator" if kk == "X" else "small-lamp"), sink_role=None, originating_merge_id=m) for (s, kk, g, m) in combo]
            out.append({"edges": edges, "locked_colors": None})
            if k <= 2 or tier != "quick":
                out.append({"edges": edges, "locked_colors": {(combo[0][0], combo[0][2]): "green"}})
    return out


# =================================================================================================
# ConnectionPlanner._compute_network_ids: relay isolation key.  Two edges get the same (positive) network id exactly when
# they have the same SOURCE ENTITY and the same wire colour — independent of the source's prototype, the sink or the signal —
# so two producers never share a relay network.  Evaluated on the real method (object built without its constructor) over an
# enumerated box of edge sets and colour maps: bounded.
# =================================================================================================
QN = "dsl_compiler/src/layout/connection_planner.py::ConnectionPlanner._compute_network_ids"


def _ids_post(a, res):
    me = a.self
    edges = [e for e in a.edges if e.source_entity_id]
    def key(e):
        return (e.source_entity_id, e.sink_entity_id, e.resolved_signal_name)
    ids = me._edge_network_ids
    if any(key(e) not in ids or not (isinstance(ids[key(e)], int) and ids[key(e)] > 0) for e in edges):
        return False
    for e1 in edges:
        for e2 in edges:
            same_class = e1.source_entity_id == e2.source_entity_id and me._edge_color_map.get(key(e1), "red") == me._edge_color_map.get(key(e2), "red")
            if (ids[key(e1)] == ids[key(e2)]) != same_class:
                return False
    return True


network_ids = Contract(qualname=QN, params={"self": ty.TOpaque("planner"), "edges": ty.TOpaque("edges")},
                       ensures=[("same network id iff same source entity and same colour; ids positive", _ids_post)],
                       verify=False, properties=("C12", "C08"), note="evaluated on the real method over an enumerated box (bounded stand-in)")
CONTRACTS.append(network_ids)


def network_arg_sets(tier):
    from dsl_compiler.src.layout.connection_planner import ConnectionPlanner
    from dsl_compiler.src.layout.wire_router import CircuitEdge

    class _Diag:
        def info(self, *a, **k):
            pass
        warning = error = info
    srcs = (("A", "constant-combinator"), ("B", "constant-combinator"), ("C", "arithmetic-combinator"))
    universe = [(s, t, k, g) for (s, t) in srcs for k in ("X", "Y") for g in ("s", "t")]
    out = []
    kmax = 3 if tier == "quick" else 4
    for k in range(1, kmax + 1):
        for combo in itertools.combinations(universe, k):
            edges = [CircuitEdge(logical_signal_id=g, resolved_signal_name=g, source_entity_id=s, sink_entity_id=kk, source_entity_type=t) for (s, t, kk, g) in combo]
            for colouring in ("all-red", "first-green"):
                p = object.__new__(ConnectionPlanner)
                p.diagnostics = _Diag()
                p._edge_network_ids = {}
                p._edge_color_map = {} if colouring == "all-red" else {(combo[0][0], combo[0][2], combo[0][3]): "green"}
                out.append({"self": p, "edges": edges})
    return out


# =================================================================================================
# ConnectionPlanner._find_bidirectional_pairs: (s, t) is in the result exactly when both s -> t and t -> s are edges — a
# SELF-LOOP s -> s (the feedback edge of a folded memory cell) is its own reverse and is included, so that it is routed
# directly and never handed to the spanning-tree fan-out (which cannot emit a wire from an entity to itself).
# Evaluated on the real method over all edge sets of up to 3 edges over 3 entities (self-loops included): bounded.
# =================================================================================================
BQ = "dsl_compiler/src/layout/connection_planner.py::ConnectionPlanner._find_bidirectional_pairs"


def _bidi_post(a, res):
    es = {(e.source_entity_id, e.sink_entity_id) for e in a.edges if e.source_entity_id is not None}
    want = {(s, t) for (s, t) in es if (t, s) in es}
    return set(res) == want


bidi = Contract(qualname=BQ, params={"self": ty.TOpaque("planner"), "edges": ty.TOpaque("edges")},
                ensures=[("result = the edges whose reverse is an edge too (self-loops included)", _bidi_post)],
                verify=False, properties=("C04", "C12"), note="evaluated on the real method over an enumerated box (bounded stand-in)")
CONTRACTS.append(bidi)


def bidi_arg_sets():
    from dsl_compiler.src.layout.connection_planner import ConnectionPlanner
    from dsl_compiler.src.layout.wire_router import CircuitEdge
    ents = ("A", "B", "C")
    universe = [(s, t) for s in ents + (None,) for t in ents]
    out = []
    for k in range(0, 4):
        for combo in itertools.combinations(universe, k):
            edges = [CircuitEdge(logical_signal_id="s", resolved_signal_name="s", source_entity_id=s, sink_entity_id=t) for (s, t) in combo]
            out.append({"self": object.__new__(ConnectionPlanner), "edges": edges})
    return out


# =================================================================================================
# ConnectionPlanner._route_connection_with_relays: the relay network is asked to route THIS edge — with the network id
# recorded for (source entity, sink entity, RESOLVED signal name) (the key _compute_network_ids stores under), the edge's
# resolved signal and the given colour, between the two placements' positions — and the relay chain is created for the
# same endpoints, signal and colour.  A wrong key silently yields id 0 ("shares with anything"), which lets two unrelated
# producers share relay poles.  Unbounded (pyvc; loop-free).
# =================================================================================================
import z3  # noqa: E402
from pyvc.values import SObj  # noqa: E402
from spec.ops import And  # noqa: E402

CPQ = "dsl_compiler/src/layout/connection_planner.py::ConnectionPlanner."
_OPQ = ty.TOpaque("x")
NID_CALLS, ROUTE_CALLS, CHAIN_CALLS, PLACEMENTS = [], [], [], {}
_PLACEMENT = ty.TOpt(ty.TObj("EntityPlacement", only=("EntityPlacement",), ftypes=(("position", ty.TOpt(ty.TObj("Pos", only=("Pos",)))),)))


def _get_placement(ex, a):
    key = a.args[0]
    from pyvc.ghost import ghost
    holder = ex.args_ns.edge
    which = "src" if key is holder.source_entity_id else "dst"
    return ghost(holder, "placement_" + which, _PLACEMENT)


def _nid(ex, a):
    NID_CALLS.append((a.source_entity_id, a.sink_entity_id, a.signal_name))
    return z3.Int("network_id_of_key")


def _route(ex, a):
    ROUTE_CALLS.append(tuple(a.args))
    from pyvc.ghost import ghost
    return ghost(ex.args_ns.edge, "relay_path", ty.TOpt(ty.TObj("RelayPath", only=("RelayPath",))))


def _chain(ex, a):
    CHAIN_CALLS.append((a.source_id, a.sink_id, a.signal_name, a.wire_color, a.relay_path, a.source_side, a.sink_side))
    return None


get_placement = Contract(qualname="dsl_compiler/src/layout/layout_plan.py::LayoutPlan.get_placement", params={"args": _OPQ}, effect=_get_placement,
                         verify=False, note="dictionary lookup of the placement (None when absent)")
nid_for_edge = Contract(qualname=CPQ + "get_network_id_for_edge", params={"self": _OPQ, "source_entity_id": _OPQ, "sink_entity_id": _OPQ, "signal_name": _OPQ},
                        effect=_nid, verify=False, note="dictionary lookup under (source, sink, signal name) — the key written by _compute_network_ids (network-ids-box)")
route_signal = Contract(qualname="dsl_compiler/src/layout/connection_planner.py::RelayNetwork.route_signal", params={"args": _OPQ}, effect=_route, verify=False,
                        note="relay path search (contracted separately: C08 relay isolation)")
create_chain = Contract(qualname=CPQ + "_create_relay_chain", params={"self": _OPQ, "source_id": _OPQ, "sink_id": _OPQ, "signal_name": _OPQ, "wire_color": _OPQ, "relay_path": _OPQ,
                                                                  "source_side": _OPQ, "sink_side": _OPQ}, effect=_chain, verify=False, note="emits the wire chain along the path (recorded)")


def _route_reset(a):
    NID_CALLS.clear(), ROUTE_CALLS.clear(), CHAIN_CALLS.clear()
    return True


def _route_post(a, res):
    e = a.edge
    if e.source_entity_id is None:
        return res is True and not ROUTE_CALLS and not CHAIN_CALLS
    src, dst = e._fields.get("@placement_src"), e._fields.get("@placement_dst")
    if src is None or dst is None or src.position is None or dst.position is None:
        return res is True and not ROUTE_CALLS and not CHAIN_CALLS
    if len(ROUTE_CALLS) != 1 or len(NID_CALLS) != 1:
        return False
    k, r = NID_CALLS[0], ROUTE_CALLS[0]
    cs = [k[0] is e.source_entity_id, k[1] is e.sink_entity_id, k[2] is e.resolved_signal_name,
          len(r) == 5 and r[0] is src.position and r[1] is dst.position and r[2] is e.resolved_signal_name and r[3] is a.wire_color,
          isinstance(r[4], z3.ExprRef) and z3.eq(r[4], z3.Int("network_id_of_key"))]
    path = e._fields.get("@relay_path")
    if path is None:
        cs += [res is False, not CHAIN_CALLS]
    else:
        cs += [res is True, len(CHAIN_CALLS) == 1]
        if CHAIN_CALLS:
            c = CHAIN_CALLS[0]
            cs += [c[0] is e.source_entity_id, c[1] is e.sink_entity_id, c[2] is e.resolved_signal_name, c[3] is a.wire_color, c[4] is path,
                   c[5] is a.source_side, c[6] is a.sink_side]
    return all(cs)


route_relays = Contract(
    qualname=CPQ + "_route_connection_with_relays",
    params={"self": ty.TObj("ConnectionPlanner", only=("ConnectionPlanner",)),
            "edge": ty.TObj("CircuitEdge", only=("CircuitEdge",), ftypes=(("source_entity_id", ty.TOpt(ty.Str)), ("sink_entity_id", ty.Str), ("resolved_signal_name", ty.Str),
                                                                           ("logical_signal_id", ty.Str))),
            "wire_color": ty.Str, "source_side": ty.TOpt(ty.Str), "sink_side": ty.TOpt(ty.Str)},
    requires=[("(reset capture)", _route_reset)],
    ensures=[("routed under the network id of (source, sink, resolved signal), with the edge's signal, colour and endpoints", _route_post)],
    uses={"opaque.get_placement": get_placement, "ConnectionPlanner.get_network_id_for_edge": nid_for_edge,
          "opaque.route_signal": route_signal, "ConnectionPlanner._create_relay_chain": create_chain, "opaque.info": "skip", "opaque.warning": "skip"},
    dynamic_types={"self": {"layout_plan": ty.TOpaque("plan"), "relay_network": ty.TOpaque("relays"), "diagnostics": ty.TOpaque("diag")}},
    properties=("C12", "C08"), min_obligations=3, no_replay=True)
CONTRACTS += [route_relays, get_placement, nid_for_edge, route_signal, create_chain]


# =================================================================================================
# ConnectionPlanner._restore_preserved_connection (C08): a wire that a memory cell / latch added outside the routed edge
# set is re-attached unchanged ONLY when its two ends are within the span limit (or a placement is missing); otherwise the
# relay network is asked for a path between the two positions, on the wire's own colour, under a network id that no
# routed edge and no other preserved wire has (negative, counted up), and the chain is built for exactly this wire's ends,
# signal, colour and sides; when no path exists the layout attempt is flagged as failed (so that plan_layout retries).
# Unbounded (pyvc; loop-free).  The distance is abstract: any non-negative real.
# =================================================================================================
ADDED_WIRES, DIST_CALLS = [], []


def _dist(ex, a):
    DIST_CALLS.append(tuple(a.args))
    d = z3.Real("distance_between_ends")
    ex.assume(d >= 0)
    return d


def _add_wire(ex, a):
    ADDED_WIRES.append(a.args[0])
    return None


def _route_p(ex, a):
    ROUTE_CALLS.append((a.source_pos, a.sink_pos, a.signal_name, a.wire_color, a.network_id))
    from pyvc.ghost import ghost
    return ghost(ex.args_ns.connection, "relay_path", ty.TOpt(ty.TObj("RelayPath", only=("RelayPath",))))


def _get_placement_p(ex, a):
    from pyvc.ghost import ghost
    holder = ex.args_ns.connection
    which = "src" if a.args[0] is holder.source_entity_id else "dst"
    return ghost(holder, "placement_" + which, _PLACEMENT)


math_dist = Contract(qualname="math::dist", params={"args": _OPQ}, effect=_dist, verify=False, note="Euclidean distance: some non-negative real (the value is not interpreted)")
add_wire = Contract(qualname="dsl_compiler/src/layout/layout_plan.py::LayoutPlan.add_wire_connection", params={"args": _OPQ}, effect=_add_wire, verify=False,
                    note="appends the wire to the plan (recorded)")
route_signal_p = Contract(qualname="dsl_compiler/src/layout/connection_planner.py::RelayNetwork.route_signal",
                          params={"self": _OPQ, "source_pos": _OPQ, "sink_pos": _OPQ, "signal_name": _OPQ, "wire_color": _OPQ, "network_id": _OPQ}, effect=_route_p, verify=False,
                          note="relay path search (contracted separately: C08 relay isolation); every hop of a returned path is within the span limit")
get_placement_p = Contract(qualname="dsl_compiler/src/layout/layout_plan.py::LayoutPlan.get_placement", params={"args": _OPQ}, effect=_get_placement_p, verify=False,
                           note="dictionary lookup of the placement (None when absent)")


def _restore_reset(a):
    NID_CALLS.clear(), ROUTE_CALLS.clear(), CHAIN_CALLS.clear(), ADDED_WIRES.clear(), DIST_CALLS.clear()
    return True


def _restore_post(a, res):
    c = a.connection
    me = a.self
    src, dst = c._fields.get("@placement_src"), c._fields.get("@placement_dst")
    unchanged = len(ADDED_WIRES) == 1 and ADDED_WIRES[0] is c and not CHAIN_CALLS
    if src is None or dst is None or src.position is None or dst.position is None:
        return unchanged and not ROUTE_CALLS
    d, span = z3.Real("distance_between_ends"), me.relay_network.span_limit
    if len(DIST_CALLS) != 1 or not (DIST_CALLS[0][0] is src.position and DIST_CALLS[0][1] is dst.position):
        return False
    if not ROUTE_CALLS:
        # re-attached as created: only when the ends are within reach
        return And(d <= span, unchanged)
    if len(ROUTE_CALLS) != 1:
        return False
    r = ROUTE_CALLS[0]
    old_counter = a.old.self._preserved_network_counter
    cs = [d > span, len(r) == 5 and r[0] is src.position and r[1] is dst.position and r[2] is c.signal_name and r[3] is c.wire_color,
          r[4] == -(old_counter + 1), me._preserved_network_counter == old_counter + 1]
    path = c._fields.get("@relay_path")
    if path is None:
        cs += [unchanged, me._routing_failed is True]
    else:
        ok = len(CHAIN_CALLS) == 1 and not ADDED_WIRES
        if ok:
            k = CHAIN_CALLS[0]
            ok = (k[0] is c.source_entity_id and k[1] is c.sink_entity_id and k[2] is c.signal_name and k[3] is c.wire_color and k[4] is path
                  and k[5] is c.source_side and k[6] is c.sink_side)
        cs.append(ok)
    return And(*[x if not isinstance(x, bool) else z3.BoolVal(x) for x in cs])


restore_preserved = Contract(
    qualname=CPQ + "_restore_preserved_connection",
    params={"self": ty.TObj("ConnectionPlanner", only=("ConnectionPlanner",)),
            "connection": ty.TObj("WireConnection", only=("WireConnection",), ftypes=(
                ("source_entity_id", ty.Str), ("sink_entity_id", ty.Str), ("signal_name", ty.Str), ("wire_color", ty.Str),
                ("source_side", ty.TOpt(ty.Str)), ("sink_side", ty.TOpt(ty.Str))))},
    requires=[("(reset capture)", _restore_reset), ("the counter of private network ids is non-negative", lambda a: a.self._preserved_network_counter >= 0)],
    ensures=[("re-attached unchanged only within reach; otherwise bridged by relays on a fresh private network id, or the attempt is flagged as failed", _restore_post)],
    uses={"opaque.get_placement": get_placement_p, "RelayNetwork.route_signal": route_signal_p, "ConnectionPlanner._create_relay_chain": create_chain,
          "opaque.add_wire_connection": add_wire, "math.dist": math_dist, "opaque.info": "skip", "opaque.warning": "skip"},
    dynamic_types={"self": {"layout_plan": ty.TOpaque("plan"), "relay_network": ty.TObj("RelayNetwork", only=("RelayNetwork",), ftypes=(("span_limit", ty.Real),)),
                            "diagnostics": ty.TOpaque("diag"), "_preserved_network_counter": ty.Int, "_routing_failed": ty.Bool}},
    properties=("C08",), min_obligations=3, no_replay=True)
CONTRACTS += [restore_preserved, math_dist, add_wire, route_signal_p, get_placement_p]


# =================================================================================================
# ConnectionPlanner._populate_wire_connections (C12 / frame of the wire plan): every circuit edge that has a source and a sink is
# handed on EXACTLY ONCE — either inside the spanning-tree fan-out of its own source, signal and colour, or to the direct router —
# with the colour the colour plan assigned to (source, sink, signal) (red when unassigned); edges of one source / signal / colour
# are never mixed with another's; an edge that is part of a two-way pair (a feedback loop) is always routed directly; nothing else
# is routed.  Evaluated on the REAL method (the two routers replaced by recorders; they have their own contracts) over an
# enumerated box: edge sets of up to 3 edges over 3 entities x 2 signals, colour maps, spanning-tree option on / off / failing: bounded.
# =================================================================================================
PWQ = "dsl_compiler/src/layout/connection_planner.py::ConnectionPlanner._populate_wire_connections"


def _populate_post(a, res):
    me = a.self
    sc = me._scenario
    want = {}
    for (s, t, sig) in sc["edges"]:
        col = sc["colors"].get((s, t, sig), "red")
        want[(s, t, sig, col)] = want.get((s, t, sig, col), 0) + 1
    got = {}
    es = set(sc["edges"])
    for (s, t, sig, col) in me._direct:
        got[(s, t, sig, col)] = got.get((s, t, sig, col), 0) + 1
    for (s, sinks, sig, col) in me._mst:
        if len(sinks) < 2 or not sc["use_mst"]:
            return False
        for t in sinks:
            if (t, s, sig) in es and sc["colors"].get((t, s, sig), "red") == col:
                return False   # a two-way pair must not enter a spanning tree
            got[(s, t, sig, col)] = got.get((s, t, sig, col), 0) + 1
    if sc["mst_fails"]:
        # a failed fan-out is routed directly as well: every edge appears at least once directly
        return all(me._direct.count(k) >= 1 for k in want) and set(got) == set(want)
    return got == want


populate = Contract(qualname=PWQ, params={"self": ty.TOpaque("planner")},
                    ensures=[("every edge is routed exactly once, under its own source / signal / planned colour; two-way pairs directly", _populate_post)],
                    verify=False, properties=("C12", "C04"), note="evaluated on the real method over an enumerated box (bounded stand-in)")
CONTRACTS.append(populate)


def populate_arg_sets():
    from dsl_compiler.src.layout.connection_planner import ConnectionPlanner
    from dsl_compiler.src.layout.wire_router import CircuitEdge

    class _Diag:
        def info(self, *a, **k):
            pass
        warning = error = info

    class _Recorder(ConnectionPlanner):
        """the real _populate_wire_connections with the two routers (contracted separately) replaced by recorders"""

        def _route_edge_directly(self, edge, wire_color):
            self._direct.append((edge.source_entity_id, edge.sink_entity_id, edge.resolved_signal_name, wire_color))
            return True

        def _apply_mst_to_source_fanout(self, source_id, sink_ids, signal_name, wire_color):
            self._mst.append((source_id, tuple(sink_ids), signal_name, wire_color))
            return not self._scenario["mst_fails"]

    ents = ("A", "B", "C")
    universe = [(s, t, sig) for s in ents for t in ents for sig in ("signal-X", "signal-Y") if not (s == t and sig == "signal-Y")]
    out = []
    for k in (1, 2, 3):
        for combo in itertools.combinations(universe, k):
            if k == 3 and len({e[0] for e in combo}) == 3 and len({e[2] for e in combo}) == 2:
                continue  # thin the largest layer
            for cmode in ("none", "all-green", "first-green"):
                colors = {}
                if cmode == "all-green":
                    colors = {e: "green" for e in combo}
                elif cmode == "first-green":
                    colors = {combo[0]: "green"}
                for use_mst, fails in ((True, False), (False, False), (True, True)):
                    cp = object.__new__(_Recorder)
                    cp.diagnostics, cp._memory_modules, cp.use_mst_optimization = _Diag(), {}, use_mst
                    cp._edge_color_map = dict(colors)
                    cp._circuit_edges = [CircuitEdge(logical_signal_id=sig, resolved_signal_name=sig, source_entity_id=s, sink_entity_id=t) for (s, t, sig) in combo]
                    cp._circuit_edges.append(CircuitEdge(logical_signal_id="signal-X", resolved_signal_name="signal-X", source_entity_id=None, sink_entity_id="A"))
                    cp._direct, cp._mst = [], []
                    cp._scenario = {"edges": list(combo), "colors": colors, "use_mst": use_mst, "mst_fails": fails}
                    out.append({"self": cp})
    return out


# =================================================================================================
# wire_router.collect_circuit_edges + SignalGraph.iter_source_sink_pairs (C12 frame: the wire plan starts from exactly the signal
# graph): one circuit edge per (signal id, source entity, sink entity) triple of the graph — no pair lost, none invented, a signal
# with several sources paired with each of its sinks — carrying the signal's RESOLVED game name (its id when unresolved).
# Evaluated on the REAL functions with real SignalGraph objects over an enumerated box: bounded.
# =================================================================================================
CEQ2 = "dsl_compiler/src/layout/wire_router.py::collect_circuit_edges"


def _collect_post(a, res):
    sc = a.signal_graph._scenario
    want = set()
    for sig, (sources, sinks) in sc["signals"].items():
        name = sc["resolved"].get(sig, sig)
        for t in sinks:   # a signal nobody produces (an inlined constant) has no wire: no edge
            for s in sources:
                want.add((sig, name, s, t))
    got = [(e.logical_signal_id, e.resolved_signal_name, e.source_entity_id, e.sink_entity_id) for e in res]
    return set(got) == want and len(got) == len(want)


collect_edges = Contract(qualname=CEQ2, params={"signal_graph": ty.TOpaque("graph"), "signal_usage": ty.TOpaque("usage"), "entities": ty.TOpaque("entities")},
                         ensures=[("exactly one edge per (signal, source, sink) triple of the graph, under the signal's resolved name", _collect_post)],
                         verify=False, properties=("C12", "C07"), note="evaluated on the real function over an enumerated box (bounded stand-in)")
CONTRACTS.append(collect_edges)


def collect_edges_arg_sets():
    from dsl_compiler.src.layout.signal_graph import SignalGraph

    class _Usage:
        def __init__(self, name):
            self.resolved_signal_name = name

    class _Placement:
        def __init__(self, t):
            self.entity_type, self.role = t, "x"

    out = []
    shapes = [([], []), (["A"], []), ([], ["C"]), (["A"], ["C"]), (["A"], ["C", "D"]), (["A", "B"], ["C"]), (["A", "B"], ["C", "D"]), (["A"], ["A"])]
    for s1, s2 in itertools.product(shapes, repeat=2):
        for resolved in ({}, {"sig1": "signal-X"}, {"sig1": "signal-X", "sig2": "signal-X"}, {"sig2": None}):
            g = SignalGraph()
            signals = {}
            for sig, (sources, sinks) in (("sig1", s1), ("sig2", s2)):
                for s in sources:
                    g.set_source(sig, s)
                for t in sinks:
                    g.add_sink(sig, t)
                if sources or sinks:
                    signals[sig] = (list(sources), list(sinks))
            usage = {k: _Usage(v) for k, v in resolved.items()}
            g._scenario = {"signals": signals, "resolved": {k: v for k, v in resolved.items() if v}}
            out.append({"signal_graph": g, "signal_usage": usage, "entities": {x: _Placement("arithmetic-combinator") for x in "ABCD"}})
    return out


# =================================================================================================
# ConnectionPlanner.plan_connections — the order of the wire plan (C08 / C12 / C03): the circuit edges are exactly the signal graph's,
# minus the edges of internal feedback signals; memory feedback edges stay circuit edges but get no planned colour (they are wired red by
# the memory builder); every other edge gets the colour locked for (its source, its merge) if there is one, else the colour planned for
# (its source, its signal), else red; the wires that were in the plan before (memory / latch wiring) are restored, each exactly once,
# AFTER the new wires were populated; the answer is True exactly when nothing flagged a routing failure.
# Evaluated on the REAL method (sub-steps with their own contracts replaced by recorders; collect_circuit_edges and plan_wire_colors real)
# over an enumerated box: bounded.
# =================================================================================================
PCQ = "dsl_compiler/src/layout/connection_planner.py::ConnectionPlanner.plan_connections"


def _plan_post(a, res):
    me = a.self
    sc = me._scenario
    edges = sc["edges"]   # (sig, source, sink, merge, internal, memfb)
    want_circuit = {(sig, s, t) for (sig, s, t, m, internal, memfb) in edges if not internal}
    got_circuit = {(e.logical_signal_id, e.source_entity_id, e.sink_entity_id) for e in me._circuit_edges}
    ok = [got_circuit == want_circuit]
    want_map = {}
    for (sig, s, t, m, internal, memfb) in edges:
        if internal or memfb:
            continue
        if m is not None and (s, m) in sc["edge_locks"]:
            want_map[(s, t, sig)] = sc["edge_locks"][(s, m)]
        else:
            want_map[(s, t, sig)] = me._node_color_assignments.get((s, sig), "red")
    ok.append(me._edge_color_map_at_populate == want_map)
    ok.append(me._trace[:2] == ["poles", "self-feedback"] and me._trace.count("populate") == 1)
    restored = [x for x in me._trace if isinstance(x, tuple) and x[0] == "restore"]
    ok.append([x[1] for x in restored] == sc["preserved"])
    ok.append(all(me._trace.index(x) > me._trace.index("populate") for x in restored))
    ok.append(me._trace[-1] == "validate")
    failed = sc["fails"] == "populate" or (sc["fails"] == "restore" and bool(sc["preserved"]))
    ok.append(res is (not failed))
    ok.append(me._wires_at_populate == [])   # the new wires are planned on an empty list (the old ones come back afterwards)
    return all(ok)


plan_connections_c = Contract(qualname=PCQ, params={"self": ty.TOpaque("planner"), "signal_graph": ty.TOpaque("graph"), "entities": ty.TOpaque("entities"),
                                                    "wire_merge_junctions": ty.TOpaque("j"), "locked_colors": ty.TOpaque("l"), "merge_membership": ty.TOpaque("m")},
                              ensures=[("circuit edges = graph edges minus internal feedback; colours: edge lock > planned colour > red, none for memory feedback; earlier wires restored once each "
                                        "after populate; True iff no routing failure", _plan_post)],
                              verify=False, properties=("C08", "C12", "C03"), note="evaluated on the real method over an enumerated box (bounded stand-in)")
CONTRACTS.append(plan_connections_c)


def plan_connections_arg_sets():
    from dsl_compiler.src.layout.connection_planner import ConnectionPlanner
    from dsl_compiler.src.layout.layout_plan import LayoutPlan, WireConnection
    from dsl_compiler.src.layout.signal_graph import SignalGraph

    class _Diag:
        def info(self, *a, **k):
            pass
        warning = error = info

    class _Recorder(ConnectionPlanner):
        def _register_power_poles_as_relays(self):
            self._trace.append("poles")

        def _add_self_feedback_connections(self):
            self._trace.append("self-feedback")

        def _expand_merge_edges(self, base_edges, junctions, entities, signal_graph):
            out = []
            import dataclasses
            for e in base_edges:
                out.append(dataclasses.replace(e, originating_merge_id=self._scenario["merge_of"].get((e.logical_signal_id, e.source_entity_id, e.sink_entity_id))))
            return out

        def _is_internal_feedback_signal(self, name):
            return name in self._scenario["internal_signals"]

        def _is_memory_feedback_edge(self, s, t, name):
            return (name, s, t) in self._scenario["memfb"]

        def _compute_edge_locked_colors(self, edges, membership, signal_graph=None):
            return dict(self._scenario["edge_locks"])

        def _compute_network_ids(self, edges):
            self._trace.append("network-ids")

        def _log_multi_source_conflicts(self, *a, **k):
            pass

        def _log_color_summary(self):
            pass

        def _log_unresolved_conflicts(self):
            pass

        def _populate_wire_connections(self):
            self._trace.append("populate")
            self._edge_color_map_at_populate = dict(self._edge_color_map)
            self._wires_at_populate = list(self.layout_plan.wire_connections)
            if self._scenario["fails"] == "populate":
                self._routing_failed = True

        def _restore_preserved_connection(self, connection):
            self._trace.append(("restore", connection.signal_name))
            if self._scenario["fails"] == "restore":
                self._routing_failed = True

        def _validate_relay_coverage(self):
            self._trace.append("validate")

    class _Usage(dict):
        pass

    out = []
    # three producers a, b, m (m: a memory gate), two consumers s, t; signal ids = resolved names here
    base = [("signal-A", "a", "s"), ("signal-A", "b", "s"), ("signal-B", "a", "t"), ("signal-M", "m", "m"), ("__feedback_x", "m", "t")]
    for subset in itertools.chain.from_iterable(itertools.combinations(base, k) for k in (1, 2, 3, 5)):
        for merge_mode in ("none", "first-in-merge-locked", "first-in-merge-unlocked"):
            for node_lock in (False, True):
                for fails in (False, "populate", "restore"):
                    for n_preserved in (0, 2):
                        g = SignalGraph()
                        for sig, s, t in subset:
                            g.set_source(sig, s)
                            g.add_sink(sig, t)
                        plan = LayoutPlan()
                        for nid in ("a", "b", "m", "s", "t"):
                            plan.create_and_add_placement(ir_node_id=nid, entity_type="arithmetic-combinator", position=(0, 0), footprint=(1, 2), role="x", debug_info={})
                        preserved = [f"kept-{i}" for i in range(n_preserved)]
                        for nm in preserved:
                            plan.add_wire_connection(WireConnection(source_entity_id="m", sink_entity_id="m", signal_name=nm, wire_color="red"))
                        cp = object.__new__(_Recorder)
                        cp.layout_plan, cp.diagnostics, cp.signal_usage = plan, _Diag(), _Usage()
                        cp._trace = []
                        first = subset[0]
                        merge_of = {first: "merge_1"} if merge_mode != "none" else {}
                        edge_locks = {(first[1], "merge_1"): "green"} if merge_mode == "first-in-merge-locked" else {}
                        edges = [(sig, s, t, merge_of.get((sig, s, t)), sig.startswith("__feedback"), sig == "signal-M") for sig, s, t in subset]
                        cp._scenario = {"edges": edges, "merge_of": merge_of, "edge_locks": edge_locks, "internal_signals": {"__feedback_x"}, "memfb": {("signal-M", "m", "m")},
                                        "preserved": preserved, "fails": fails}
                        locked = {("a", "signal-A"): "green"} if node_lock else {}
                        out.append({"self": cp, "signal_graph": g, "entities": plan.entity_placements, "wire_merge_junctions": {}, "locked_colors": locked, "merge_membership": {}})
    return out


# =================================================================================================
# ConnectionPlanner._expand_merge_edges (C02 / C12: a wire merge is wiring, not an entity): an edge whose source is a merge junction becomes one
# edge per LEAF member of that merge — nested merges flattened, members in order — from the member's PHYSICAL producer (resolved through the
# signal graph) to the same sink under the same signal, remembering the merge it came from; an edge INTO a junction disappears (the junction has
# no connector); every other edge is kept as it is.  Evaluated on the REAL method over an enumerated box: bounded.
# =================================================================================================
EMQ = "dsl_compiler/src/layout/connection_planner.py::ConnectionPlanner._expand_merge_edges"


def _expand_post(a, res):
    sc = a.self._scenario
    want = []
    for (sig, s, t) in sc["edges"]:
        if t in sc["junctions"]:
            continue
        if s not in sc["junctions"]:
            want.append((sig, s, t, None))
            continue
        for leaf in sc["leaves"][s]:
            want.append((sig, sc["physical"].get(leaf, leaf), t, s))
    got = [(e.logical_signal_id, e.source_entity_id, e.sink_entity_id, e.originating_merge_id) for e in res]
    return got == want and all(e.resolved_signal_name == "resolved-" + e.logical_signal_id for e in res)


expand_merges = Contract(qualname=EMQ, params={"self": ty.TOpaque("planner"), "edges": ty.TOpaque("edges"), "wire_merge_junctions": ty.TOpaque("junctions"), "entities": ty.TOpaque("entities"),
                                               "signal_graph": ty.TOpaque("graph")},
                         ensures=[("merge-sourced edges become one edge per leaf member (nested merges flattened, physical producers, merge remembered); edges into a junction vanish; "
                                   "all others are kept", _expand_post)],
                         verify=False, properties=("C02", "C12"), note="evaluated on the real method over an enumerated box (bounded stand-in)")
CONTRACTS.append(expand_merges)


def expand_merges_arg_sets():
    from dsl_compiler.src.ir.nodes import BundleRef, SignalRef
    from dsl_compiler.src.layout.connection_planner import ConnectionPlanner
    from dsl_compiler.src.layout.signal_graph import SignalGraph
    from dsl_compiler.src.layout.wire_router import CircuitEdge

    class _Diag:
        def info(self, *a, **k):
            pass
        warning = error = info

    class _P:
        def __init__(self, t):
            self.entity_type = t

    out = []
    shapes = {
        "flat": {"m1": ["a", "b"]},
        "nested": {"m1": ["a", "b"], "m2": ["m1", "c"]},
        "nested-twice": {"m1": ["a", "b"], "m2": ["m1", "m1", "c"]},
        "bundle-member": {"m1": ["a", "B:b"]},
        "none": {},
    }
    for shape, merges in shapes.items():
        def leaves_of(m, seen):
            r = []
            for x in merges[m]:
                x = x.split(":")[-1]
                if x in merges:
                    if x not in seen:
                        seen.add(x)
                        r += leaves_of(x, seen)
                else:
                    r.append(x)
            return r
        leaves = {m: leaves_of(m, {m}) for m in merges}
        junctions = {m: {"inputs": [(BundleRef({"signal-A"}, x[2:]) if x.startswith("B:") else SignalRef("signal-A", x)) for x in members], "output_id": m} for m, members in merges.items()}
        for resolve in (False, True):
            physical = {"a": "entity_a"} if resolve else {}
            top = list(merges)[-1] if merges else "a"
            edge_sets = [[("s1", top, "sink")], [("s1", top, "sink"), ("s2", "c", "sink2")], [("s1", "a", top if merges else "sink"), ("s1", top, "sink")],
                         [("s1", top, "sink"), ("s1", top, "sink2")]]
            if "m1" in merges and top != "m1":
                edge_sets.append([("s1", "m1", "sink"), ("s2", top, "sink")])
            for es in edge_sets:
                g = SignalGraph()
                for k, v in physical.items():
                    g.set_source(k, v)
                cp = object.__new__(ConnectionPlanner)
                cp.diagnostics = _Diag()
                cp._scenario = {"edges": es, "junctions": set(merges), "leaves": leaves, "physical": physical}
                edges = [CircuitEdge(logical_signal_id=sig, resolved_signal_name="resolved-" + sig, source_entity_id=s, sink_entity_id=t) for (sig, s, t) in es]
                ents = {n: _P("constant-combinator") for n in ("a", "b", "c", "entity_a", "sink", "sink2")}
                out.append({"self": cp, "edges": edges, "wire_merge_junctions": junctions or None, "entities": ents, "signal_graph": g})
    return out


# =================================================================================================
# ConnectionPlanner._compute_edge_locked_colors (C02 / C06: the balanced-loader pattern): a source that is a member of several wire merges gets its
# edges locked per merge — alternating red, green, red ... in the order the merges were created (numeric id suffix, so wire_merge_10 comes after
# wire_merge_7) — exactly when two of those merges are CHAINED (a sink of one is a source of another: the source's signal would reach a consumer
# along two paths); without such a chain, or when the source has edges for fewer than two of its merges, nothing is locked.  The key is the
# PHYSICAL entity the member resolves to.  Evaluated on the REAL method over an enumerated box: bounded.
# =================================================================================================
ELQ = "dsl_compiler/src/layout/connection_planner.py::ConnectionPlanner._compute_edge_locked_colors"


def _edge_locks_post(a, res):
    return dict(res) == a.self._scenario["expected"]


edge_locks = Contract(qualname=ELQ, params={"self": ty.TOpaque("planner"), "edges": ty.TOpaque("edges"), "merge_membership": ty.TOpaque("membership"), "signal_graph": ty.TOpaque("graph")},
                      ensures=[("locks exactly for members of chained merges: alternating colours in merge creation order, keyed by the physical source", _edge_locks_post)],
                      verify=False, properties=("C02", "C06", "C12"), note="evaluated on the real method over an enumerated box (bounded stand-in)")
CONTRACTS.append(edge_locks)


def edge_locks_arg_sets():
    from dsl_compiler.src.layout.connection_planner import ConnectionPlanner
    from dsl_compiler.src.layout.signal_graph import SignalGraph
    from dsl_compiler.src.layout.wire_router import CircuitEdge

    class _Diag:
        def info(self, *a, **k):
            pass
        warning = error = info

    out = []
    # chest (IR node `chest_out`, entity `chest`) is a member of up to three merges; `avg` is the combinator fed by the first merge
    for merge_ids in (("wire_merge_7", "wire_merge_10"), ("wire_merge_2", "wire_merge_3"), ("wire_merge_7", "wire_merge_10", "wire_merge_12"), ("wire_merge_5",)):
        for chained in (False, True):
            for resolve in (False, True):
                for edges_for in ("all", "first-only"):
                    src = "chest" if resolve else "chest_out"
                    g = SignalGraph()
                    if resolve:
                        g.set_source("chest_out", "chest")
                    edges = []
                    used = merge_ids if edges_for == "all" else merge_ids[:1]
                    for i, m in enumerate(used):
                        sink = "avg" if i == 0 else f"inserter_{i}"
                        edges.append(CircuitEdge(logical_signal_id="s", resolved_signal_name="bundle", source_entity_id=src, sink_entity_id=sink, originating_merge_id=m))
                    if chained and len(merge_ids) > 1:
                        # the combinator fed by the first merge is itself a member of the second merge
                        edges.append(CircuitEdge(logical_signal_id="avg_out", resolved_signal_name="signal-each", source_entity_id="avg", sink_entity_id="inserter_1",
                                                 originating_merge_id=merge_ids[1]))
                    membership = {"chest_out": set(merge_ids), "unrelated": {"wire_merge_99"}}
                    expected = {}
                    if chained and len(used) > 1:
                        order = sorted(used, key=lambda m: int(m.rsplit("_", 1)[-1]))
                        for i, m in enumerate(order):
                            expected[(src, m)] = "red" if i % 2 == 0 else "green"
                    cp = object.__new__(ConnectionPlanner)
                    cp.diagnostics = _Diag()
                    cp._scenario = {"merges": merge_ids, "chained": chained, "resolved": resolve, "edges_for": edges_for, "expected": expected}
                    out.append({"self": cp, "edges": edges, "merge_membership": membership, "signal_graph": g})
    return out
