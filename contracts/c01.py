"""C01 contracts (K3): lowering of logical operators against the S1/S3 meaning, with the IR builder used
by contract.  Ghost `den(ref)` = the int32 value the referenced IR node puts on its own signal."""
from __future__ import annotations

import z3

from pyvc import types as ty
from pyvc.contract import Contract
from pyvc.ghost import ghost, isa
from pyvc.values import SObj, fresh_name
from spec import arith32 as A
from spec import ops
from spec.ops import And, Implies, Not, Or, b2i

EL = "dsl_compiler/src/lowering/expression_lowerer.py::ExpressionLowerer."
IRB = "dsl_compiler/src/ir/builder.py::IRBuilder."


def den(ref):
    """value of a ValueRef: the literal for ints, the ghost denotation for signal references"""
    if isinstance(ref, SObj):
        return ghost(ref, "den", ty.Int)
    return ref


def _i32(ref):
    return A.i32(den(ref))


def _new_ref(signal_type, value):
    r = SObj(["SignalRef"], fresh_name("ref"), lazy=False)
    r._fields["signal_type"] = signal_type
    r._fields["source_id"] = z3.String(fresh_name("node_id"))
    r._fields["@den"] = value
    r._fields["debug_metadata"] = {}
    return r


POW = z3.Function("pow", z3.IntSort(), z3.IntSort(), z3.IntSort())  # exact integer power, uninterpreted


def _const_effect(ex, a):
    return _new_ref(a.signal_type, a.value)


def _arith_effect(ex, a):
    op = a.op
    if not isinstance(op, str):
        raise NotImplementedError("symbolic operator tag")
    return _new_ref(a.output_type, A.fa({"^": "**"}.get(op, op), den(a.left), den(a.right), POW))


def _decider_effect(ex, a):
    if not isinstance(a.test_op, str) or isinstance(a.output_value, SObj):
        raise NotImplementedError("symbolic comparison tag / signal output")
    truth = A.cmp(a.test_op, den(a.left), den(a.right))
    return _new_ref(a.output_type, ops.ite(truth, a.output_value, 0))


_OPQ = ty.TOpaque("x")
builder_const = Contract(qualname=IRB + "const", params={"self": _OPQ, "signal_type": ty.Str, "value": ty.Int, "source_ast": _OPQ},
                         defaults={"source_ast": None}, effect=_const_effect, verify=False,
                         note="proved in contracts.c02 (IRBuilder.const): one IRConst with this value on this type, reference to it; its denotation per irden")
builder_arith = Contract(qualname=IRB + "arithmetic", params={"self": _OPQ, "op": ty.Str, "left": _OPQ, "right": _OPQ, "output_type": ty.Str, "source_ast": _OPQ},
                         defaults={"source_ast": None}, effect=_arith_effect, verify=False,
                         requires=[("operands are int32", lambda a: And(_i32(a.left), _i32(a.right)))],
                         note="proved in contracts.c02 (IRBuilder.arithmetic): one IRArith(op, left, right) on this type; its denotation is S1's fa(op, ., .) per irden")
builder_decider = Contract(qualname=IRB + "decider", params={"self": _OPQ, "test_op": ty.Str, "left": _OPQ, "right": _OPQ, "output_value": _OPQ,
                                                           "output_type": ty.Str, "source_ast": _OPQ, "copy_count_from_input": ty.Bool},
                           defaults={"source_ast": None, "copy_count_from_input": False}, effect=_decider_effect, verify=False,
                           note="proved in contracts.c02 (IRBuilder.decider): one IRDecider with this comparison / output / mode; constant-output mode denotes cmp ? k : 0 per irden")

is_bool_callee = Contract(
    qualname=EL + "_is_boolean_producer",
    params={"self": _OPQ, "ref": _OPQ},
    returns=ty.Bool,
    callee_ensures=[("True only for values in {0,1}", lambda a, res: Implies(res, Or(den(a.ref) == 0, den(a.ref) == 1)))],
    verify=False,
    note="verified separately below (is_boolean_producer) under the IR consistency premise",
)

_REF = ty.TUnion((ty.TObj("SignalRef", only=("SignalRef",)), ty.Int))
_SELF_T = {"ir_builder": ty.TObj("IRBuilder", only=("IRBuilder",))}
_USES = {"IRBuilder.const": builder_const, "IRBuilder.arithmetic": builder_arith, "IRBuilder.decider": builder_decider,
         "IRBuilder.annotate_signal": "skip", "ExpressionLowerer._attach_expr_context": "skip",
         "ExpressionLowerer._is_boolean_producer": is_bool_callee}
_PARAMS = {"self": ty.TObj("ExpressionLowerer", only=("ExpressionLowerer",)), "expr": ty.TObj("BinaryOp", only=("BinaryOp",)),
           "left_ref": _REF, "right_ref": _REF, "output_type": ty.Str}
_REQ = [("operand values are int32", lambda a: And(_i32(a.left_ref), _i32(a.right_ref)))]

logical_and = Contract(
    qualname=EL + "_lower_logical_and", params=_PARAMS, requires=_REQ,
    ensures=[("value is [l != 0 and r != 0]", lambda a, res: den(res) == b2i(And(den(a.left_ref) != 0, den(a.right_ref) != 0))),
             ("carried on the requested type", lambda a, res: res.signal_type == a.output_type)],
    uses=_USES, dynamic_types={"self": _SELF_T}, properties=("C01",), min_obligations=6,
)
logical_or = Contract(
    qualname=EL + "_lower_logical_or", params=_PARAMS, requires=_REQ,
    ensures=[("value is [l != 0 or r != 0]", lambda a, res: den(res) == b2i(Or(den(a.left_ref) != 0, den(a.right_ref) != 0))),
             ("carried on the requested type", lambda a, res: res.signal_type == a.output_type)],
    uses=_USES, dynamic_types={"self": _SELF_T}, properties=("C01",), min_obligations=6,
)

CONTRACTS = [logical_and, logical_or, builder_const, builder_arith, builder_decider, is_bool_callee]
TRUSTED = ["IR denotation `irden` (DESIGN §3.1): an IRArith denotes fa(op, den(left), den(right)), an IRDecider with a constant output "
           "k denotes (cmp ? k : 0), an IRConst denotes its value — the meaning given to the IR by S2 when every operand is read in isolation"]

# =================================================================================================
# _is_boolean_producer: `True` only for references whose value is 0 or 1 — under IR consistency
# (the node a reference points to denotes the reference's value, per `irden`).
# =================================================================================================
_IRNODE = ty.TOpt(ty.TObj("IRNode", only=("IRDecider", "IRConst", "IRArith", "IRWireMerge", "IRMemRead"),
                         ftypes=(("debug_metadata", ty.TRecord((("user_declared", ty.Bool),))),)))


def _get_operation_effect(ex, a):
    ref = ex.args_ns.ref
    return ghost(ref, "node", _IRNODE)


get_operation = Contract(qualname=IRB + "get_operation", params={"self": _OPQ, "node_id": ty.Str}, effect=_get_operation_effect,
                         verify=False, note="dictionary lookup; the node returned for a reference's source_id is the producer of that reference")

_VREF_SI = ty.TUnion((ty.TObj("SignalRef", only=("SignalRef",)), ty.Int))


def _ir_consistent(a):
    """IR consistency premise (irden): what the producer node of `ref` says about den(ref)."""
    ref = a.ref
    if not isinstance(ref, SObj):
        return True
    op = ref._fields.get("@node")
    if op is None:
        return True
    d = den(ref)
    if isa(op, "IRDecider"):
        ov = op.output_value
        if isinstance(ov, SObj):
            return True
        # IR well-formedness: a decider referenced through a SignalRef copies its input count only when
        # its output value is a signal (IRBuilder.decider callers); with a constant output it denotes cmp ? k : 0
        return And(Not(op.copy_count_from_input), Or(d == 0, d == ov))
    if isa(op, "IRConst"):
        # a declared constant is an input of the blueprint: it denotes whatever value it is given
        return Or(op.debug_metadata["user_declared"], d == op.value)
    if isa(op, "IRArith"):
        l, r = op.left, op.right
        cs = [Implies(op.op == "*", d == A.wrap32(den(l) * den(r)))]
        if not isinstance(r, SObj):
            cs.append(Implies(And(op.op == "+", r == 0), d == den(l)))
        return And(*cs)
    return True


is_boolean_producer = Contract(
    qualname=EL + "_is_boolean_producer",
    params={"self": ty.TObj("ExpressionLowerer", only=("ExpressionLowerer",)), "ref": _VREF_SI},
    ensures=[("True only if the referenced value is 0 or 1 (given IR consistency)",
              lambda a, res: Implies(And(_ir_consistent(a), res), Or(den(a.ref) == 0, den(a.ref) == 1)))],
    uses={"IRBuilder.get_operation": get_operation, "ExpressionLowerer._is_boolean_producer": is_bool_callee},
    dynamic_types={"self": _SELF_T},
    properties=("C01",), min_obligations=5,
)
_NODE_TYPES = {"output_value": _VREF_SI, "copy_count_from_input": ty.Bool, "value": ty.Int, "op": ty.Str, "left": _VREF_SI, "right": _VREF_SI}

CONTRACTS += [is_boolean_producer, get_operation]

# =================================================================================================
# K3: operator -> combinator mapping of the simple lowering methods
# =================================================================================================
def _lower_expr_effect(ex, a):
    v = ex.mk(_REF, fresh_name("lowered"), register=True)
    ex.assume(A.i32(den(v)))
    return v


lower_expr_c = Contract(qualname=EL + "lower_expr", params={"self": _OPQ, "expr": _OPQ}, effect=_lower_expr_effect, verify=False,
                        note="ASSUMED here (induction over the expression tree): returns an int or a SignalRef whose ghost den is the sub-expression's value")
alloc_type = Contract(qualname=IRB + "allocate_implicit_type", params={"self": _OPQ}, returns=ty.Str, verify=False, note="fresh implicit type name")

_SIMPLE_USES = dict(_USES)
_SIMPLE_USES.update({"ExpressionLowerer.lower_expr": lower_expr_c, "IRBuilder.allocate_implicit_type": alloc_type,
                     "ExpressionLowerer._get_actual_type_from_ref": "skip", "ExpressionLowerer._error": "skip",
                     "ASTLowerer.ensure_signal_registered": "skip", "opaque.get_expr_type": "skip", "opaque.ensure_signal_registered": "skip"})


def _cmp_post(op):
    return lambda a, res: den(res) == b2i(A.cmp(op, den(a.left_ref), den(a.right_ref)))


def _arith_like_post(op):
    def post(a, res):
        l, r = den(a.left_ref), den(a.right_ref)
        if op in ("<<", ">>"):
            return Implies(And(r >= 0, r <= 31), den(res) == A.fa(op, l, r))
        return den(res) == A.fa(op, l, r, POW)
    return post


_PARAMS5 = {"self": ty.TObj("ExpressionLowerer", only=("ExpressionLowerer",)), "expr": ty.TObj("BinaryOp", only=("BinaryOp",)),
            "left_ref": _REF, "right_ref": _REF, "output_type": ty.Str, "left_signal_type": ty.TOpt(ty.Str)}
_SELF_T2 = {"ir_builder": ty.TObj("IRBuilder", only=("IRBuilder",)), "parent": ty.TOpaque("parent")}

for _op in A.CMP_OPS:
    CONTRACTS.append(Contract(
        qualname=EL + "_lower_comparison_op", params=_PARAMS5, requires=_REQ,
        ensures=[(f"value is [l {_op} r]", _cmp_post(_op)), ("carried on the requested type", lambda a, res: res.signal_type == a.output_type)],
        uses=_SIMPLE_USES, dynamic_types={"self": _SELF_T2, "expr": {"op": ty.TConcrete(_op)}}, properties=("C01",), min_obligations=2, note=f"op {_op}"))

for _op in ("**", "<<", ">>", "AND", "OR", "XOR"):
    CONTRACTS.append(Contract(
        qualname=EL + "_lower_arithmetic_like_op", params=_PARAMS5, requires=_REQ,
        ensures=[(f"value is l {_op} r (S1)", _arith_like_post(_op)), ("carried on the requested type", lambda a, res: res.signal_type == a.output_type)],
        uses=_SIMPLE_USES, dynamic_types={"self": _SELF_T2, "expr": {"op": ty.TConcrete(_op)}}, properties=("C01",), min_obligations=2, note=f"op {_op}"))


def _unary_post(op):
    def post(a, res):
        x = den(CAPTURED_OPERAND[0])
        if op == "+":
            return den(res) == x
        if op == "-":
            return den(res) == A.wrap32(-x)
        return den(res) == b2i(x == 0)
    return post


CAPTURED_OPERAND = [None]


def _lower_expr_capture(ex, a):
    v = ex.mk(_REF, fresh_name("lowered"), register=True)
    ex.assume(A.i32(den(v)))
    CAPTURED_OPERAND[0] = v
    return v


lower_expr_cap = Contract(qualname=EL + "lower_expr", params={"self": _OPQ, "expr": _OPQ}, effect=_lower_expr_capture, verify=False,
                          note="as lower_expr_c; remembers the lowered operand for the specification")
_UN_USES = dict(_SIMPLE_USES)
_UN_USES["ExpressionLowerer.lower_expr"] = lower_expr_cap

for _op in ("+", "-", "!"):
    CONTRACTS.append(Contract(
        qualname=EL + "lower_unary_op",
        params={"self": ty.TObj("ExpressionLowerer", only=("ExpressionLowerer",)), "expr": ty.TObj("UnaryOp", only=("UnaryOp",))},
        requires=[],
        ensures=[(f"value is {_op}x", lambda a, res, _o=_op: _unary_post(_o)(a, res))],
        uses=_UN_USES, dynamic_types={"self": {"ir_builder": ty.TObj("IRBuilder", only=("IRBuilder",)), "parent": ty.TOpaque("parent"), "semantic": ty.TOpaque("semantic")},
                                      "expr": {"op": ty.TConcrete(_op), "expr": ty.TObj("Expr", only=("BinaryOp",))}},
        properties=("C01",), min_obligations=1, note=f"op {_op}"))

CONTRACTS += [lower_expr_c, alloc_type, lower_expr_cap]

# =================================================================================================
# K3 step for binary operators: ExpressionLowerer.lower_binary_op, scalar operands.
# Ghost `val(e)` = the run-time value S3 gives the expression e.  Induction over the expression tree:
# sub-expressions are lowered by contract (den(result) == val(sub-expression)), the node's own result
# must denote  val(left) <op> val(right)  per S1.
# =================================================================================================
from contracts import c11 as _c11  # noqa: E402


def val(e):
    return ghost(e, "val", ty.Int)


def _lower_sub_effect(ex, a):
    v = ex.mk(_REF, fresh_name("lowered"), register=True)
    ex.assume(den(v) == val(a.expr))
    ex.assume(A.i32(den(v)))
    if isinstance(v, SObj):
        ex.assume(z3.Length(v.signal_type) > 0)  # every SignalRef carries a (non-empty) signal type
    return v


lower_sub = Contract(qualname=EL + "lower_expr", params={"self": _OPQ, "expr": _OPQ}, effect=_lower_sub_effect, verify=False,
                     note="ASSUMED (induction hypothesis over the expression tree): lowers a sub-expression to an int or a SignalRef that denotes val(sub-expression)")

extract_callee = Contract(
    qualname=_c11.EXTRACT, params={"cls": _OPQ, "expr": _OPQ, "diagnostics": _OPQ, "symbol_resolver": _OPQ},
    defaults={"diagnostics": None, "symbol_resolver": None}, returns=ty.TOpt(ty.Int),
    callee_ensures=[("a constant it returns is the expression's value", lambda a, res: True if res is None else And(res == val(a.expr), A.i32(res)))],
    verify=False, note="proved in contracts.c11 (extract_contract) against the constant denotation; here linked to val(): a compile-time constant is its own run-time value")

_TYPEINFO = ty.TObj("SignalValue", only=("SignalValue",))
sig_type_name = Contract(qualname="dsl_compiler/src/semantic/type_system.py::get_signal_type_name", params={"value_type": _OPQ}, returns=ty.TOpt(ty.Str),
                         callee_ensures=[("a name is non-empty", lambda a, res: True if res is None else z3.Length(res) > 0)], verify=False,
                         note="three-line accessor: the signal type name of a SignalValue, None for every other value type (int-typed operands take the None branch)")
get_expr_type = Contract(qualname="dsl_compiler/src/semantic/analyzer.py::SemanticAnalyzer.get_expr_type", params={"self": _OPQ, "expr": _OPQ},
                         returns=_TYPEINFO, verify=False, note="type lookup; only scalar operand types considered (bundle operands: C02)")
actual_type = Contract(qualname=EL + "_get_actual_type_from_ref", params={"self": _OPQ, "value_ref": _OPQ, "semantic_type": _OPQ},
                       returns=_TYPEINFO, verify=False, note="type refinement; does not touch values")


def _sem(op, l, r):
    if op in A.CMP_OPS:
        return lambda res: den(res) == b2i(A.cmp(op, l, r))
    if op == "&&":
        return lambda res: den(res) == b2i(And(l != 0, r != 0))
    if op == "||":
        return lambda res: den(res) == b2i(Or(l != 0, r != 0))
    if op in ("<<", ">>"):
        return lambda res: Implies(And(r >= 0, r <= 31), den(res) == A.fa(op, l, r))
    if op == "**":
        return lambda res: Implies(r >= 0, den(res) == A.fa(op, l, r, POW))
    return lambda res: den(res) == A.fa(op, l, r)


def _callee_for(op):
    """contracts of the per-category lowerers as seen from lower_binary_op (each proved above for this op)"""
    out = {}
    ret = ty.TObj("SignalRef", only=("SignalRef",))
    p5 = {"self": _OPQ, "expr": _OPQ, "left_ref": _OPQ, "right_ref": _OPQ, "output_type": ty.Str, "left_signal_type": _OPQ}
    if op in A.CMP_OPS:
        out["ExpressionLowerer._lower_comparison_op"] = Contract(qualname=EL + "_lower_comparison_op", params=p5, requires=_REQ, returns=ret,
                                                                 callee_ensures=[("cmp", _cmp_post(op))], verify=False, note=f"proved above (op {op})")
    if op in ("**", "<<", ">>", "AND", "OR", "XOR"):
        out["ExpressionLowerer._lower_arithmetic_like_op"] = Contract(qualname=EL + "_lower_arithmetic_like_op", params=p5, requires=_REQ, returns=ret,
                                                                      callee_ensures=[("arith", _arith_like_post(op))], verify=False, note=f"proved above (op {op})")
    p4 = {"self": _OPQ, "expr": _OPQ, "left_ref": _OPQ, "right_ref": _OPQ, "output_type": ty.Str}
    if op == "&&":
        out["ExpressionLowerer._lower_logical_and"] = Contract(qualname=EL + "_lower_logical_and", params=p4, requires=_REQ, returns=ret,
                                                               callee_ensures=logical_and.ensures[:1], verify=False, note="proved above")
    if op == "||":
        out["ExpressionLowerer._lower_logical_or"] = Contract(qualname=EL + "_lower_logical_or", params=p4, requires=_REQ, returns=ret,
                                                              callee_ensures=logical_or.ensures[:1], verify=False, note="proved above")
    return out


def _chain_callee(op):
    return Contract(qualname=EL + "_try_fold_logical_chain", params={"self": _OPQ, "expr": _OPQ}, returns=ty.TOpt(ty.TObj("SignalRef", only=("SignalRef",))),
                    callee_ensures=[("folded chain denotes the logical value", lambda a, res: True if res is None else _sem(op, val(a.expr.left), val(a.expr.right))(res))],
                    verify=False, note="proved below (_try_fold_logical_chain) for chains of up to three comparisons of simple operands; for longer chains ASSUMED")


merge_callee = Contract(qualname=EL + "_attempt_wire_merge", params={"self": _OPQ, "expr": _OPQ, "left_ref": _OPQ, "right_ref": _OPQ, "result_type": _OPQ},
                        returns=ty.TOpt(ty.TObj("SignalRef", only=("SignalRef",))),
                        callee_ensures=[("a merged wire carries the sum", lambda a, res: True if res is None else den(res) == A.wrap32(den(a.left_ref) + den(a.right_ref)))],
                        verify=False, note="proved in contracts.c01b (_attempt_wire_merge: each operand an integer, a simple source or a two-member merge) from the S2 network-sum assumption stated there")

_BIN_OPS = ["+", "-", "*", "/", "%", "**", "<<", ">>", "AND", "OR", "XOR", "==", "!=", "<", "<=", ">", ">=", "&&", "||"]
for _op in _BIN_OPS:
    _uses = dict(_SIMPLE_USES)
    _uses.update({"ExpressionLowerer.lower_expr": lower_sub, "ConstantFolder.extract_constant_int": extract_callee,
                  "ConstantFolder.fold_binary_operation": _c11._fold_callee, "opaque.get_expr_type": get_expr_type,
                  "SemanticAnalyzer.get_expr_type": get_expr_type,
                  "fn:get_signal_type_name": sig_type_name,
                  "ExpressionLowerer._get_actual_type_from_ref": actual_type, "ExpressionLowerer._try_fold_logical_chain": _chain_callee(_op),
                  "ExpressionLowerer._attempt_wire_merge": merge_callee})
    _uses.update(_callee_for(_op))
    CONTRACTS.append(Contract(
        qualname=EL + "lower_binary_op",
        params={"self": ty.TObj("ExpressionLowerer", only=("ExpressionLowerer",)), "expr": ty.TObj("BinaryOp", only=("BinaryOp",))},
        requires=[("operand values are int32", lambda a: And(A.i32(val(a.expr.left)), A.i32(val(a.expr.right))))],
        ensures=[(f"result denotes val(left) {_op} val(right)", lambda a, res, _o=_op: _sem(_o, val(a.expr.left), val(a.expr.right))(res))],
        uses=_uses,
        dynamic_types={"self": {"ir_builder": ty.TObj("IRBuilder", only=("IRBuilder",)), "parent": ty.TOpaque("parent"),
                                "semantic": ty.TObj("SemanticAnalyzer", only=("SemanticAnalyzer",)), "diagnostics": ty.TOpaque("diag")},
                       "expr": {"op": ty.TConcrete(_op), "left": ty.TObj("Expr", only=("IdentifierExpr",)), "right": ty.TObj("Expr", only=("IdentifierExpr",))}},
        properties=("C01",), min_obligations=2, no_replay=True, note=f"op {_op}; scalar operands"))

CONTRACTS += [lower_sub, extract_callee, get_expr_type, actual_type, merge_callee, sig_type_name]

# =================================================================================================
# K3: condition folding.  _try_fold_logical_chain either declines (None) or returns one multi-condition decider
# whose rows are exactly the chain's comparisons, in order, combined with the chain's connective — so it denotes
# the && / || of the comparisons (S3).  Chain shapes: c1 OP c2, (c1 OP c2) OP c3, c1 OP (c2 OP c3) and the two mixed
# shapes (inner connective differs), leaves = comparisons of simple operands; comparators symbolic.
# =================================================================================================
def cmp_sym(op, a, b):
    return Or(And(op == "<", a < b), And(op == "<=", a <= b), And(op == ">", a > b), And(op == ">=", a >= b),
              And(op == "==", a == b), And(op == "!=", a != b))


def _decider_multi_effect(ex, a):
    truths = [cmp_sym(c[0], den(c[1]), den(c[2])) for c in a.conditions]
    if a.combine_type == "and":
        t = And(*truths)
    elif a.combine_type == "or":
        t = Or(*truths)
    else:
        raise NotImplementedError("connective")
    if not isinstance(a.output_value, int) or a.copy_count_from_input is not False:
        raise NotImplementedError("copy mode")
    return _new_ref(a.output_type, ops.ite(t, a.output_value, 0))


builder_multi = Contract(qualname=IRB + "decider_multi", params={"self": _OPQ, "conditions": _OPQ, "combine_type": _OPQ, "output_value": _OPQ, "output_type": ty.Str,
                                                                   "source_ast": _OPQ, "copy_count_from_input": _OPQ},
                         defaults={"source_ast": None, "copy_count_from_input": False}, effect=_decider_multi_effect, verify=False,
                         note="IRBuilder.decider_multi appends one IRDecider with one row per tuple, all rows after the first combined with combine_type; "
                              "denotation: all (and) / any (or) of the rows ? output_value : 0  (S2 row semantics; a pure and- or or-chain has no precedence issue)")

_IDENT = ty.TObj("Expr", only=("IdentifierExpr",))


def _cmp_leaf(tag):
    return ty.TObj("BinaryOp", only=("BinaryOp",), ftypes=(("op", ty.Str), ("left", _IDENT), ("right", _IDENT)))


def _leaf_truth(leaf):
    return cmp_sym(leaf.op, val(leaf.left), val(leaf.right))


def _logic_node(op, l, r):
    return ty.TObj("BinaryOp", only=("BinaryOp",), ftypes=(("op", ty.TConcrete(op)), ("left", l), ("right", r)))


def _chain_truth(node, op):
    """S3 truth of the chain tree"""
    if isinstance(node.op, str) and node.op in ("&&", "||"):
        l, r = _chain_truth(node.left, op), _chain_truth(node.right, op)
        return And(l, r) if node.op == "&&" else Or(l, r)
    return _leaf_truth(node)


def _leaves(node):
    if isinstance(node.op, str) and node.op in ("&&", "||"):
        return _leaves(node.left) + _leaves(node.right)
    return [node]


def _leaf_ops_are_comparisons(a):
    return And(*[Or(*[l.op == c for c in A.CMP_OPS]) for l in _leaves(a.expr)])


def _chain_post(mixed):
    def post(a, res):
        if mixed:
            return res is None
        if res is None:
            return False  # a pure chain of simple comparisons is always folded (the caller relies only on soundness, checked next)
        return den(res) == b2i(_chain_truth(a.expr, a.expr.op))
    return post


_CHAIN_USES = dict(_SIMPLE_USES)
_CHAIN_USES.update({"ExpressionLowerer.lower_expr": lower_sub, "IRBuilder.decider_multi": builder_multi, "opaque.get_expr_type": get_expr_type,
                    "SemanticAnalyzer.get_expr_type": get_expr_type, "fn:get_signal_type_name": sig_type_name,
                    "ExpressionLowerer._collect_comparison_chain": "inline", "ExpressionLowerer._is_simple_operand": "inline", "ExpressionLowerer._has_wildcard_operand": "inline",
                    "ExpressionLowerer._create_folded_decider": "inline"})
for _op in ("&&", "||"):
    _other = "||" if _op == "&&" else "&&"
    _shapes = {
        "c1 OP c2": (_logic_node(_op, _cmp_leaf(1), _cmp_leaf(2)), False),
        "(c1 OP c2) OP c3": (_logic_node(_op, _logic_node(_op, _cmp_leaf(1), _cmp_leaf(2)), _cmp_leaf(3)), False),
        "c1 OP (c2 OP c3)": (_logic_node(_op, _cmp_leaf(1), _logic_node(_op, _cmp_leaf(2), _cmp_leaf(3))), False),
        "(c1 OTHER c2) OP c3": (_logic_node(_op, _logic_node(_other, _cmp_leaf(1), _cmp_leaf(2)), _cmp_leaf(3)), True),
        "c1 OP (c2 OTHER c3)": (_logic_node(_op, _cmp_leaf(1), _logic_node(_other, _cmp_leaf(2), _cmp_leaf(3))), True),
    }
    # a comparison of any(bundle) / all(bundle) must not be folded next to another row: the wildcard would range over that row's
    # signals (declined = each comparison keeps its own decider, with the separation of contracts.c02 IRBuilder.decider)
    _wild_leaf = ty.TObj("BinaryOp", only=("BinaryOp",), ftypes=(("op", ty.Str), ("left", ty.TObj("Expr", only=("BundleAllExpr", "BundleAnyExpr"))), ("right", _IDENT)))
    _wild_leaf_r = ty.TObj("BinaryOp", only=("BinaryOp",), ftypes=(("op", ty.Str), ("left", _IDENT), ("right", ty.TObj("Expr", only=("BundleAllExpr", "BundleAnyExpr")))))
    _shapes["wild OP c2"] = (_logic_node(_op, _wild_leaf, _cmp_leaf(2)), True)
    _shapes["c1 OP (c2 OP wild-on-the-right)"] = (_logic_node(_op, _cmp_leaf(1), _logic_node(_op, _cmp_leaf(2), _wild_leaf_r)), True)
    for _sn, (_t, _mixed) in _shapes.items():
        CONTRACTS.append(Contract(
            qualname=EL + "_try_fold_logical_chain",
            params={"self": ty.TObj("ExpressionLowerer", only=("ExpressionLowerer",)), "expr": _t},
            requires=[("leaf operators are comparisons", _leaf_ops_are_comparisons)],
            ensures=[("a folded chain denotes the && / || of its comparisons; a mixed chain, or a chain with an any() / all() comparison, is declined", _chain_post(_mixed))],
            uses=_CHAIN_USES,
            dynamic_types={"self": {"ir_builder": ty.TObj("IRBuilder", only=("IRBuilder",)), "parent": ty.TOpaque("parent"),
                                    "semantic": ty.TObj("SemanticAnalyzer", only=("SemanticAnalyzer",))}},
            properties=("C01",), min_obligations=1, no_replay=True, note=f"OP = {_op}; shape {_sn}"))
CONTRACTS.append(builder_multi)

# =================================================================================================
# K3: the conditional value `(l CMP r) : v` (simple comparison, scalar operands).
# lower_output_spec_expr yields a reference that denotes  cmp ? val(v) : 0 ; in copy mode the decider is
# built on the signal type of the copied value (IR well-formedness of copy-count deciders: a precondition of
# the builder, checked at this call site).
# =================================================================================================
def _decider2_effect(ex, a):
    if not isinstance(a.test_op, str):
        raise NotImplementedError("symbolic comparison tag")
    truth = A.cmp(a.test_op, den(a.left), den(a.right))
    if isinstance(a.output_value, SObj):
        if a.copy_count_from_input is not True:
            raise NotImplementedError("signal output without copy mode")
        return _new_ref(a.output_type, ops.ite(truth, den(a.output_value), 0))
    if a.copy_count_from_input is not False:
        raise NotImplementedError("constant output in copy mode")
    return _new_ref(a.output_type, ops.ite(truth, a.output_value, 0))


builder_decider2 = Contract(
    qualname=IRB + "decider", params=builder_decider.params, defaults=builder_decider.defaults, effect=_decider2_effect, verify=False,
    requires=[("a copy-count decider is built on the signal type of the value it copies",
               lambda a: (a.output_type == a.output_value.signal_type) if isinstance(a.output_value, SObj) else True)],
    note="IRBuilder.decider: constant mode denotes cmp ? k : 0; copy mode denotes cmp ? value : 0 PROVIDED the output type is the copied value's signal type")

_NUM = ty.TObj("Expr", only=("NumberLiteral",), ftypes=(("value", ty.Int),))


def _spec_post(op):
    def post(a, res):
        c = a.expr.condition
        l, r, v = val(c.left), val(c.right), val(a.expr.output_value)
        return den(res) == ops.ite(A.cmp(op, l, r), v, 0)
    return post


_SPEC_USES = dict(_SIMPLE_USES)
_SPEC_USES.update({"ExpressionLowerer.lower_expr": lower_sub, "ConstantFolder.extract_constant_int": extract_callee,
                   "ConstantFolder.fold_binary_operation": _c11._fold_callee, "opaque.get_expr_type": get_expr_type,
                   "SemanticAnalyzer.get_expr_type": get_expr_type, "fn:get_signal_type_name": sig_type_name,
                   "IRBuilder.decider": builder_decider2, "ExpressionLowerer._lower_output_spec_value": "inline",
                   "ExpressionLowerer._is_bundle_filter_pattern": "inline"})
for _op in A.CMP_OPS:
    for _ov, _ovn in ((ty.TObj("Expr", only=("IdentifierExpr",)), "named value"), (ty.TObj("Expr", only=("BinaryOp",)), "computed value")):
        CONTRACTS.append(Contract(
            qualname=EL + "lower_output_spec_expr",
            params={"self": ty.TObj("ExpressionLowerer", only=("ExpressionLowerer",)),
                    "expr": ty.TObj("OutputSpecExpr", only=("OutputSpecExpr",), ftypes=(
                        ("condition", ty.TObj("BinaryOp", only=("BinaryOp",), ftypes=(("op", ty.TConcrete(_op)), ("left", _IDENT), ("right", _IDENT)))),
                        ("output_value", _ov)))},
            requires=[("operand values are int32", lambda a: And(A.i32(val(a.expr.condition.left)), A.i32(val(a.expr.condition.right)), A.i32(val(a.expr.output_value))))],
            ensures=[(f"denotes (l {_op} r) ? v : 0", _spec_post(_op))],
            uses=_SPEC_USES,
            dynamic_types={"self": {"ir_builder": ty.TObj("IRBuilder", only=("IRBuilder",)), "parent": ty.TOpaque("parent"),
                                    "semantic": ty.TObj("SemanticAnalyzer", only=("SemanticAnalyzer",)), "diagnostics": ty.TOpaque("diag")}},
            properties=("C01",), min_obligations=2, no_replay=True, note=f"op {_op}; {_ovn}"))
CONTRACTS.append(builder_decider2)
