"""C01 contracts (K3): lowering of logical operators against the S1/S3 meaning, with the IR builder used
by contract.  Ghost `den(ref)` = the int32 value the referenced IR node puts on its own signal."""
from __future__ import annotations

import z3

from pyvc import types as ty
from pyvc.contract import Contract
from pyvc.ghost import ghost, isa
from pyvc.values import SObj, fresh_name
from spec import arith32 as A
from spec import ops
from spec.ops import And, Implies, Not, Or, b2i

EL = "dsl_compiler/src/lowering/expression_lowerer.py::ExpressionLowerer."
IRB = "dsl_compiler/src/ir/builder.py::IRBuilder."


def den(ref):
    """value of a ValueRef: the literal for ints, the ghost denotation for signal references"""
    if isinstance(ref, SObj):
        return ghost(ref, "den", ty.Int)
    return ref


def _i32(ref):
    return A.i32(den(ref))


def _new_ref(signal_type, value):
    r = SObj(["SignalRef"], fresh_name("ref"), lazy=False)
    r._fields["signal_type"] = signal_type
    r._fields["source_id"] = z3.String(fresh_name("node_id"))
    r._fields["@den"] = value
    r._fields["debug_metadata"] = {}
    return r


def _const_effect(ex, a):
    return _new_ref(a.signal_type, a.value)


def _arith_effect(ex, a):
    op = a.op
    if not isinstance(op, str):
        raise NotImplementedError("symbolic operator tag")
    return _new_ref(a.output_type, A.fa({"^": "**"}.get(op, op), den(a.left), den(a.right)))


def _decider_effect(ex, a):
    if not isinstance(a.test_op, str) or isinstance(a.output_value, SObj):
        raise NotImplementedError("symbolic comparison tag / signal output")
    truth = A.cmp(a.test_op, den(a.left), den(a.right))
    return _new_ref(a.output_type, ops.ite(truth, a.output_value, 0))


_OPQ = ty.TOpaque("x")
builder_const = Contract(qualname=IRB + "const", params={"self": _OPQ, "signal_type": ty.Str, "value": ty.Int, "source_ast": _OPQ},
                         defaults={"source_ast": None}, effect=_const_effect, verify=False,
                         note="IRBuilder.const appends one IRConst(value) and returns a reference to it (three-line body)")
builder_arith = Contract(qualname=IRB + "arithmetic", params={"self": _OPQ, "op": ty.Str, "left": _OPQ, "right": _OPQ, "output_type": ty.Str, "source_ast": _OPQ},
                         defaults={"source_ast": None}, effect=_arith_effect, verify=False,
                         requires=[("operands are int32", lambda a: And(_i32(a.left), _i32(a.right)))],
                         note="IRBuilder.arithmetic appends one IRArith(op, left, right); its denotation is S1's fa(op, ., .)")
builder_decider = Contract(qualname=IRB + "decider", params={"self": _OPQ, "test_op": ty.Str, "left": _OPQ, "right": _OPQ, "output_value": _OPQ,
                                                           "output_type": ty.Str, "source_ast": _OPQ, "copy_count_from_input": ty.Bool},
                           defaults={"source_ast": None, "copy_count_from_input": False}, effect=_decider_effect, verify=False,
                           note="IRBuilder.decider appends one IRDecider; constant-output mode denotes cmp ? k : 0")

is_bool_callee = Contract(
    qualname=EL + "_is_boolean_producer",
    params={"self": _OPQ, "ref": _OPQ},
    returns=ty.Bool,
    callee_ensures=[("True only for values in {0,1}", lambda a, res: Implies(res, Or(den(a.ref) == 0, den(a.ref) == 1)))],
    verify=False,
    note="verified separately below (is_boolean_producer) under the IR consistency premise",
)

_REF = ty.TUnion((ty.TObj("SignalRef", only=("SignalRef",)), ty.Int))
_SELF_T = {"ir_builder": ty.TObj("IRBuilder", only=("IRBuilder",))}
_USES = {"IRBuilder.const": builder_const, "IRBuilder.arithmetic": builder_arith, "IRBuilder.decider": builder_decider,
         "IRBuilder.annotate_signal": "skip", "ExpressionLowerer._attach_expr_context": "skip",
         "ExpressionLowerer._is_boolean_producer": is_bool_callee}
_PARAMS = {"self": ty.TObj("ExpressionLowerer", only=("ExpressionLowerer",)), "expr": ty.TObj("BinaryOp", only=("BinaryOp",)),
           "left_ref": _REF, "right_ref": _REF, "output_type": ty.Str}
_REQ = [("operand values are int32", lambda a: And(_i32(a.left_ref), _i32(a.right_ref)))]

logical_and = Contract(
    qualname=EL + "_lower_logical_and", params=_PARAMS, requires=_REQ,
    ensures=[("value is [l != 0 and r != 0]", lambda a, res: den(res) == b2i(And(den(a.left_ref) != 0, den(a.right_ref) != 0))),
             ("carried on the requested type", lambda a, res: res.signal_type == a.output_type)],
    uses=_USES, dynamic_types={"self": _SELF_T}, properties=("C01",), min_obligations=6,
)
logical_or = Contract(
    qualname=EL + "_lower_logical_or", params=_PARAMS, requires=_REQ,
    ensures=[("value is [l != 0 or r != 0]", lambda a, res: den(res) == b2i(Or(den(a.left_ref) != 0, den(a.right_ref) != 0))),
             ("carried on the requested type", lambda a, res: res.signal_type == a.output_type)],
    uses=_USES, dynamic_types={"self": _SELF_T}, properties=("C01",), min_obligations=6,
)

CONTRACTS = [logical_and, logical_or, builder_const, builder_arith, builder_decider, is_bool_callee]
TRUSTED = ["IR denotation `irden` (DESIGN §3.1): an IRArith denotes fa(op, den(left), den(right)), an IRDecider with a constant output "
           "k denotes (cmp ? k : 0), an IRConst denotes its value — the meaning given to the IR by S2 when every operand is read in isolation"]
