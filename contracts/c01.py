"""C01 contracts (K3): lowering of logical operators against the S1/S3 meaning, with the IR builder used
by contract.  Ghost `den(ref)` = the int32 value the referenced IR node puts on its own signal."""
from __future__ import annotations

import z3

from pyvc import types as ty
from pyvc.contract import Contract
from pyvc.ghost import ghost, isa
from pyvc.values import SObj, fresh_name
from spec import arith32 as A
from spec import ops
from spec.ops import And, Implies, Not, Or, b2i

EL = "dsl_compiler/src/lowering/expression_lowerer.py::ExpressionLowerer."
IRB = "dsl_compiler/src/ir/builder.py::IRBuilder."


def den(ref):
    """value of a ValueRef: the literal for ints, the ghost denotation for signal references"""
    if isinstance(ref, SObj):
        return ghost(ref, "den", ty.Int)
    return ref


def _i32(ref):
    return A.i32(den(ref))


def _new_ref(signal_type, value):
    r = SObj(["SignalRef"], fresh_name("ref"), lazy=False)
    r._fields["signal_type"] = signal_type
    r._fields["source_id"] = z3.String(fresh_name("node_id"))
    r._fields["@den"] = value
    r._fields["debug_metadata"] = {}
    return r


def _const_effect(ex, a):
    return _new_ref(a.signal_type, a.value)


def _arith_effect(ex, a):
    op = a.op
    if not isinstance(op, str):
        raise NotImplementedError("symbolic operator tag")
    return _new_ref(a.output_type, A.fa({"^": "**"}.get(op, op), den(a.left), den(a.right)))


def _decider_effect(ex, a):
    if not isinstance(a.test_op, str) or isinstance(a.output_value, SObj):
        raise NotImplementedError("symbolic comparison tag / signal output")
    truth = A.cmp(a.test_op, den(a.left), den(a.right))
    return _new_ref(a.output_type, ops.ite(truth, a.output_value, 0))


_OPQ = ty.TOpaque("x")
builder_const = Contract(qualname=IRB + "const", params={"self": _OPQ, "signal_type": ty.Str, "value": ty.Int, "source_ast": _OPQ},
                         defaults={"source_ast": None}, effect=_const_effect, verify=False,
                         note="IRBuilder.const appends one IRConst(value) and returns a reference to it (three-line body)")
builder_arith = Contract(qualname=IRB + "arithmetic", params={"self": _OPQ, "op": ty.Str, "left": _OPQ, "right": _OPQ, "output_type": ty.Str, "source_ast": _OPQ},
                         defaults={"source_ast": None}, effect=_arith_effect, verify=False,
                         requires=[("operands are int32", lambda a: And(_i32(a.left), _i32(a.right)))],
                         note="IRBuilder.arithmetic appends one IRArith(op, left, right); its denotation is S1's fa(op, ., .)")
builder_decider = Contract(qualname=IRB + "decider", params={"self": _OPQ, "test_op": ty.Str, "left": _OPQ, "right": _OPQ, "output_value": _OPQ,
                                                           "output_type": ty.Str, "source_ast": _OPQ, "copy_count_from_input": ty.Bool},
                           defaults={"source_ast": None, "copy_count_from_input": False}, effect=_decider_effect, verify=False,
                           note="IRBuilder.decider appends one IRDecider; constant-output mode denotes cmp ? k : 0")

is_bool_callee = Contract(
    qualname=EL + "_is_boolean_producer",
    params={"self": _OPQ, "ref": _OPQ},
    returns=ty.Bool,
    callee_ensures=[("True only for values in {0,1}", lambda a, res: Implies(res, Or(den(a.ref) == 0, den(a.ref) == 1)))],
    verify=False,
    note="verified separately below (is_boolean_producer) under the IR consistency premise",
)

_REF = ty.TUnion((ty.TObj("SignalRef", only=("SignalRef",)), ty.Int))
_SELF_T = {"ir_builder": ty.TObj("IRBuilder", only=("IRBuilder",))}
_USES = {"IRBuilder.const": builder_const, "IRBuilder.arithmetic": builder_arith, "IRBuilder.decider": builder_decider,
         "IRBuilder.annotate_signal": "skip", "ExpressionLowerer._attach_expr_context": "skip",
         "ExpressionLowerer._is_boolean_producer": is_bool_callee}
_PARAMS = {"self": ty.TObj("ExpressionLowerer", only=("ExpressionLowerer",)), "expr": ty.TObj("BinaryOp", only=("BinaryOp",)),
           "left_ref": _REF, "right_ref": _REF, "output_type": ty.Str}
_REQ = [("operand values are int32", lambda a: And(_i32(a.left_ref), _i32(a.right_ref)))]

logical_and = Contract(
    qualname=EL + "_lower_logical_and", params=_PARAMS, requires=_REQ,
    ensures=[("value is [l != 0 and r != 0]", lambda a, res: den(res) == b2i(And(den(a.left_ref) != 0, den(a.right_ref) != 0))),
             ("carried on the requested type", lambda a, res: res.signal_type == a.output_type)],
    uses=_USES, dynamic_types={"self": _SELF_T}, properties=("C01",), min_obligations=6,
)
logical_or = Contract(
    qualname=EL + "_lower_logical_or", params=_PARAMS, requires=_REQ,
    ensures=[("value is [l != 0 or r != 0]", lambda a, res: den(res) == b2i(Or(den(a.left_ref) != 0, den(a.right_ref) != 0))),
             ("carried on the requested type", lambda a, res: res.signal_type == a.output_type)],
    uses=_USES, dynamic_types={"self": _SELF_T}, properties=("C01",), min_obligations=6,
)

CONTRACTS = [logical_and, logical_or, builder_const, builder_arith, builder_decider, is_bool_callee]
TRUSTED = ["IR denotation `irden` (DESIGN §3.1): an IRArith denotes fa(op, den(left), den(right)), an IRDecider with a constant output "
           "k denotes (cmp ? k : 0), an IRConst denotes its value — the meaning given to the IR by S2 when every operand is read in isolation"]

# =================================================================================================
# _is_boolean_producer: `True` only for references whose value is 0 or 1 — under IR consistency
# (the node a reference points to denotes the reference's value, per `irden`).
# =================================================================================================
_IRNODE = ty.TOpt(ty.TObj("IRNode", only=("IRDecider", "IRConst", "IRArith", "IRWireMerge", "IRMemRead")))


def _get_operation_effect(ex, a):
    ref = ex.args_ns.ref
    return ghost(ref, "node", _IRNODE)


get_operation = Contract(qualname=IRB + "get_operation", params={"self": _OPQ, "node_id": ty.Str}, effect=_get_operation_effect,
                         verify=False, note="dictionary lookup; the node returned for a reference's source_id is the producer of that reference")

_VREF_SI = ty.TUnion((ty.TObj("SignalRef", only=("SignalRef",)), ty.Int))


def _ir_consistent(a):
    """IR consistency premise (irden): what the producer node of `ref` says about den(ref)."""
    ref = a.ref
    if not isinstance(ref, SObj):
        return True
    op = ref._fields.get("@node")
    if op is None:
        return True
    d = den(ref)
    if isa(op, "IRDecider"):
        ov = op.output_value
        if isinstance(ov, SObj):
            return True
        # IR well-formedness: a decider referenced through a SignalRef copies its input count only when
        # its output value is a signal (IRBuilder.decider callers); with a constant output it denotes cmp ? k : 0
        return And(Not(op.copy_count_from_input), Or(d == 0, d == ov))
    if isa(op, "IRConst"):
        return d == op.value
    if isa(op, "IRArith"):
        l, r = op.left, op.right
        cs = [Implies(op.op == "*", d == A.wrap32(den(l) * den(r)))]
        if not isinstance(r, SObj):
            cs.append(Implies(And(op.op == "+", r == 0), d == den(l)))
        return And(*cs)
    return True


is_boolean_producer = Contract(
    qualname=EL + "_is_boolean_producer",
    params={"self": ty.TObj("ExpressionLowerer", only=("ExpressionLowerer",)), "ref": _VREF_SI},
    ensures=[("True only if the referenced value is 0 or 1 (given IR consistency)",
              lambda a, res: Implies(And(_ir_consistent(a), res), Or(den(a.ref) == 0, den(a.ref) == 1)))],
    uses={"IRBuilder.get_operation": get_operation, "ExpressionLowerer._is_boolean_producer": is_bool_callee},
    dynamic_types={"self": _SELF_T},
    properties=("C01",), min_obligations=5,
)
_NODE_TYPES = {"output_value": _VREF_SI, "copy_count_from_input": ty.Bool, "value": ty.Int, "op": ty.Str, "left": _VREF_SI, "right": _VREF_SI}

CONTRACTS += [is_boolean_producer, get_operation]
