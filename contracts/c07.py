"""K8 contracts (C01/C07): the decider condition the emitter configures denotes the placement's comparison."""
from __future__ import annotations

import z3

from pyvc import types as ty
from pyvc.contract import Contract
from pyvc.values import Opaque
from spec import arith32 as A
from spec import ops
from spec.ops import And, Implies, Not, Or

PE = "dsl_compiler/src/emission/entity_emitter.py::PlanEntityEmitter."
CMPS = ["<", "<=", ">", ">=", "==", "!=", "=", "≤", "≥", "≠"]
_OPERAND = ty.TUnion((ty.Int, ty.Str))
LW, RW = frozenset({"L-wires"}), frozenset({"R-wires"})
CAP = {}
_val = z3.Function("signal_value", z3.StringSort(), z3.IntSort())


def _cond_effect(ex, a):
    CAP["condition"] = dict(a.kwargs)
    return Opaque("Condition")


def _out_effect(ex, a):
    CAP["output"] = dict(a.kwargs)
    return Opaque("Output")


cond_ctor = Contract(qualname="draftsman::DeciderCombinator.Condition", params={"kwargs": ty.TOpaque("kw")}, effect=_cond_effect, verify=False,
                     note="ASSUMED (draftsman): Condition(**kw) stores first_signal / comparator / constant | second_signal / *_networks as given")
out_ctor = Contract(qualname="draftsman::DeciderCombinator.Output", params={"kwargs": ty.TOpaque("kw")}, effect=_out_effect, verify=False,
                    note="ASSUMED (draftsman): Output(**kw) stores signal / copy_count_from_input / constant / networks as given")


def _s(x):
    return z3.StringVal(x) if isinstance(x, str) else x


def _is_str(x):
    return isinstance(x, str) or (ops.is_sym(x) and z3.is_string(x))


def _meaning(x):
    return _val(_s(x)) if _is_str(x) else x


def _cmp_any(op, a, b):
    """comparison under a comparator that may be a symbolic string term (the decided constant row picks "=" / "!=")"""
    if isinstance(op, str):
        return A.cmp(op, a, b)
    table = {"<": a < b, "<=": a <= b, "≤": a <= b, ">": a > b, ">=": a >= b, "≥": a >= b, "=": a == b, "==": a == b, "!=": a != b, "≠": a != b}
    return Or(*[And(op == k, v) for k, v in table.items()])


def _post_for(op):
    def post(a, res):
        p = a.props
        left, right = p["left_operand"], p["right_operand"]
        kw = CAP["condition"]
        src_truth = A.cmp(op, _meaning(left), _meaning(right))
        # a signal read from NO wire (empty network selection) is 0
        first = 0 if kw.get("first_signal_networks") == set() else _val(_s(kw["first_signal"]))
        second = _val(_s(kw["second_signal"])) if "second_signal" in kw else kw["constant"]
        em_truth = _cmp_any(kw["comparator"], first, second)
        swapped = (not _is_str(left)) and _is_str(right)
        nets = []
        if _is_str(left) or swapped:
            nets.append(kw.get("first_signal_networks") is (RW if swapped else LW))
        if "second_signal" in kw:
            nets.append(kw.get("second_signal_networks") is (LW if swapped else RW))
        return And(ops.Iff(em_truth, src_truth), *nets)
    return post


def _both_const(a, res):
    p = a.props
    return (not _is_str(p["left_operand"])) and (not _is_str(p["right_operand"]))


def _props(op):
    return ty.TRecord((("conditions", ty.TConcrete(None)), ("multi_conditions", ty.TConcrete(None)), ("operation", ty.TConcrete(op)),
                       ("left_operand", _OPERAND), ("right_operand", _OPERAND), ("output_signal", ty.Str), ("output_value", _OPERAND),
                       ("copy_count_from_input", ty.Bool), ("left_operand_wires", ty.TConcrete(LW)), ("right_operand_wires", ty.TConcrete(RW)),
                       ("output_value_wires", ty.TConcrete(None))))


def _out_post(a, res):
    p = a.props
    o = CAP["output"]
    ov = p["output_value"]
    ok = And(o["signal"] is p["output_signal"], o["copy_count_from_input"] is p["copy_count_from_input"])
    if not _is_str(ov):
        ok = And(ok, Implies(Not(p["copy_count_from_input"]), ("constant" in o) and o.get("constant") is ov))
    return ok


CONTRACTS = []
for _op in CMPS:
    CONTRACTS.append(Contract(
        qualname=PE + "_configure_decider",
        params={"self": ty.TObj("PlanEntityEmitter", only=("PlanEntityEmitter",)), "entity": ty.TObj("ExternalDeciderCombinator"), "props": _props(_op)},
        ensures=[(f"emitted condition means `left {_op} right` and each operand keeps its wire selection", _post_for(_op)),
                 ("output signal, mode and constant are the placement's", _out_post)],
        uses={"opaque.Condition": cond_ctor, "opaque.Output": out_ctor, "PlanEntityEmitter._wires_to_network_selection": "skip"},
        properties=("C01", "C07"), min_obligations=4, no_replay=True,
        note=f"operation = {_op}",
    ))
CONTRACTS += [cond_ctor, out_ctor]
TRUSTED = ["signal_value: the value a signal name has on the wires the operand selects (uninterpreted); a decider condition is first CMP second"]

# =================================================================================================
# K8 for arithmetic combinators: PlanEntityEmitter._configure_arithmetic writes the placement's
# operation, operands, output signal and per-operand wire selections onto the draftsman entity unchanged
# (except the documented signal-each -> signal-0 output repair when no operand is `each`).
# =================================================================================================
ARITH_OPS = ["+", "-", "*", "/", "%", "^", "<<", ">>", "AND", "OR", "XOR"]


def _netsel_effect(ex, a):
    return ("netsel", a.kwargs.get("red"), a.kwargs.get("green"))


netsel = Contract(qualname="draftsman::CircuitNetworkSelection", params={"kwargs": ty.TOpaque("kw")}, effect=_netsel_effect, verify=False,
                  note="ASSUMED (draftsman): CircuitNetworkSelection(red=.., green=..) selects exactly those colours")


def _sel(wires):
    return ("netsel", "red" in wires, "green" in wires)


def _arith_post(a, res):
    p, e = a.props, a.entity
    out = p["output_signal"]
    def is_each(x):
        return ops.eq(_s(x), z3.StringVal("signal-each")) if _is_str(x) else False
    want_out = ops.ite(And(is_each(out), Not(is_each(p["left_operand"])), Not(is_each(p["right_operand"]))), z3.StringVal("signal-0"), _s(out))
    return And(e.first_operand is p["left_operand"], e.second_operand is p["right_operand"], e.operation is p["operation"],
               ops.eq(_s(e.output_signal), want_out),
               e.first_operand_wires == _sel(p["left_operand_wires"]), e.second_operand_wires == _sel(p["right_operand_wires"]))


for _lw, _rw in ((frozenset({"red"}), frozenset({"green"})), (frozenset({"red", "green"}), frozenset({"red"})), (frozenset({"green"}), frozenset({"red", "green"}))):
    CONTRACTS.append(Contract(
        qualname=PE + "_configure_arithmetic",
        params={"self": ty.TObj("PlanEntityEmitter", only=("PlanEntityEmitter",)), "entity": ty.TObj("ExternalArithmeticCombinator"),
                "props": ty.TRecord((("operation", ty.Str), ("left_operand", _OPERAND), ("right_operand", _OPERAND), ("output_signal", ty.Str),
                                     ("left_operand_wires", ty.TConcrete(_lw)), ("right_operand_wires", ty.TConcrete(_rw))))},
        ensures=[("operation, operands, output signal and both wire selections are the placement's", _arith_post)],
        uses={"opaque.CircuitNetworkSelection": netsel, "PlanEntityEmitter._wires_to_network_selection": "inline"},
        properties=("C01", "C07", "C02"), min_obligations=1, no_replay=True,
        note=f"wires {sorted(_lw)} / {sorted(_rw)}"))
CONTRACTS.append(netsel)

# =================================================================================================
# K8 for multi-condition deciders: every row of the placement becomes one draftsman Condition with the same
# meaning (a constant-first row is mirrored), the same wire selections and the same and/or connective, in order.
# =================================================================================================
ROWS = []


def _row_cond_effect(ex, a):
    ROWS.append(dict(a.kwargs))
    return ("Condition", len(ROWS) - 1)


row_ctor = Contract(qualname="draftsman::DeciderCombinator.Condition", params={"kwargs": ty.TOpaque("kw")}, effect=_row_cond_effect, verify=False,
                    note="ASSUMED (draftsman): Condition(**kw) stores its arguments as given (rows are collected in call order)")
FW, SW = frozenset({"first-wires"}), frozenset({"second-wires"})


def _row_type(op, shape, conn):
    sig, const = shape
    return ty.TRecord((("comparator", ty.TConcrete(op)), ("compare_type", ty.TConcrete(conn)),
                       ("first_signal", ty.Str if sig[0] else ty.TConcrete(None)), ("first_constant", ty.TConcrete(None) if sig[0] else ty.Int),
                       ("first_signal_wires", ty.TConcrete(FW if sig[0] else None)),
                       ("second_signal", ty.Str if sig[1] else ty.TConcrete(None)), ("second_constant", ty.TConcrete(None) if sig[1] else ty.Int),
                       ("second_signal_wires", ty.TConcrete(SW if sig[1] else None))))


def _row_meaning(row):
    f = _val(_s(row["first_signal"])) if row["first_signal"] is not None else row["first_constant"]
    s = _val(_s(row["second_signal"])) if row["second_signal"] is not None else row["second_constant"]
    return A.cmp(row["comparator"], f, s)


def _emitted_meaning(kw):
    if kw.get("first_signal_networks") == _sel_tag(set()) or kw.get("first_signal_networks") == set():
        f = 0  # read from no wire
        s = _val(_s(kw["second_signal"])) if "second_signal" in kw else kw["constant"]
        return _cmp_any(kw["comparator"], f, s)
    f = _val(_s(kw["first_signal"]))
    s = _val(_s(kw["second_signal"])) if "second_signal" in kw else kw["constant"]
    return A.cmp(kw["comparator"], f, s)


def _rows_post(a, res):
    rows = a.conditions_list
    if len(ROWS) != len(rows):
        return False
    cs = []
    for row, kw in zip(rows, ROWS):
        mirrored = row["first_signal"] is None and row["second_signal"] is not None
        cs.append(ops.Iff(_emitted_meaning(kw), _row_meaning(row)))
        cs.append(kw.get("compare_type") == row["compare_type"])
        if row["first_signal"] is not None:
            cs.append(kw.get("first_signal_networks") == _sel_tag(FW))
        if row["second_signal"] is not None:
            cs.append((kw.get("first_signal_networks") if mirrored else kw.get("second_signal_networks")) == _sel_tag(SW))
    return And(*cs)


def _sel_tag(w):
    return ("netsel-of", w)


def _netsel_of(ex, a):
    return ("netsel-of", a.args[1] if len(a.args) > 1 else a.args[0])


wires_sel = Contract(qualname=PE + "_wires_to_network_selection", params={"self": ty.TOpaque("s"), "wires": ty.TOpaque("w")},
                     effect=lambda ex, a: ("netsel-of", a.wires), verify=False, note="verified with _configure_arithmetic (inlined there): selects exactly the colours of the set")


def _signals_nonempty(a):
    cs = []
    for row in a.conditions_list:
        for k in ("first_signal", "second_signal"):
            if row[k] is not None:
                cs.append(z3.Length(row[k]) > 0)
    return And(*cs) if cs else True


_SHAPES = {"sig-const": ((True, False), None), "const-sig": ((False, True), None), "sig-sig": ((True, True), None),
           "const-const": ((False, False), None)}
for _op in ["<", "<=", ">", ">=", "==", "!="]:
    for _sn, _sh in _SHAPES.items():
        CONTRACTS.append(Contract(
            qualname=PE + "_configure_decider_multi_condition",
            params={"self": ty.TObj("PlanEntityEmitter", only=("PlanEntityEmitter",)), "entity": ty.TObj("ExternalDeciderCombinator"),
                    "props": ty.TRecord((("output_signal", ty.Str), ("output_value", _OPERAND), ("copy_count_from_input", ty.Bool), ("output_value_wires", ty.TConcrete(None)))),
                    "conditions_list": ty.TTuple((_row_type(_op, _sh, "or"), _row_type(">", ((True, False), None), "and")))},
            requires=[("(reset capture)", lambda a: ROWS.clear() or True), ("signal names are non-empty", _signals_nonempty)],
            ensures=[("every row keeps its meaning, wires and connective, in order", _rows_post)],
            uses={"opaque.Condition": row_ctor, "opaque.Output": out_ctor, "PlanEntityEmitter._wires_to_network_selection": wires_sel},
            properties=("C01", "C07", "C05"), min_obligations=1, no_replay=True, note=f"first row {_sn} {_op}; second row signal > constant (and)"))
CONTRACTS += [row_ctor, wires_sel]

# =================================================================================================
# BlueprintEmitter._materialize_connections: every wire of the plan becomes one add_circuit_connection call with the plan's
# colour, entities and sides — two wires between the same ordered pair that differ only in their SIDES (or colour) are two
# wires (MST chaining through a combinator's input and output).  Plan of two wires between the same pair: bounded.
# =================================================================================================
BEQ = "dsl_compiler/src/emission/emitter.py::BlueprintEmitter."
WIRES = []


def _add_conn(ex, a):
    WIRES.append(dict(a.kwargs))
    return None


add_conn = Contract(qualname="draftsman::Blueprint.add_circuit_connection", params={"kwargs": ty.TOpaque("kw")}, effect=_add_conn, verify=False,
                    note="ASSUMED (draftsman): add_circuit_connection(color, entity_1, entity_2, side_1, side_2) adds that wire (recorded)")


def _wire_t(src, dst):
    return ty.TObj("WireConnection", only=("WireConnection",), ftypes=(
        ("source_entity_id", ty.TConcrete(src)), ("sink_entity_id", ty.TConcrete(dst)), ("wire_color", ty.Str), ("source_side", ty.TOpt(ty.Str)),
        ("sink_side", ty.TOpt(ty.Str)), ("signal_name", ty.Str)))


def _mat_post(a, res):
    conns = a.layout_plan.wire_connections
    if len(WIRES) != len(conns):
        return False
    cs = []
    for c, w in zip(conns, WIRES):
        cs += [w["color"] is c.wire_color, w["entity_1"] is a.entity_map[c.source_entity_id], w["entity_2"] is a.entity_map[c.sink_entity_id]]
        for side, key in ((c.source_side, "side_1"), (c.sink_side, "side_2")):
            if side is None:
                cs.append(key not in w)
            else:
                # an empty side string is "no side given"
                cs.append(z3.If(z3.Length(side) > 0, z3.BoolVal(key in w and w.get(key) is side), z3.BoolVal(key not in w)))
    return And(*cs)


from pyvc.values import SObj as _SObj3  # noqa: E402

_ENT_A, _ENT_B = _SObj3(["ExternalEntity"], "entity_a", lazy=False), _SObj3(["ExternalEntity"], "entity_b", lazy=False)

CONTRACTS.append(Contract(
    qualname=BEQ + "_materialize_connections",
    params={"self": ty.TObj("BlueprintEmitter", only=("BlueprintEmitter",)),
            "layout_plan": ty.TObj("LayoutPlan", only=("LayoutPlan",), ftypes=(("wire_connections", ty.TTuple((_wire_t("a", "b"), _wire_t("a", "b")))),)),
            "entity_map": ty.TConcrete({"a": _ENT_A, "b": _ENT_B})},
    requires=[("(reset)", lambda a: WIRES.clear() or True)],
    ensures=[("one add_circuit_connection per planned wire, with its colour, entities and sides", _mat_post)],
    uses={"opaque.add_circuit_connection": add_conn, "opaque.warning": "skip", "opaque.error": "skip"},
    dynamic_types={"self": {"blueprint": ty.TOpaque("blueprint"), "diagnostics": ty.TOpaque("diag")}},
    properties=("C07", "C01"), min_obligations=1, no_replay=True, note="two wires between the same ordered pair"))
CONTRACTS.append(add_conn)


# =================================================================================================
# entity_emitter._constant_comparison_row(comparator, left, right): the row emitted for a comparison of two integers is
# `signal-0 = 0` read from NO wire when the comparison holds and `signal-0 != 0` when it does not — so the row is true exactly when
# left CMP right, whatever is on the networks; an unknown comparator spelling is false.
# =================================================================================================
def _ccr_post(cmp_):
    def post(a, res):
        holds = A.cmp({"≤": "<=", "≥": ">=", "≠": "!=", "=": "=="}.get(cmp_, cmp_), a.left, a.right) if cmp_ != "?" else False
        c = res["comparator"]
        shape = res["first_signal"] == "signal-0" and res["first_signal_networks"] == set() and res["constant"] == 0
        if isinstance(c, str):
            return And(shape, c in ("=", "!="), holds if c == "=" else Not(holds))
        return And(shape, Or(c == "=", c == "!="), ops.Iff(c == "=", holds))
    return post


for _c in ("<", "<=", "≤", ">", ">=", "≥", "=", "==", "!=", "≠", "?"):
    CONTRACTS.append(Contract(
        qualname="dsl_compiler/src/emission/entity_emitter.py::_constant_comparison_row", params={"comparator": ty.TConcrete(_c), "left": ty.Int, "right": ty.Int},
        ensures=[("the row (signal-0 from no wire against 0) is true exactly when left CMP right", _ccr_post(_c))],
        properties=("C01", "C07"), min_obligations=1, no_replay=True, note=f"comparator {_c}"))


# =================================================================================================
# BlueprintEmitter.emit_from_plan: EVERY placement of the plan is handed to the entity factory exactly once, in the order of the
# sorted ids; every entity the factory returns is appended to the blueprint (once, no copy) and is in the map the wiring steps
# receive, under its placement's id; a placement the factory refuses is an ERROR (the compile fails), not a silent gap; the power
# grid step and then the wiring step run once each on the SAME plan and map.  Plan of two placements (bounded), ids concrete.
# PlanEntityEmitter.create_entity: a placement with a template entity (user entities) is a deep COPY of that template; otherwise a new
# entity of the placement's type, configured by the combinator rule of its type; in both cases the property writes (when there are
# any) are applied, the description is the formatted debug info, the id is the placement's id and the position the placement's.
# =================================================================================================
EM = {}


def _em_reset(a):
    EM.clear()
    return True


def _em_create(ex, a):
    EM.setdefault("created", []).append(a.placement)
    r = ghost(a.placement, "entity", ty.TOpt(ty.TObj("ExternalEntity", only=("ExternalEntity",))))
    return r


def _em_append(ex, a):
    EM.setdefault("appended", []).append((a.args[0], dict(a.kwargs)))
    return None


def _em_step(kind):
    def eff(ex, a):
        EM.setdefault(kind, []).append((a.layout_plan, dict(a.entity_map) if isinstance(a.entity_map, dict) else a.entity_map))
        return None
    return eff


def _emit_post(a, res):
    plan = a.layout_plan
    placements = plan.entity_placements
    order = sorted(placements)
    created = EM.get("created", [])
    if len(created) != len(order) or any(c is not placements[k] for c, k in zip(created, order)):
        return False
    ents = [(k, placements[k]._fields.get("@entity")) for k in order]
    kept = [(k, e) for k, e in ents if e is not None]
    appended = EM.get("appended", [])
    if len(appended) != len(kept) or any(x[0] is not e or x[1].get("copy") is not False for x, (_k, e) in zip(appended, kept)):
        return False
    if len(EM.get("errors", [])) != len(ents) - len(kept):
        return False
    grid, wires = EM.get("grid", []), EM.get("wires", [])
    if len(grid) != 1 or len(wires) != 1 or grid[0][0] is not plan or wires[0][0] is not plan:
        return False
    want = {placements[k].ir_node_id: e for k, e in kept}
    for _p, m in (grid[0], wires[0]):
        if set(m) != set(want) or any(m[k] is not want[k] for k in want):
            return False
    return res is a.self.blueprint


from pyvc.ghost import ghost  # noqa: E402

_PL = lambda i: ty.TObj("EntityPlacement", only=("EntityPlacement",), ftypes=(("ir_node_id", ty.TConcrete(i)),))  # noqa: E731
CONTRACTS.append(Contract(
    qualname=BEQ + "emit_from_plan",
    params={"self": ty.TObj("BlueprintEmitter", only=("BlueprintEmitter",)),
            "layout_plan": ty.TObj("LayoutPlan", only=("LayoutPlan",), ftypes=(("entity_placements", ty.TRecord((("b", _PL("b")), ("a", _PL("a"))))), ("blueprint_label", ty.TOpt(ty.Str)),
                                                                              ("blueprint_description", ty.TOpt(ty.Str))))},
    requires=[("(reset)", _em_reset)],
    ensures=[("every placement is created once in sorted-id order; every created entity is appended (no copy) and mapped under its id for the grid and wiring steps; "
              "a refused placement is an error", _emit_post)],
    uses={"PlanEntityEmitter.create_entity": Contract(qualname=PE + "create_entity", params={"self": ty.TOpaque("s"), "placement": ty.TOpaque("p")}, effect=_em_create, verify=False, note="proved below"),
          "opaque.append": Contract(qualname="draftsman::EntityList.append", params={"args": ty.TOpaque("a"), "kwargs": ty.TOpaque("kw")}, effect=_em_append, verify=False,
                                    note="ASSUMED (draftsman): blueprint.entities.append(entity, copy=False) adds that very object"),
          "opaque.error": Contract(qualname="dsl_compiler/src/common/diagnostics.py::ProgramDiagnostics.error", params={"args": ty.TOpaque("a"), "kwargs": ty.TOpaque("kw")},
                                   effect=lambda ex, a: EM.setdefault("errors", []).append(a.args), verify=False, note="proved in contracts.c14: the error is counted"),
          "BlueprintEmitter._materialize_power_grid": Contract(qualname=BEQ + "_materialize_power_grid", params={"self": ty.TOpaque("s"), "layout_plan": ty.TOpaque("p"), "entity_map": ty.TOpaque("m")},
                                                               effect=_em_step("grid"), verify=False, note="copper wires between poles (C18: geometry check, bounded)"),
          "BlueprintEmitter._materialize_connections": Contract(qualname=BEQ + "_materialize_connections", params={"self": ty.TOpaque("s"), "layout_plan": ty.TOpaque("p"), "entity_map": ty.TOpaque("m")},
                                                                effect=_em_step("wires"), verify=False, note="proved above"),
          "BlueprintEmitter._apply_blueprint_metadata": "skip",
          "opaque.Blueprint": Contract(qualname="draftsman::Blueprint", params={"args": ty.TOpaque("a")}, effect=lambda ex, a: _SObj3(["ExternalBlueprint"], "new_blueprint", fields={"entities": Opaque("entity list")}, lazy=True),
                                   verify=False, note="ASSUMED (draftsman): an empty blueprint")},
    dynamic_types={"self": {"entity_factory": ty.TObj("PlanEntityEmitter", only=("PlanEntityEmitter",)), "diagnostics": ty.TOpaque("diag")}},
    properties=("C07", "C09"), min_obligations=4, no_replay=True, note="plan of two placements"))


CE = {}


def _ce_reset(a):
    CE.clear()
    return True


def _ce_rec(kind, ret=None):
    def eff(ex, a):
        CE.setdefault(kind, []).append(a)
        return ret(ex, a) if ret else None
    return eff


def _new_entity(ex, a):
    e = _SObj3(["ExternalEntity"], "fresh_entity", lazy=False)
    e._fields["__new_of"] = a.args[0]
    CE.setdefault("new", []).append(e)
    return e


def _deepcopy(ex, a):
    e = _SObj3(["ExternalEntity"], "copied_entity", lazy=False)
    e._fields["__copy_of"] = a.args[0]
    CE.setdefault("copied", []).append(e)
    return e


def _create_post(kind):
    def post(a, res):
        p = a.placement
        props = p.properties
        if kind == "template":
            if not (len(CE.get("copied", [])) == 1 and res is CE["copied"][0] and res._fields["__copy_of"] is props["entity_obj"] and not CE.get("new") and not CE.get("configured")):
                return False
        else:
            if not (len(CE.get("new", [])) == 1 and res is CE["new"][0] and res._fields["__new_of"] is p.entity_type and not CE.get("copied")):
                return False
            conf = CE.get("configured", [])
            want = {"decider-combinator": "decider", "arithmetic-combinator": "arithmetic", "constant-combinator": "constant"}[kind]
            if not (len(conf) == 1 and conf[0][0] == want and conf[0][1].entity is res and conf[0][1].props is props):
                return False
        writes = CE.get("writes", [])
        pw = props.get("property_writes")
        if pw:
            if not (len(writes) == 1 and writes[0].entity is res and writes[0].property_writes is pw and writes[0].placement is p):
                return False
        elif writes:
            return False
        desc = CE.get("described", [])
        if not (len(desc) == 1 and res._fields.get("player_description") is a.placement._fields.get("@description")):
            return False
        ok_pos = (res._fields.get("position") is p.position) if p.position is not None else ("position" not in res._fields)
        return res._fields.get("id") is p.ir_node_id and ok_pos
    return post


def _ce_conf(kind):
    def eff(ex, a):
        CE.setdefault("configured", []).append((kind, a))
        return None
    return eff


def _ce_describe(ex, a):
    CE.setdefault("described", []).append(a.debug_info)
    return ghost(ex.args_ns.placement, "description", ty.Str)


_CE_USES = {"opaque.deepcopy": Contract(qualname="copy::deepcopy", params={"args": ty.TOpaque("a")}, effect=_deepcopy, verify=False, note="ASSUMED (stdlib): an equal, independent copy"),
            "opaque.new_entity": Contract(qualname="draftsman::new_entity", params={"args": ty.TOpaque("a")}, effect=_new_entity, verify=False, note="ASSUMED (draftsman): a default entity of that prototype"),
            "PlanEntityEmitter._configure_decider": Contract(qualname=PE + "_configure_decider", params={"self": ty.TOpaque("s"), "entity": ty.TOpaque("e"), "props": ty.TOpaque("p")},
                                                             effect=_ce_conf("decider"), verify=False, note="proved above"),
            "PlanEntityEmitter._configure_arithmetic": Contract(qualname=PE + "_configure_arithmetic", params={"self": ty.TOpaque("s"), "entity": ty.TOpaque("e"), "props": ty.TOpaque("p")},
                                                                effect=_ce_conf("arithmetic"), verify=False, note="proved above"),
            "PlanEntityEmitter._configure_constant": Contract(qualname=PE + "_configure_constant", params={"self": ty.TOpaque("s"), "entity": ty.TOpaque("e"), "props": ty.TOpaque("p")},
                                                              effect=_ce_conf("constant"), verify=False, note="proved in contracts.c11"),
            "PlanEntityEmitter._apply_property_writes": Contract(qualname=PE + "_apply_property_writes", params={"self": ty.TOpaque("s"), "entity": ty.TOpaque("e"), "property_writes": ty.TOpaque("w"),
                                                                                                                  "placement": ty.TOpaque("p")},
                                                                 effect=_ce_rec("writes"), verify=False, note="entity conditions (C06: S3 scope with every prototype, bounded)"),
            "fn:format_entity_description": Contract(qualname="dsl_compiler/src/emission/entity_emitter.py::format_entity_description", params={"debug_info": ty.TOpaque("a")}, effect=_ce_describe, verify=False,
                                                     note="description text of the debug info (C20: box)")}
_PW = ty.TUnion((ty.TNone(), ty.TConcrete({}), ty.TConcrete({"enable": {"type": "constant", "value": 1}})))
for _kind in ("template", "decider-combinator", "arithmetic-combinator", "constant-combinator"):
    _props = [("property_writes", _PW), ("debug_info", ty.TConcrete({"variable": "x"}))]
    if _kind == "template":
        _props.append(("entity_obj", ty.TObj("ExternalEntity", only=("ExternalEntity",))))
    CONTRACTS.append(Contract(
        qualname=PE + "create_entity",
        params={"self": ty.TObj("PlanEntityEmitter", only=("PlanEntityEmitter",)),
                "placement": ty.TObj("EntityPlacement", only=("EntityPlacement",), ftypes=(("entity_type", ty.TConcrete(_kind if _kind != "template" else "small-lamp")), ("ir_node_id", ty.Str),
                                                                                          ("position", ty.TOpt(ty.TObj("Position", only=("ExternalPosition",)))), ("properties", ty.TRecord(tuple(_props)))))},
        requires=[("(reset)", _ce_reset)],
        ensures=[("a copy of the template, or a new entity of the placement's type configured by its combinator rule; property writes applied when present; description, id and position "
                  "are the placement's", _create_post(_kind))],
        uses=_CE_USES, dynamic_types={"self": {"diagnostics": ty.TOpaque("diag")}}, properties=("C07", "C09", "C20"), min_obligations=3, no_replay=True,
        note="user entity (template)" if _kind == "template" else _kind))
CONTRACTS += [v for v in _CE_USES.values() if isinstance(v, Contract) and v not in CONTRACTS and not v.qualname.startswith(PE)]
