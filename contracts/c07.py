"""K8 contracts (C01/C07): the decider condition the emitter configures denotes the placement's comparison."""
from __future__ import annotations

import z3

from pyvc import types as ty
from pyvc.contract import Contract
from pyvc.values import Opaque
from spec import arith32 as A
from spec import ops
from spec.ops import And, Implies, Not, Or

PE = "dsl_compiler/src/emission/entity_emitter.py::PlanEntityEmitter."
CMPS = ["<", "<=", ">", ">=", "==", "!=", "=", "≤", "≥", "≠"]
_OPERAND = ty.TUnion((ty.Int, ty.Str))
LW, RW = frozenset({"L-wires"}), frozenset({"R-wires"})
CAP = {}
_val = z3.Function("signal_value", z3.StringSort(), z3.IntSort())


def _cond_effect(ex, a):
    CAP["condition"] = dict(a.kwargs)
    return Opaque("Condition")


def _out_effect(ex, a):
    CAP["output"] = dict(a.kwargs)
    return Opaque("Output")


cond_ctor = Contract(qualname="draftsman::DeciderCombinator.Condition", params={"kwargs": ty.TOpaque("kw")}, effect=_cond_effect, verify=False,
                     note="ASSUMED (draftsman): Condition(**kw) stores first_signal / comparator / constant | second_signal / *_networks as given")
out_ctor = Contract(qualname="draftsman::DeciderCombinator.Output", params={"kwargs": ty.TOpaque("kw")}, effect=_out_effect, verify=False,
                    note="ASSUMED (draftsman): Output(**kw) stores signal / copy_count_from_input / constant / networks as given")


def _s(x):
    return z3.StringVal(x) if isinstance(x, str) else x


def _is_str(x):
    return isinstance(x, str) or (ops.is_sym(x) and z3.is_string(x))


def _meaning(x):
    return _val(_s(x)) if _is_str(x) else x


def _post_for(op):
    def post(a, res):
        p = a.props
        left, right = p["left_operand"], p["right_operand"]
        kw = CAP["condition"]
        src_truth = A.cmp(op, _meaning(left), _meaning(right))
        first = _val(_s(kw["first_signal"]))
        second = _val(_s(kw["second_signal"])) if "second_signal" in kw else kw["constant"]
        em_truth = A.cmp(kw["comparator"], first, second)
        swapped = (not _is_str(left)) and _is_str(right)
        nets = []
        if _is_str(left) or swapped:
            nets.append(kw.get("first_signal_networks") is (RW if swapped else LW))
        if "second_signal" in kw:
            nets.append(kw.get("second_signal_networks") is (LW if swapped else RW))
        return And(ops.Iff(em_truth, src_truth), *nets)
    return post


def _both_const(a, res):
    p = a.props
    return (not _is_str(p["left_operand"])) and (not _is_str(p["right_operand"]))


def _props(op):
    return ty.TRecord((("conditions", ty.TConcrete(None)), ("multi_conditions", ty.TConcrete(None)), ("operation", ty.TConcrete(op)),
                       ("left_operand", _OPERAND), ("right_operand", _OPERAND), ("output_signal", ty.Str), ("output_value", _OPERAND),
                       ("copy_count_from_input", ty.Bool), ("left_operand_wires", ty.TConcrete(LW)), ("right_operand_wires", ty.TConcrete(RW)),
                       ("output_value_wires", ty.TConcrete(None))))


def _out_post(a, res):
    p = a.props
    o = CAP["output"]
    ov = p["output_value"]
    ok = And(o["signal"] is p["output_signal"], o["copy_count_from_input"] is p["copy_count_from_input"])
    if not _is_str(ov):
        ok = And(ok, Implies(Not(p["copy_count_from_input"]), ("constant" in o) and o.get("constant") is ov))
    return ok


CONTRACTS = []
for _op in CMPS:
    CONTRACTS.append(Contract(
        qualname=PE + "_configure_decider",
        params={"self": ty.TObj("PlanEntityEmitter", only=("PlanEntityEmitter",)), "entity": ty.TObj("ExternalDeciderCombinator"), "props": _props(_op)},
        ensures=[(f"emitted condition means `left {_op} right` and each operand keeps its wire selection", _post_for(_op)),
                 ("output signal, mode and constant are the placement's", _out_post)],
        known={f"emitted condition means `left {_op} right` and each operand keeps its wire selection": [("KF-C01-noopt-constant-comparison", _both_const)]},
        uses={"opaque.Condition": cond_ctor, "opaque.Output": out_ctor, "PlanEntityEmitter._wires_to_network_selection": "skip"},
        properties=("C01", "C07"), min_obligations=4, no_replay=True,
        note=f"operation = {_op}",
    ))
CONTRACTS += [cond_ctor, out_ctor]
TRUSTED = ["signal_value: the value a signal name has on the wires the operand selects (uninterpreted); a decider condition is first CMP second"]
