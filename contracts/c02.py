"""C02 contracts: bundle operations in the IR builder.

IRBuilder.bundle_arithmetic: `bundle OP x` becomes ONE each-combinator: operator OP, left = `each` over the bundle's
producer, right = x unchanged, output `each`; when x is a signal the node is flagged for wire separation (the scalar must not
be iterated by `each`); the result is a bundle with exactly the members of the input bundle, produced by that node."""
from __future__ import annotations

import z3

from pyvc import types as ty
from pyvc.contract import Contract
from pyvc.ghost import isa
from pyvc.values import SObj, fresh_name
from spec.ops import And, Implies, Not, Or

IRB = "dsl_compiler/src/ir/builder.py::IRBuilder."
_OPQ = ty.TOpaque("x")
ADDED = []


def _add_op(ex, a):
    ADDED.append(a.op)
    return None


add_operation = Contract(qualname=IRB + "add_operation", params={"self": _OPQ, "op": _OPQ}, effect=_add_op, verify=False, note="appends the node to the IR (recorded)")
next_id = Contract(qualname=IRB + "next_id", params={"self": _OPQ, "prefix": _OPQ}, effect=lambda ex, a: z3.String(fresh_name("node_id")), verify=False, note="fresh node id")


def _ba_post(a, res):
    if len(ADDED) != 1:
        return False
    n = ADDED[0]
    operand = a.operand
    is_sig = isinstance(operand, SObj) and "SignalRef" in operand._cls_set
    cs = [isa(n, "IRArith"), n.op is a.op, n.output_type == "signal-each",
          isa(n.left, "SignalRef"), n.left.signal_type == "signal-each", n.left.source_id is a.bundle.source_id,
          n.right is operand, bool(n.needs_wire_separation) == is_sig,
          isa(res, "BundleRef"), res.source_id is n.node_id, res.signal_types == a.bundle.signal_types, res.signal_types is not a.bundle.signal_types]
    return And(*[c for c in cs])


bundle_arith = Contract(
    qualname=IRB + "bundle_arithmetic",
    params={"self": ty.TObj("IRBuilder", only=("IRBuilder",)), "op": ty.Str,
            "bundle": ty.TObj("BundleRef", only=("BundleRef",), ftypes=(("signal_types", ty.TConcrete({"signal-A", "signal-B"})), ("source_id", ty.Str))),
            "operand": ty.TUnion((ty.Int, ty.TObj("SignalRef", only=("SignalRef",)))), "source_ast": ty.TConcrete(None)},
    requires=[("(reset)", lambda a: ADDED.clear() or True)],
    ensures=[("one each-combinator: same operator, each over the bundle, operand unchanged, separation flag iff the operand is a signal; result = same members", _ba_post)],
    uses={"IRBuilder.add_operation": add_operation, "IRBuilder.next_id": next_id},
    properties=("C02",), min_obligations=2, no_replay=True,
)
CONTRACTS = [bundle_arith, add_operation, next_id]

# =================================================================================================
# The scalar constructors of the IR builder (used BY CONTRACT in every K3 lowering proof): each appends exactly one node
# carrying exactly the given operator / operands / value / output type / mode and returns a reference to THAT node on the
# output type.  With these proved, "the IR builder's constructors" is no longer an assumption of the K3 contracts.
# =================================================================================================
_VR = ty.TUnion((ty.Int, ty.TObj("SignalRef", only=("SignalRef",))))


def _ref_ok(res, n, t):
    return And(isa(res, "SignalRef"), res.source_id is n.node_id, res.signal_type is t)


def _const_post(a, res):
    if len(ADDED) != 1:
        return False
    n = ADDED[0]
    return And(isa(n, "IRConst"), n.value is a.value, n.output_type is a.signal_type, _ref_ok(res, n, a.signal_type))


def _arith_post(a, res):
    if len(ADDED) != 1:
        return False
    n = ADDED[0]
    return And(isa(n, "IRArith"), n.op is a.op, n.left is a.left, n.right is a.right, n.output_type is a.output_type, _ref_ok(res, n, a.output_type))


def _decider_post(a, res):
    if len(ADDED) != 1:
        return False
    n = ADDED[0]
    # a wildcard (any / all) next to another signal — the value compared with or the value copied to the output — is flagged for
    # wire separation (that signal must not be ranged over by the wildcard); no other decider is
    md = n.debug_metadata
    l, r, ov = a.left, a.right, a.output_value
    flagged = md.get("needs_wire_separation") is True
    if isinstance(l, SObj) and (isinstance(r, SObj) or isinstance(ov, SObj)):
        wild = Or(l.signal_type == "signal-anything", l.signal_type == "signal-everything")
        sep = wild if flagged else Not(wild)
        if flagged and isinstance(r, SObj):
            sep = And(sep, md.get("scalar_signal_id") is r.source_id)
    else:
        sep = not md
    return And(isa(n, "IRDecider"), n.test_op is a.test_op, n.left is a.left, n.right is a.right, n.output_value is a.output_value,
               n.copy_count_from_input is a.copy_count_from_input, n.output_type is a.output_type, len(n.conditions) == 0, _ref_ok(res, n, a.output_type), sep)


def _multi_post(a, res):
    if len(ADDED) != 1:
        return False
    n = ADDED[0]
    conds = a.conditions
    if len(n.conditions) != len(conds):
        return False
    cs = [isa(n, "IRDecider"), n.output_value is a.output_value, n.copy_count_from_input is a.copy_count_from_input, n.output_type is a.output_type,
          _ref_ok(res, n, a.output_type)]
    for i, (row, (cmp_, l, r)) in enumerate(zip(n.conditions, conds)):
        cs += [row.comparator is cmp_, row.first_operand is l, row.second_operand is r, row.compare_type == ("or" if i == 0 else a.combine_type)]
    return And(*cs)


_SELF_B = ty.TObj("IRBuilder", only=("IRBuilder",))
_RESET = [("(reset)", lambda a: ADDED.clear() or True)]
_U = {"IRBuilder.add_operation": add_operation, "IRBuilder.next_id": next_id}
CONTRACTS += [
    Contract(qualname=IRB + "const", params={"self": _SELF_B, "signal_type": ty.Str, "value": ty.Int, "source_ast": ty.TConcrete(None)}, requires=_RESET,
             ensures=[("one IRConst with this value on this type; the reference points to it", _const_post)], uses=_U, properties=("C01", "C02", "C11"), min_obligations=1, no_replay=True),
    Contract(qualname=IRB + "arithmetic", params={"self": _SELF_B, "op": ty.Str, "left": _VR, "right": _VR, "output_type": ty.Str, "source_ast": ty.TConcrete(None)}, requires=_RESET,
             ensures=[("one IRArith with this operator and these operands on this type; the reference points to it", _arith_post)], uses=_U, properties=("C01", "C02"), min_obligations=1, no_replay=True),
    Contract(qualname=IRB + "decider", params={"self": _SELF_B, "test_op": ty.Str, "left": _VR, "right": _VR, "output_value": _VR, "output_type": ty.Str,
                                               "source_ast": ty.TConcrete(None), "copy_count_from_input": ty.Bool}, requires=_RESET,
             ensures=[("one single-condition IRDecider with this comparison, output value and mode on this type; the reference points to it; flagged for wire separation exactly when a wildcard "
                       "(any / all) stands next to another signal", _decider_post)],
             uses=_U, properties=("C01", "C02"), min_obligations=1, no_replay=True),
    Contract(qualname=IRB + "decider_multi",
             params={"self": _SELF_B, "conditions": ty.TTuple((ty.TTuple((ty.Str, _VR, _VR)), ty.TTuple((ty.Str, _VR, _VR)), ty.TTuple((ty.Str, _VR, _VR)))),
                     "combine_type": ty.Str, "output_value": _VR, "output_type": ty.Str, "source_ast": ty.TConcrete(None), "copy_count_from_input": ty.Bool}, requires=_RESET,
             ensures=[("one IRDecider with one row per tuple, in order, rows after the first combined with combine_type", _multi_post)],
             uses=_U, properties=("C01",), min_obligations=1, no_replay=True, note="three rows (bounded list length)"),
]


# =================================================================================================
# LayoutPlanner._inject_output_value_wire_color: a copy-mode decider (bundle gate / conditional value) must copy from the wire
# that DELIVERS the copied value.  The edge of a bundle source may be registered under `signal-everything` (a gate's own
# output) or under `signal-each` (constants, each-results, filters); for a wire-merged bundle the value arrives on its
# members' wires.  Concrete scenarios (one gate, its source(s), a recorded edge colour).
# =================================================================================================
LPQ = "dsl_compiler/src/layout/planner.py::LayoutPlanner."


def _ovw_contract(tag, output_value, edge_colors, merges, want):
    def resolve(ex, a):
        sid = a.signal_id
        return sid.source_id if isinstance(sid, SObj) else None

    def get_color(ex, a):
        key = (a.source_entity, a.sink_entity, a.signal_name) if hasattr(a, "source_entity") else None
        return edge_colors.get(key, "red")

    sigid = ty.TObj("SignalRef", only=("SignalRef",), ftypes=(("source_id", ty.TConcrete("SRC")),))
    props = {"copy_count_from_input": True, "output_value": output_value}

    def post(a, res):
        return a.placement.properties.get("output_value_wires") == want

    def set_props(a):
        a.placement.properties["output_value_signal_id"] = a.self._scenario_ref
        return True

    return Contract(
        qualname=LPQ + "_inject_output_value_wire_color",
        params={"self": ty.TObj("LayoutPlanner", only=("LayoutPlanner",)),
                "placement": ty.TObj("EntityPlacement", only=("EntityPlacement",), ftypes=(("properties", ty.TConcrete(dict(props))), ("ir_node_id", ty.TConcrete("GATE")))),
                "injected_count": ty.TConcrete(0)},
        requires=[("(scenario reference)", set_props)],
        ensures=[(f"the gate copies from {sorted(want)}", post)],
        uses={"LayoutPlanner._resolve_source_entity": Contract(qualname=LPQ + "_resolve_source_entity", params={"self": ty.TOpaque("s"), "signal_id": ty.TOpaque("i")}, effect=resolve, verify=False,
                                                               note="the entity that produces the referenced value"),
              "ConnectionPlanner.get_wire_color_for_edge": Contract(qualname="dsl_compiler/src/layout/connection_planner.py::ConnectionPlanner.get_wire_color_for_edge",
                                                                    params={"self": ty.TOpaque("c"), "source_entity": ty.TOpaque("a"), "sink_entity": ty.TOpaque("b"), "signal_name": ty.TOpaque("n")},
                                                                    effect=get_color, verify=False, note="recorded colour of the edge, red when unknown"),
              "opaque.info": "skip"},
        dynamic_types={"self": {"connection_planner": ty.TObj("ConnectionPlanner", only=("ConnectionPlanner",)), "_wire_merge_junctions": ty.TConcrete(dict(merges)),
                                "_scenario_ref": sigid, "diagnostics": ty.TOpaque("diag")},
                       "self.connection_planner": {"_edge_wire_colors": ty.TConcrete(dict(edge_colors))}},
        properties=("C02", "C01"), min_obligations=1, no_replay=True, note=tag)


CONTRACTS += [
    _ovw_contract("gate over a constant bundle (edge under signal-each, green)", "signal-everything", {("SRC", "GATE", "signal-each"): "green"}, {}, {"green"}),
    _ovw_contract("gate over another gate (edge under signal-everything, green)", "signal-everything", {("SRC", "GATE", "signal-everything"): "green"}, {}, {"green"}),
    _ovw_contract("conditional value on a named signal (edge under its own name, green)", "signal-A", {("SRC", "GATE", "signal-A"): "green"}, {}, {"green"}),
    _ovw_contract("no recorded edge: default red", "signal-A", {}, {}, {"red"}),
]


# =================================================================================================
# The remaining constructors of the IR builder: bundle constant, bundle filter, bundle gate, wire merge, memory nodes,
# latch write and entity placement.  Each appends exactly ONE node carrying exactly what it was given and (where it
# returns a reference) the reference is to THAT node with the members / type stated.
#   bundle_const           node: constant over a COPY of the given signal map, nominal type signal-each; members = the map's keys
#   bundle_decider         `bundle CMP x`: each-decider, left = each over the bundle's producer, right = x, output each,
#                          mode / constant as given; separation flag iff x is a signal; same members
#   bundle_gating_decider  `(l CMP r) : bundle`: decider l CMP r whose output is everything — copied from the bundle's producer
#                          in copy mode, else the constant; separation recorded iff l is a signal; same members
#   wire_merge             merge node over the given sources in order on the given type
#   memory_create / read / write, latch_write, place_entity: the node carries every argument unchanged
# =================================================================================================
_BUNDLE = ty.TObj("BundleRef", only=("BundleRef",), ftypes=(("signal_types", ty.TConcrete({"signal-A", "signal-B"})), ("source_id", ty.Str)))


def _bundle_ok(res, n, bundle):
    return And(isa(res, "BundleRef"), res.source_id is n.node_id, res.signal_types == bundle.signal_types, res.signal_types is not bundle.signal_types)


def _bconst_post(a, res):
    if len(ADDED) != 1:
        return False
    n = ADDED[0]
    sig = a.signals
    k = z3.String("k")
    same_map = z3.ForAll([k], And(z3.Select(n.signals.present, k) == z3.Select(sig.present, k), z3.Select(n.signals.vals, k) == z3.Select(sig.vals, k)))
    members = z3.ForAll([k], z3.Select(res.signal_types.member, k) == z3.Select(sig.present, k))
    return And(isa(n, "IRConst"), n.output_type == "signal-each", same_map, n.signals is not sig, isa(res, "BundleRef"), res.source_id is n.node_id, members)


def _bdecider_post(a, res):
    if len(ADDED) != 1:
        return False
    n = ADDED[0]
    cv = a.compare_value
    is_sig = isinstance(cv, SObj)
    md = n.debug_metadata
    return And(isa(n, "IRDecider"), n.test_op is a.op, isa(n.left, "SignalRef"), n.left.signal_type == "signal-each", n.left.source_id is a.bundle.source_id,
               n.right is cv, n.output_type == "signal-each", n.copy_count_from_input is a.copy_count_from_input, n.output_value is a.output_value,
               (md.get("needs_wire_separation") is True and md.get("scalar_signal_id") is cv.source_id) if is_sig else ("needs_wire_separation" not in md),
               _bundle_ok(res, n, a.bundle))


def _bgate_post(a, res):
    if len(ADDED) != 1:
        return False
    n = ADDED[0]
    md = n.debug_metadata
    left_sig = isinstance(a.left, SObj)
    copy = a.copy_count_from_input
    ov = n.output_value
    if isinstance(ov, SObj):
        ov_ok = And(copy, isa(ov, "SignalRef"), ov.signal_type == "signal-everything", ov.source_id is a.bundle.source_id)
    else:
        ov_ok = And(Not(copy), ov is a.output_value)
    return And(isa(n, "IRDecider"), n.test_op is a.op, n.left is a.left, n.right is a.right, n.output_type == "signal-everything", n.copy_count_from_input is copy, ov_ok,
               (md.get("needs_wire_separation") is True and md.get("condition_signal_id") is a.left.source_id and md.get("bundle_source_id") is a.bundle.source_id)
               if left_sig else ("needs_wire_separation" not in md),
               _bundle_ok(res, n, a.bundle))


def _merge_post(a, res):
    if len(ADDED) != 1:
        return False
    n = ADDED[0]
    srcs = list(a.sources)
    return And(isa(n, "IRWireMerge"), n.output_type is a.output_type, isinstance(n.sources, list) and len(n.sources) == len(srcs) and all(x is y for x, y in zip(n.sources, srcs)),
               isa(res, "SignalRef"), res.source_id is n.node_id, res.signal_type is a.output_type)


def _one(kind, fields):
    def post(a, res):
        if len(ADDED) != 1:
            return False
        n = ADDED[0]
        cs = [isa(n, kind)]
        for node_field, arg in fields:
            cs.append(getattr(n, node_field) is getattr(a, arg))
        return And(*cs)
    return post


def _memread_post(a, res):
    base = _one("IRMemRead", (("memory_id", "memory_id"), ("output_type", "signal_type")))(a, res)
    if base is False:
        return False
    n = ADDED[0]
    return And(base, isa(res, "SignalRef"), res.source_id is n.node_id, res.signal_type is a.signal_type)


def _returns_node(post):
    return lambda a, res: And(post(a, res), res is ADDED[0]) if len(ADDED) == 1 else False


_SRC2 = ty.TObj("SignalRef", only=("SignalRef",))
_NONE = ty.TConcrete(None)
CONTRACTS += [
    Contract(qualname=IRB + "bundle_const", params={"self": _SELF_B, "signals": ty.TDict(ty.Str, ty.Int), "source_ast": _NONE}, requires=_RESET,
             ensures=[("one constant node over a copy of the map; the bundle's members are the map's keys", _bconst_post)], uses=_U, properties=("C02",), min_obligations=1, no_replay=True),
    Contract(qualname=IRB + "bundle_decider", params={"self": _SELF_B, "op": ty.Str, "bundle": _BUNDLE, "compare_value": _VR, "copy_count_from_input": ty.Bool, "output_value": ty.Int,
                                                      "source_ast": _NONE}, requires=_RESET,
             ensures=[("one each-decider: same comparison against x, mode and constant as given, separation iff x is a signal; same members", _bdecider_post)],
             uses=_U, properties=("C02",), min_obligations=2, no_replay=True),
    Contract(qualname=IRB + "bundle_gating_decider", params={"self": _SELF_B, "op": ty.Str, "left": _VR, "right": _VR, "bundle": _BUNDLE, "copy_count_from_input": ty.Bool,
                                                             "output_value": ty.Int, "source_ast": _NONE}, requires=_RESET, case_split={},
             ensures=[("one decider l CMP r outputting everything, copied from the bundle's producer (copy mode) or the constant; same members", _bgate_post)],
             uses=_U, properties=("C02",), min_obligations=2, no_replay=True),
    Contract(qualname=IRB + "wire_merge", params={"self": _SELF_B, "sources": ty.TTuple((_SRC2, _SRC2, _SRC2)), "output_type": ty.Str, "source_ast": _NONE}, requires=_RESET,
             ensures=[("one merge node over the sources in order on the given type; the reference points to it", _merge_post)], uses={**_U, "IRWireMerge.add_source": "inline"}, properties=("C01", "C02", "C12"),
             min_obligations=1, no_replay=True, note="three sources (bounded list length)"),
    Contract(qualname=IRB + "memory_create", params={"self": _SELF_B, "memory_id": ty.Str, "signal_type": ty.Str, "source_ast": _NONE, "memory_type": ty.Str}, requires=_RESET,
             ensures=[("one IRMemCreate with this id, type and kind", _one("IRMemCreate", (("memory_id", "memory_id"), ("signal_type", "signal_type"), ("memory_type", "memory_type"))))],
             uses=_U, properties=("C03", "C05"), min_obligations=1, no_replay=True),
    Contract(qualname=IRB + "memory_read", params={"self": _SELF_B, "memory_id": ty.Str, "signal_type": ty.Str, "source_ast": _NONE}, requires=_RESET,
             ensures=[("one IRMemRead of this cell on this type; the reference points to it", _memread_post)], uses=_U, properties=("C03", "C04"), min_obligations=1, no_replay=True),
    Contract(qualname=IRB + "memory_write", params={"self": _SELF_B, "memory_id": ty.Str, "data_signal": _VR, "write_enable": _VR, "source_ast": _NONE}, requires=_RESET,
             ensures=[("one IRMemWrite of this cell with this data and this enable, returned",
                       _returns_node(_one("IRMemWrite", (("memory_id", "memory_id"), ("data_signal", "data_signal"), ("write_enable", "write_enable")))))],
             uses=_U, properties=("C03", "C04"), min_obligations=1, no_replay=True),
    Contract(qualname=IRB + "latch_write", params={"self": _SELF_B, "memory_id": ty.Str, "value": _VR, "set_signal": _VR, "reset_signal": _VR, "latch_type": ty.Str, "source_ast": _NONE,
                                                   "set_condition": ty.TOpt(ty.TTuple((_SRC2, ty.Str, ty.Int))), "reset_condition": ty.TOpt(ty.TTuple((_SRC2, ty.Str, ty.Int)))},
             requires=_RESET,
             ensures=[("one IRLatchWrite with this value, set, reset, priority and inline conditions (set and reset not exchanged), returned",
                       _returns_node(_one("IRLatchWrite", (("memory_id", "memory_id"), ("value", "value"), ("set_signal", "set_signal"), ("reset_signal", "reset_signal"),
                                                           ("latch_type", "latch_type"), ("set_condition", "set_condition"), ("reset_condition", "reset_condition")))))],
             uses=_U, properties=("C05",), min_obligations=1, no_replay=True),
    Contract(qualname=IRB + "place_entity", params={"self": _SELF_B, "entity_id": ty.Str, "prototype": ty.Str, "x": _VR, "y": _VR, "properties": ty.TOpt(ty.TDict(ty.Str, ty.Int)),
                                                    "source_ast": _NONE}, requires=_RESET,
             ensures=[("one IRPlaceEntity with this id, prototype and coordinates (x and y not exchanged)",
                       _one("IRPlaceEntity", (("entity_id", "entity_id"), ("prototype", "prototype"), ("x", "x"), ("y", "y"))))],
             uses=_U, properties=("C09",), min_obligations=1, no_replay=True),
]


# =================================================================================================
# LayoutPlanner._determine_locked_wire_colors — the colour constraints that keep operands apart:
#   a gated cell        its two gates emit the cell's signal on RED, the write-enable signal-W is delivered on GREEN, the data is
#                       delivered to the write gate on RED (so data and enable never meet on one wire)
#   a folded cell       its self-feedback signal on RED
#   bundle OP signal    the scalar operand is delivered on GREEN (so `each`, reading red, does not iterate over it)
#   (each CMP signal)   the scalar on GREEN;  any(b) / all(b) CMP signal: the scalar on GREEN (the wildcard must not range over it)
#   (c) : bundle        the bundle is delivered on GREEN — from its PHYSICAL producer, and, for a wire-merged bundle, from every member
# and nothing else is locked.  Evaluated on the REAL method with real plan / graph / module objects over every subset of these seven
# features (128 plans): bounded.
# =================================================================================================
import itertools as _it2c  # noqa: E402

LWQ = "dsl_compiler/src/layout/planner.py::LayoutPlanner._determine_locked_wire_colors"


def _locked_post(a, res):
    return dict(res) == a.self._scenario["expected"]


locked_colors = Contract(qualname=LWQ, params={"self": ty.TOpaque("planner")},
                         ensures=[("exactly the colour locks of the cells, folded cells and bundle operations of the plan", _locked_post)],
                         verify=False, properties=("C02", "C03", "C04"), note="evaluated on the real method over an enumerated box (bounded stand-in)")
CONTRACTS.append(locked_colors)


def locked_colors_arg_sets():
    from dsl_compiler.src.ir.nodes import BundleRef, SignalRef
    from dsl_compiler.src.layout.layout_plan import LayoutPlan
    from dsl_compiler.src.layout.memory_builder import MemoryModule
    from dsl_compiler.src.layout.planner import LayoutPlanner
    from dsl_compiler.src.layout.signal_graph import SignalGraph

    class _Diag:
        def info(self, *a, **k):
            pass
        warning = error = info

    class _Usage:
        def __init__(self, name):
            self.resolved_signal_name = name

    class _Analyzer:
        def __init__(self, usage):
            self.signal_usage = usage

    out = []
    feats = ("cell", "folded", "bundle_arith", "bundle_filter", "bundle_gate", "wildcard_cmp", "wildcard_own_gate")
    for mask in _it2c.product((False, True), repeat=len(feats)):
        on = {f for f, m in zip(feats, mask) if m}
        plan, g, usage, expected, modules, junctions = LayoutPlan(), SignalGraph(), {}, {}, {}, {}

        def place(nid, etype, **props):
            plan.create_and_add_placement(ir_node_id=nid, entity_type=etype, position=None, footprint=(1, 2), role="x", debug_info={}, **props)
            return plan.get_placement(nid)

        # an unrelated computation that must stay unlocked
        place("plain", "arithmetic-combinator", right_operand="signal-Q", right_operand_signal_id=SignalRef("signal-Q", "qsrc"))
        g.set_source("qsrc", "qsrc"); g.add_sink("qsrc", "plain"); usage["qsrc"] = _Usage("signal-Q")
        if "cell" in on:
            wg, hg = place("cell_write", "decider-combinator"), place("cell_hold", "decider-combinator")
            m = MemoryModule("cell", "signal-M"); m.write_gate, m.hold_gate = wg, hg
            modules["cell"] = m
            g.set_source("data_node", "data_ent"); g.add_sink("data_node", "cell_write"); usage["data_node"] = _Usage("signal-M")
            g.set_source("enable_node", "enable_ent"); g.add_sink("enable_node", "cell_write"); g.add_sink("enable_node", "cell_hold"); usage["enable_node"] = _Usage("signal-W")
            g.set_source("cell", "cell_hold"); g.add_sink("cell", "cell_write"); usage["cell"] = _Usage("signal-M")
            expected.update({("cell_write", "signal-M"): "red", ("cell_hold", "signal-M"): "red", ("enable_ent", "signal-W"): "green", ("data_ent", "signal-M"): "red"})
        if "folded" in on:
            place("counter", "arithmetic-combinator", has_self_feedback=True, feedback_signal="signal-C")
            m2 = MemoryModule("folded", "signal-C"); m2.optimization = "arithmetic_feedback"; m2.write_gate = place("folded_write", "decider-combinator")
            modules["folded"] = m2
            expected[("counter", "signal-C")] = "red"
        if "bundle_arith" in on:
            place("each_mul", "arithmetic-combinator", needs_wire_separation=True, right_operand="signal-K", right_operand_signal_id=SignalRef("signal-K", "ksrc"))
            expected[("ksrc", "signal-K")] = "green"
        if "bundle_filter" in on:
            place("each_cmp", "decider-combinator", needs_wire_separation=True, left_operand="signal-each", right_operand="signal-T", right_operand_signal_id=SignalRef("signal-T", "tsrc"))
            expected[("tsrc", "signal-T")] = "green"
        if "wildcard_cmp" in on:
            place("all_cmp", "decider-combinator", needs_wire_separation=True, left_operand="signal-everything", right_operand="signal-U", right_operand_signal_id=SignalRef("signal-U", "usrc"),
                  output_value_signal_id=SignalRef("signal-V", "vsrc"))
            usage["vsrc"] = _Usage("signal-V")
            expected[("usrc", "signal-U")] = "green"
            expected[("vsrc", "signal-V")] = "green"   # the copied value stays off the wildcard's wire too
        if "wildcard_own_gate" in on:   # (all(b) > w) : b — the quantified bundle on red like every bundle, the scalar on green like every scalar next to a bundle
            place("own_gate", "decider-combinator", needs_wire_separation=True, left_operand="signal-everything", left_operand_signal_id=SignalRef("signal-everything", "bsrc"),
                  right_operand="signal-W2", right_operand_signal_id=SignalRef("signal-W2", "wsrc"), output_value_signal_id=BundleRef({"signal-A"}, "bsrc"))
            usage["bsrc"] = _Usage("signal-each")
            expected[("wsrc", "signal-W2")] = "green"
            expected[("bsrc", "signal-each")] = "red"
        if "bundle_gate" in on:
            # a plain gate (s CMP c) : b — ONE convention with `b OP s`: the bundle (and every member of a wire-merged bundle) on red, the scalar condition on green
            place("gate", "decider-combinator", needs_wire_separation=True, left_operand="signal-G", left_operand_signal_id=SignalRef("signal-G", "gnode"), right_operand=0,
                  output_value_signal_id=BundleRef({"signal-A"}, "merged_bundle"))
            usage["merged_bundle"] = _Usage("signal-each")
            g.set_source("member_node", "chest")
            g.set_source("gnode", "g_entity")
            junctions["merged_bundle"] = {"inputs": [BundleRef({"signal-A"}, "member_node"), SignalRef("signal-A", "const_member")], "output_id": "merged_bundle"}
            expected.update({("merged_bundle", "signal-each"): "red", ("chest", "signal-each"): "red", ("const_member", "signal-each"): "red", ("g_entity", "signal-G"): "green"})
        lp = object.__new__(LayoutPlanner)
        lp.layout_plan, lp.signal_graph, lp.signal_usage, lp.signal_analyzer = plan, g, usage, _Analyzer(usage)
        lp._memory_modules, lp._wire_merge_junctions, lp.diagnostics = modules, junctions, _Diag()
        lp._scenario = {"features": sorted(on), "expected": expected}
        out.append({"self": lp})
    return out


# =================================================================================================
# LayoutPlanner._inject_wire_colors_into_placements (with _inject_operand_wire_color, _inject_condition_wire_colors,
# _resolve_source_entity): after routing, every signal operand of a combinator is told which wire colour(s) to READ — and these
# are the colours on which the planner actually DELIVERS that operand to this combinator:
#   a plain operand             the colour of the edge (producer, this combinator, operand signal); the producer of a reference whose
#                               node was optimised away is the entity the signal graph resolves it to
#   a member selected from a    the edge is registered under the bundle's name: the one colour of the edges producer -> combinator
#     bundle / entity output
#   a wire-merged operand       every colour one of its members arrives on
#   a condition row's operand   the colour of its own edge (rows that already carry a wire filter keep it)
# integer operands get no filter.  Evaluated on the REAL methods over an enumerated box: bounded.
# =================================================================================================
IWQ = "dsl_compiler/src/layout/planner.py::LayoutPlanner._inject_wire_colors_into_placements"


def _inject_post(a, res):
    me = a.self
    sc = me._scenario
    props = me.layout_plan.get_placement("comb").properties
    ok = []
    for side in ("left", "right"):
        want = sc["expect"].get(side)
        got = props.get(f"{side}_operand_wires")
        ok.append(got == want if want is not None else got is None)
    for i, want in enumerate(sc["expect"].get("rows", [])):
        row = props["conditions"][i]
        ok.append(row.get("first_signal_wires") == want)
    return all(ok)


inject_colors = Contract(qualname=IWQ, params={"self": ty.TOpaque("planner")},
                         ensures=[("each signal operand reads exactly the colour(s) it is delivered on; integers get no filter", _inject_post)],
                         verify=False, properties=("C01", "C02", "C12"), note="evaluated on the real method over an enumerated box (bounded stand-in)")
CONTRACTS.append(inject_colors)


def inject_colors_arg_sets():
    from dsl_compiler.src.ir.nodes import BundleRef, SignalRef
    from dsl_compiler.src.layout.connection_planner import ConnectionPlanner
    from dsl_compiler.src.layout.layout_plan import LayoutPlan
    from dsl_compiler.src.layout.planner import LayoutPlanner
    from dsl_compiler.src.layout.signal_graph import SignalGraph

    class _Diag:
        def info(self, *a, **k):
            pass
        warning = error = info

    out = []
    left_kinds = ("plain", "resolved", "bundle-member", "merged-same", "merged-split", "int")
    for lk, lcol, rk, rcol, etype in _it2c.product(left_kinds, ("red", "green"), ("plain", "int"), ("red", "green"), ("arithmetic-combinator", "decider-combinator")):
        plan, g, junctions, colors, expect = LayoutPlan(), SignalGraph(), {}, {}, {}
        for nid in ("srcA", "srcB", "srcM1", "srcM2", "real_producer"):
            plan.create_and_add_placement(ir_node_id=nid, entity_type="constant-combinator", position=None, footprint=(1, 2), role="literal", debug_info={})
        props = {}
        other = "green" if lcol == "red" else "red"
        if lk == "int":
            props.update(left_operand=7, left_operand_signal_id=None)
        elif lk == "plain":
            props.update(left_operand="signal-A", left_operand_signal_id=SignalRef("signal-A", "srcA"))
            colors[("srcA", "comb", "signal-A")] = lcol
            expect["left"] = {lcol}
        elif lk == "resolved":   # the node that produced the reference is gone; the graph names the combinator that took over
            props.update(left_operand="signal-A", left_operand_signal_id=SignalRef("signal-A", "mem_read_7"))
            g.set_source("mem_read_7", "real_producer")
            colors[("real_producer", "comb", "signal-A")] = lcol
            expect["left"] = {lcol}
        elif lk == "bundle-member":
            props.update(left_operand="signal-A", left_operand_signal_id=SignalRef("signal-A", "srcA"))
            colors[("srcA", "comb", "signal-each")] = lcol
            expect["left"] = {lcol}
        else:
            props.update(left_operand="signal-A", left_operand_signal_id=SignalRef("signal-A", "merge_1"))
            junctions["merge_1"] = {"inputs": [SignalRef("signal-A", "srcM1"), SignalRef("signal-A", "srcM2")], "output_id": "merge_1"}
            colors[("srcM1", "comb", "signal-A")] = lcol
            colors[("srcM2", "comb", "signal-A")] = lcol if lk == "merged-same" else other
            expect["left"] = {lcol} if lk == "merged-same" else {"red", "green"}
        if rk == "int":
            props.update(right_operand=3, right_operand_signal_id=None)
        else:
            props.update(right_operand="signal-B", right_operand_signal_id=SignalRef("signal-B", "srcB"))
            colors[("srcB", "comb", "signal-B")] = rcol
            expect["right"] = {rcol}
        if etype == "decider-combinator":
            props["conditions"] = [
                {"comparator": ">", "compare_type": "or", "first_signal": "signal-B", "first_signal_id": SignalRef("signal-B", "srcB"), "second_constant": 0},
                {"comparator": ">", "compare_type": "and", "first_signal": "signal-S", "first_signal_wires": {"green"}, "second_constant": 0},
            ]
            expect["rows"] = [({rcol} if rk != "int" else None), {"green"}]
            if rk == "int":
                colors.pop(("srcB", "comb", "signal-B"), None)
        plan.create_and_add_placement(ir_node_id="comb", entity_type=etype, position=None, footprint=(1, 2), role="x", debug_info={}, **props)
        cp = object.__new__(ConnectionPlanner)
        cp._edge_wire_colors = dict(colors)
        lp = object.__new__(LayoutPlanner)
        lp.layout_plan, lp.signal_graph, lp.connection_planner, lp._wire_merge_junctions, lp.diagnostics = plan, g, cp, junctions, _Diag()
        lp.signal_usage = {}
        lp._scenario = {"left": lk, "right": rk, "expect": expect}
        out.append({"self": lp})
    return out


# =================================================================================================
# ExpressionLowerer.lower_bundle_literal `{ e1, e2 }` (C02): nothing is lost and nothing invented.
#   every element whose value is a compile-time constant signal literal goes, with THAT value under ITS signal, into ONE constant
#   node; every other element (a computed signal, a nested bundle) is lowered and becomes a source of ONE wire merge, together with
#   the constant node if there is one; a single computed element needs no merge (it is the bundle); the result's members are exactly
#   the signals the elements CARRY (a nested bundle contributes all of its members; inside a function a parameter carries its
#   argument's signal, not the analyser's placeholder) and it refers to the node that carries them all; a signal that appears twice
#   is an ERROR (one per repetition) — also when only the inlining of a call brings the two together.
# Literals of two elements, each a constant literal / a non-constant literal / a computed signal / a nested bundle (bounded), values symbolic.
# =================================================================================================
from pyvc.ghost import ghost as _ghost2  # noqa: E402

ELQ2 = "dsl_compiler/src/lowering/expression_lowerer.py::ExpressionLowerer."
BL = {}
_NAMES = ("signal-A", "signal-B")
_NESTED = {"signal-C", "signal-D"}


def _bl_reset(a):
    BL.clear()
    return True


def _bl_names(ex_or_contract):
    c = getattr(ex_or_contract, "contract", ex_or_contract)
    return getattr(c, "semantic_names", _NAMES), getattr(c, "actual_names", _NAMES)


def _bl_type(kinds):
    def eff(ex, a):
        i = [id(e) for e in ex.args_ns.expr.elements].index(id(a.expr))
        kind = kinds[i]
        _NAMES = _bl_names(ex)[0]   # the type the ANALYSER gave the element (a placeholder for a function parameter)
        if kind == "nested":
            t = SObj(["BundleValue"], fresh_name("btype"), lazy=False)
            t._fields["signal_types"] = set(_NESTED)
            return t
        t = SObj(["SignalValue"], fresh_name("stype"), lazy=False)
        info = SObj(["SignalTypeInfo"], fresh_name("info"), lazy=False)
        info._fields["name"] = _NAMES[i]
        t._fields["signal_type"] = info
        return t
    return eff


def _bl_const(kinds):
    def eff(ex, a):
        for i, e in enumerate(ex.args_ns.expr.elements):
            if "SignalLiteral" not in e._cls_set:
                continue
            if e._fields.get("value") is a.expr or e.value is a.expr:
                if kinds[i] == "const":
                    v = z3.Int(f"literal_value_{i}")
                    BL[("value", i)] = v
                    return v
                return None
        return None
    return eff


def _bl_lower(kinds):
    def eff(ex, a):
        i = [id(e) for e in ex.args_ns.expr.elements].index(id(a.expr))
        if kinds[i] == "nested":
            r = SObj(["BundleRef"], fresh_name("nested_ref"), lazy=False)
            r._fields.update({"signal_types": set(_NESTED), "source_id": z3.String(fresh_name("nested_id"))})
        else:
            r = SObj(["SignalRef"], fresh_name("elem_ref"), lazy=False)
            r._fields.update({"signal_type": _bl_names(ex)[1][i], "source_id": z3.String(fresh_name("elem_id"))})   # the signal the value actually carries
        BL[("lowered", i)] = r
        return r
    return eff


def _bl_bundle_const(ex, a):
    BL["const_map"] = dict(a.signals)
    r = SObj(["BundleRef"], fresh_name("const_bundle"), lazy=False)
    r._fields.update({"signal_types": set(a.signals), "source_id": z3.String(fresh_name("const_id"))})
    BL["const_ref"] = r
    return r


def _bl_merge(ex, a):
    BL["merge_sources"] = list(a.sources)
    BL["merge_type"] = a.output_type
    r = SObj(["SignalRef"], fresh_name("merge_ref"), lazy=False)
    r._fields.update({"signal_type": a.output_type, "source_id": z3.String(fresh_name("merge_id"))})
    BL["merge_ref"] = r
    return r


def _bl_post(kinds, sem=_NAMES, act=_NAMES):
    def post(a, res):
        consts = {sem[i]: BL.get(("value", i)) for i, k in enumerate(kinds) if k == "const"}
        computed = [BL.get(("lowered", i)) for i, k in enumerate(kinds) if k != "const"]
        members, duplicates = set(), 0
        for i, k in enumerate(kinds):
            # a constant literal is a member under the type it is written with, a computed element under the signal it CARRIES
            mine = set(_NESTED) if k == "nested" else ({sem[i]} if k == "const" else {act[i]})
            duplicates += len(mine & members)
            members |= mine
        if any(c is None for c in computed) or any(v is None for v in consts.values()):
            return False
        ok = ["BundleRef" in res._cls_set, len(BL.get("errors", [])) == duplicates]   # every signal once: one error per repeated member
        got_members = set(res.signal_types)
        if consts:
            ok.append(BL.get("const_map") is not None and set(BL["const_map"]) == set(consts) and all(BL["const_map"][k] is v for k, v in consts.items()))
        else:
            ok.append("const_map" not in BL)
        if consts and not computed:
            ok += [res is BL.get("const_ref"), "merge_sources" not in BL]
        elif len(computed) == 1 and not consts:
            ok += ["merge_sources" not in BL, res.source_id is computed[0].source_id, got_members == members]
        else:
            want_sources = ([BL.get("const_ref")] if consts else []) + computed
            ms = BL.get("merge_sources")
            ok += [ms is not None and len(ms) == len(want_sources) and all(x is y for x, y in zip(ms, want_sources)), BL.get("merge_type") == "bundle",
                   BL.get("merge_ref") is not None and res.source_id is BL["merge_ref"].source_id, got_members == members]
        return all(ok)
    return post


_BL_SCENARIOS = [(k, _NAMES, _NAMES, "") for k in _it2c.product(("const", "literal", "computed", "nested"), repeat=2)]
# inside a function: the analyser types a parameter by a placeholder, the lowered value carries the argument's signal
_PH = ("__v1", "__v2")
_BL_SCENARIOS += [(("computed", "computed"), _PH, ("signal-A", "signal-B"), "; parameters carrying different signals"),
                  (("computed", "computed"), _PH, ("signal-A", "signal-A"), "; parameters carrying the SAME signal"),
                  (("const", "computed"), ("signal-A", "__v2"), ("signal-A", "signal-A"), "; a parameter carrying the literal's signal"),
                  (("nested", "computed"), _PH, ("signal-A", "signal-C"), "; a parameter carrying a member of the nested bundle"),
                  (("computed", "nested"), _PH, ("signal-D", "signal-B"), "; a nested bundle with a member the parameter carries")]
for _kinds, _sem, _act, _extra in _BL_SCENARIOS:
    _elem_t = []
    for _k in _kinds:
        if _k in ("const", "literal"):
            _elem_t.append(ty.TObj("SignalLiteral", only=("SignalLiteral",), ftypes=(("signal_type", ty.TConcrete("given")), ("value", ty.TObj("Expr", only=("NumberLiteral", "BinaryOp"))))))
        elif _k == "computed":
            _elem_t.append(ty.TObj("Expr", only=("IdentifierExpr", "BinaryOp")))
        else:
            _elem_t.append(ty.TObj("Expr", only=("IdentifierExpr", "BundleLiteral")))
    CONTRACTS.append(Contract(
        qualname=ELQ2 + "lower_bundle_literal",
        params={"self": ty.TObj("ExpressionLowerer", only=("ExpressionLowerer",)), "expr": ty.TObj("BundleLiteral", only=("BundleLiteral",), ftypes=(("elements", ty.TTuple(tuple(_elem_t))),))},
        requires=[("(reset capture)", _bl_reset)],
        ensures=[("constant literals in one constant node with their values, every other element a source of one merge, members = the signals the elements carry, "
                  "one error per signal that appears twice", _bl_post(_kinds, _sem, _act))],
        uses={"opaque.get_expr_type": Contract(qualname="dsl_compiler/src/semantic/analyzer.py::SemanticAnalyzer.get_expr_type", params={"self": _OPQ, "expr": _OPQ},
                                               effect=(lambda k: (lambda ex, a: _bl_type(k)(ex, type("NS", (), {"expr": a.args[0]})())))(_kinds), verify=False, note="type of the element"),
              "ConstantFolder.extract_constant_int": Contract(qualname="dsl_compiler/src/lowering/constant_folder.py::ConstantFolder.extract_constant_int",
                                                              params={"cls": _OPQ, "expr": _OPQ, "diagnostics": _OPQ, "symbol_resolver": _OPQ}, defaults={"diagnostics": None, "symbol_resolver": None},
                                                              effect=_bl_const(_kinds), verify=False, note="verified separately (contracts.c11): the S3 constant value, or None"),
              "ExpressionLowerer.lower_expr": Contract(qualname=ELQ2 + "lower_expr", params={"self": _OPQ, "expr": _OPQ}, effect=_bl_lower(_kinds), verify=False,
                                                       note="the lowered element (a signal or bundle reference)"),
              "IRBuilder.bundle_const": Contract(qualname=IRB + "bundle_const", params={"self": _OPQ, "signals": _OPQ, "source_ast": _OPQ}, defaults={"source_ast": None},
                                                 effect=_bl_bundle_const, verify=False, note="proved above: one constant node over a copy of the map"),
              "IRBuilder.wire_merge": Contract(qualname=IRB + "wire_merge", params={"self": _OPQ, "sources": _OPQ, "output_type": _OPQ, "source_ast": _OPQ}, defaults={"source_ast": None},
                                               effect=_bl_merge, verify=False, note="proved above: one merge node over the sources in order"),
              "ExpressionLowerer._error": Contract(qualname=ELQ2 + "_error", params={"self": _OPQ, "message": _OPQ, "node": _OPQ}, defaults={"node": None},
                                                   effect=lambda ex, a: BL.setdefault("errors", []).append(a.message), verify=False, note="records a compile error"),
              "ExpressionLowerer._claim_bundle_members": "inline",
              "ExpressionLowerer.semantic": "inline", "ExpressionLowerer.ir_builder": "inline", "ExpressionLowerer.diagnostics": "inline"},
        dynamic_types={"self": {"parent": ty.TObj("ASTLowerer", only=("ASTLowerer",))},
                       "self.parent": {"semantic": ty.TOpaque("semantic"), "ir_builder": ty.TObj("IRBuilder", only=("IRBuilder",)), "diagnostics": ty.TOpaque("diag")}},
        properties=("C02", "C14", "C15"), min_obligations=1, no_replay=True, note=f"elements: {_kinds[0]}, {_kinds[1]}{_extra}"))
    CONTRACTS[-1].semantic_names, CONTRACTS[-1].actual_names = _sem, _act


# =================================================================================================
# lower_bundle_select / lower_bundle_any / lower_bundle_all: no combinator — the result reads, from the wire of the bundle's OWN
# producer, the selected member (b["x"]), anything (any(b)) or everything (all(b)); a non-bundle operand of any()/all() is an error.
# =================================================================================================
BS = {}


def _bs_lower(ex, a):
    r = _ghost2(a.expr, "lowered", ty.TUnion((ty.Int, ty.TObj("BundleRef", only=("BundleRef",)), ty.TObj("SignalRef", only=("SignalRef",)))))
    BS["operand"] = r
    return r


_bs_lower_c = Contract(qualname=ELQ2 + "lower_expr", params={"self": _OPQ, "expr": _OPQ}, effect=_bs_lower, verify=False, note="the lowered operand")
_bs_const_c = Contract(qualname=IRB + "const", params={"self": _OPQ, "signal_type": _OPQ, "value": _OPQ, "source_ast": _OPQ}, defaults={"source_ast": None},
                       effect=lambda ex, a: BS.setdefault("const", SObj(["SignalRef"], fresh_name("zero"), lazy=True)), verify=False, note="proved above")
_bs_err_c = Contract(qualname=ELQ2 + "_error", params={"self": _OPQ, "message": _OPQ, "node": _OPQ}, defaults={"node": None}, effect=lambda ex, a: BS.setdefault("errors", []).append(a.message),
                     verify=False, note="records a compile error")
_BS_USES = {"ExpressionLowerer.lower_expr": _bs_lower_c, "IRBuilder.const": _bs_const_c, "ExpressionLowerer._error": _bs_err_c,
            "IRBuilder.allocate_implicit_type": Contract(qualname=IRB + "allocate_implicit_type", params={"self": _OPQ}, effect=lambda ex, a: z3.String("fresh_implicit_type"), verify=False,
                                                         note="fresh implicit type name"),
            "ExpressionLowerer.ir_builder": "inline"}
_BS_DYN = {"self": {"parent": ty.TObj("ASTLowerer", only=("ASTLowerer",))}, "self.parent": {"ir_builder": ty.TObj("IRBuilder", only=("IRBuilder",))}}


def _bs_post(want_type, bundle_only):
    def post(a, res):
        v = BS.get("operand")
        is_bundle = isinstance(v, SObj) and "BundleRef" in v._cls_set
        is_sig = isinstance(v, SObj) and not is_bundle
        if is_bundle or (is_sig and not bundle_only):
            t = want_type(a)
            return And(isa(res, "SignalRef"), res.source_id is v.source_id, (res.signal_type is t) if not isinstance(t, str) else (res.signal_type == t), not BS.get("errors"))
        return len(BS.get("errors", [])) == 1 and res is BS.get("const")
    return post


for _fn, _cls, _want, _bonly, _what in (
        ("lower_bundle_select", "BundleSelectExpr", lambda a: a.expr.signal_type, False, "the selected member read from the bundle's own producer"),
        ("lower_bundle_any", "BundleAnyExpr", lambda a: "signal-anything", True, "signal-anything over the bundle's own producer; a non-bundle is an error"),
        ("lower_bundle_all", "BundleAllExpr", lambda a: "signal-everything", True, "signal-everything over the bundle's own producer; a non-bundle is an error")):
    CONTRACTS.append(Contract(
        qualname=ELQ2 + _fn, params={"self": ty.TObj("ExpressionLowerer", only=("ExpressionLowerer",)),
                                     "expr": ty.TObj(_cls, only=(_cls,), ftypes=(("signal_type", ty.Str), ("bundle", ty.TObj("Expr"))))},
        requires=[("(reset capture)", lambda a: BS.clear() or True)],
        ensures=[(_what, _bs_post(_want, _bonly))], uses=_BS_USES, dynamic_types=_BS_DYN, properties=("C02", "C06"), min_obligations=2, no_replay=True))


# =================================================================================================
# Output specifiers with bundles (C02):
#   _lower_bundle_filter_output_spec  `(bundle CMP x) : out` -> ONE each-decider over the lowered bundle and the lowered scalar with the
#                                     comparison's own operator; out a bundle: members keep their values (copy mode); out a constant:
#                                     every passing member gets THAT constant — its compile-time value, int variables included
#   _gate_bundle_by_condition         `(cond) : bundle` for a condition that is already a value: the bundle passes while cond != 0
#   _lower_identifier_condition_output_spec / _lower_compound_output_spec with a bundle after ':' hand it to that gate (the condition
#                                     lowered to its truth value); they never build a scalar decider for a bundle
# =================================================================================================
OS = {}


def _os_reset(a):
    OS.clear()
    return True


def _os_lower(ex, a):
    OS.setdefault("lowered", []).append(a.expr)
    kinds = OS.get("kinds", {})
    t = kinds.get(id(a.expr))
    if t is None:
        t = ty.TUnion((ty.Int, ty.TObj("SignalRef", only=("SignalRef",))))
    v = ex.mk(t, fresh_name("lowered"), register=True)
    a.expr._fields["@lowered_to"] = v
    return v


def _os_extract(ex, a):
    OS["extract_resolver"] = a.symbol_resolver
    return _ghost2(a.expr, "cval", ty.TOpt(ty.Int))


def _os_bundle_decider(ex, a):
    OS["bundle_decider"] = a
    r = SObj(["BundleRef"], fresh_name("filtered"), lazy=True)
    OS["result"] = r
    return r


def _os_gating(ex, a):
    OS["gating"] = a
    r = SObj(["BundleRef"], fresh_name("gated"), lazy=True)
    OS["result"] = r
    return r


_os_lower_c = Contract(qualname=ELQ2 + "lower_expr", params={"self": _OPQ, "expr": _OPQ}, effect=_os_lower, verify=False, note="the lowered sub-expression")
_os_extract_c = Contract(qualname="dsl_compiler/src/lowering/constant_folder.py::ConstantFolder.extract_constant_int", params={"cls": _OPQ, "expr": _OPQ, "diagnostics": _OPQ, "symbol_resolver": _OPQ},
                         defaults={"diagnostics": None, "symbol_resolver": None}, effect=_os_extract, verify=False,
                         note="verified separately (contracts.c11): the S3 constant value (int variables through the resolver), or None")
_os_bdec_c = Contract(qualname=IRB + "bundle_decider", params={"self": _OPQ, "op": _OPQ, "bundle": _OPQ, "compare_value": _OPQ, "copy_count_from_input": _OPQ, "output_value": _OPQ, "source_ast": _OPQ},
                      defaults={"copy_count_from_input": True, "output_value": 1, "source_ast": None}, effect=_os_bundle_decider, verify=False, note="proved above")
_os_gate_c = Contract(qualname=IRB + "bundle_gating_decider", params={"self": _OPQ, "op": _OPQ, "left": _OPQ, "right": _OPQ, "bundle": _OPQ, "copy_count_from_input": _OPQ, "output_value": _OPQ,
                                                                      "source_ast": _OPQ}, defaults={"copy_count_from_input": True, "output_value": 1, "source_ast": None},
                      effect=_os_gating, verify=False, note="proved above")
_OS_DYN = {"self": {"parent": ty.TObj("ASTLowerer", only=("ASTLowerer",))},
           "self.parent": {"ir_builder": ty.TObj("IRBuilder", only=("IRBuilder",)), "semantic": ty.TOpaque("semantic"), "diagnostics": ty.TOpaque("diag")}}
_OS_USES = {"ExpressionLowerer.lower_expr": _os_lower_c, "ConstantFolder.extract_constant_int": _os_extract_c, "IRBuilder.bundle_decider": _os_bdec_c, "IRBuilder.bundle_gating_decider": _os_gate_c,
            "ExpressionLowerer._attach_expr_context": "skip", "ExpressionLowerer._error": "skip", "ExpressionLowerer.ir_builder": "inline", "ExpressionLowerer.semantic": "inline",
            "ExpressionLowerer.diagnostics": "inline"}


def _filter_pre(out_kind):
    def pre(a):
        OS["kinds"] = {id(a.expr.condition.left): ty.TObj("BundleRef", only=("BundleRef",))}
        return True
    return pre


def _filter_post(out_kind):
    def post(a, res):
        c = a.expr.condition
        d = OS.get("bundle_decider")
        if d is None or res is not OS.get("result"):
            return False
        base = [d.op is c.op, d.bundle is c.left._fields.get("@lowered_to"), d.compare_value is c.right._fields.get("@lowered_to")]
        if out_kind == "bundle":
            return all(base) and d.copy_count_from_input is True
        cv = a.expr.output_value._fields.get("@cval")
        resolver_passed = OS.get("extract_resolver") is not None
        return all(base) and d.copy_count_from_input is False and resolver_passed and (d.output_value is cv if cv is not None else d.output_value == 1)
    return post


for _ok in ("bundle", "constant"):
    _otype = "BundleValue" if _ok == "bundle" else "IntValue"
    CONTRACTS.append(Contract(
        qualname=ELQ2 + "_lower_bundle_filter_output_spec",
        params={"self": ty.TObj("ExpressionLowerer", only=("ExpressionLowerer",)),
                "expr": ty.TObj("OutputSpecExpr", only=("OutputSpecExpr",), ftypes=(
                    ("condition", ty.TObj("BinaryOp", only=("BinaryOp",), ftypes=(("op", ty.Str), ("left", ty.TObj("Expr", only=("IdentifierExpr",))), ("right", ty.TObj("Expr", only=("IdentifierExpr", "NumberLiteral")))))),
                    ("output_value", ty.TObj("Expr", only=("IdentifierExpr", "NumberLiteral", "BinaryOp")))))},
        requires=[("(reset capture)", _os_reset), ("(the filtered operand lowers to a bundle)", _filter_pre(_ok))],
        ensures=[("one each-decider with the comparison's operator over the lowered bundle and scalar; members keep their values, or get the constant's compile-time value (int variables resolved)",
                  _filter_post(_ok))],
        uses={**_OS_USES, "opaque.get_expr_type": Contract(qualname="dsl_compiler/src/semantic/analyzer.py::SemanticAnalyzer.get_expr_type", params={"args": _OPQ},
                                                           effect=(lambda k: (lambda ex, a: SObj([k], fresh_name("otype"), lazy=True)))(_otype), verify=False, note="the type of the value after ':'")},
        dynamic_types=_OS_DYN, properties=("C02",), min_obligations=1, no_replay=True, note=f"output: {_ok}"))


def _gate_post(a, res):
    g = OS.get("gating")
    return g is not None and res is OS.get("result") and g.op == "!=" and g.left is a.cond_ref and g.right == 0 and g.bundle is a.bundle_ref and g.copy_count_from_input is True


CONTRACTS.append(Contract(
    qualname=ELQ2 + "_gate_bundle_by_condition",
    params={"self": ty.TObj("ExpressionLowerer", only=("ExpressionLowerer",)), "cond_ref": ty.TUnion((ty.Int, ty.TObj("SignalRef", only=("SignalRef",)))),
            "bundle_ref": ty.TObj("BundleRef", only=("BundleRef",)), "expr": ty.TObj("OutputSpecExpr", only=("OutputSpecExpr",))},
    requires=[("(reset capture)", _os_reset)],
    ensures=[("the bundle is gated by `cond != 0`, its members copied", _gate_post)],
    uses=_OS_USES, dynamic_types=_OS_DYN, properties=("C02",), min_obligations=1, no_replay=True))


def _os_gate_helper(ex, a):
    OS["gate_call"] = a
    r = SObj(["BundleRef"], fresh_name("gated"), lazy=True)
    OS["result"] = r
    return r


def _os_value(ex, a):
    OS["value_of"] = a.output_value
    r = SObj(["BundleRef"], fresh_name("bundle_after_colon"), lazy=True)
    OS["bundle"] = r
    return r


def _cond_bundle_post(kind):
    def post(a, res):
        g = OS.get("gate_call")
        cond = a.expr.condition
        return (g is not None and res is OS.get("result") and g.bundle_ref is OS.get("bundle") and g.cond_ref is cond._fields.get("@lowered_to")
                and OS.get("value_of") is a.expr.output_value and "multi" not in OS and "decider" not in OS)
    return post


_gate_helper_c = Contract(qualname=ELQ2 + "_gate_bundle_by_condition", params={"self": _OPQ, "cond_ref": _OPQ, "bundle_ref": _OPQ, "expr": _OPQ}, effect=_os_gate_helper, verify=False, note="proved above")
_value_c = Contract(qualname=ELQ2 + "_lower_output_spec_value", params={"self": _OPQ, "output_value": _OPQ}, effect=_os_value, verify=False, note="the lowered value after ':' — here a bundle")
_COND_USES = {**_OS_USES, "ExpressionLowerer._gate_bundle_by_condition": _gate_helper_c, "ExpressionLowerer._lower_output_spec_value": _value_c,
              "ExpressionLowerer._collect_comparison_chain": Contract(qualname=ELQ2 + "_collect_comparison_chain", params={"self": _OPQ, "expr": _OPQ, "logical_op": _OPQ},
                                                                      effect=lambda ex, a: [a.expr.left, a.expr.right], verify=False, note="the two comparisons of the chain"),
              "opaque.get_expr_type": Contract(qualname="dsl_compiler/src/semantic/analyzer.py::SemanticAnalyzer.get_expr_type", params={"args": _OPQ},
                                               effect=lambda ex, a: SObj(["BundleValue"], fresh_name("btype"), lazy=True), verify=False, note="the type of the whole expression (a bundle)"),
              "fn:get_signal_type_name": Contract(qualname="dsl_compiler/src/semantic/type_system.py::get_signal_type_name", params={"value_type": _OPQ}, effect=lambda ex, a: None, verify=False,
                                                  note="a bundle has no signal name"),
              "IRBuilder.allocate_implicit_type": Contract(qualname=IRB + "allocate_implicit_type", params={"self": _OPQ}, effect=lambda ex, a: z3.String("fresh_implicit_type"), verify=False,
                                                           note="fresh implicit type name"),
              "opaque.ensure_signal_registered": "skip", "ASTLowerer.ensure_signal_registered": "skip",
              "IRBuilder.decider": Contract(qualname=IRB + "decider", params={"kwargs": _OPQ}, effect=lambda ex, a: OS.__setitem__("decider", a), verify=False, note="(must not be reached)"),
              "IRBuilder.decider_multi": Contract(qualname=IRB + "decider_multi", params={"kwargs": _OPQ}, effect=lambda ex, a: OS.__setitem__("multi", a), verify=False, note="(must not be reached)")}
CONTRACTS.append(Contract(
    qualname=ELQ2 + "_lower_identifier_condition_output_spec",
    params={"self": ty.TObj("ExpressionLowerer", only=("ExpressionLowerer",)),
            "expr": ty.TObj("OutputSpecExpr", only=("OutputSpecExpr",), ftypes=(("condition", ty.TObj("IdentifierExpr", only=("IdentifierExpr",))), ("output_value", ty.TObj("Expr"))))},
    requires=[("(reset capture)", _os_reset)],
    ensures=[("a bundle after ':' is gated by the named condition's value; no scalar decider is built for it", _cond_bundle_post("identifier"))],
    uses=_COND_USES, dynamic_types=_OS_DYN, properties=("C02",), min_obligations=1, no_replay=True, note="bundle after ':'"))
_CMPX = ty.TObj("BinaryOp", only=("BinaryOp",), ftypes=(("op", ty.TConcrete(">")), ("left", ty.TObj("Expr", only=("IdentifierExpr",))), ("right", ty.TObj("Expr", only=("NumberLiteral",)))))
for _lop in ("&&", "||"):
    CONTRACTS.append(Contract(
        qualname=ELQ2 + "_lower_compound_output_spec",
        params={"self": ty.TObj("ExpressionLowerer", only=("ExpressionLowerer",)),
                "expr": ty.TObj("OutputSpecExpr", only=("OutputSpecExpr",), ftypes=(
                    ("condition", ty.TObj("BinaryOp", only=("BinaryOp",), ftypes=(("op", ty.TConcrete(_lop)), ("left", _CMPX), ("right", _CMPX)))), ("output_value", ty.TObj("Expr"))))},
        requires=[("(reset capture)", _os_reset)],
        ensures=[("a bundle after ':' is gated by the truth value of the whole condition; no scalar decider is built for it", _cond_bundle_post("compound"))],
        uses=_COND_USES, dynamic_types=_OS_DYN, properties=("C02",), min_obligations=1, no_replay=True, note=f"bundle after ':'; condition c1 {_lop} c2"))
