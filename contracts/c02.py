"""C02 contracts: bundle operations in the IR builder.

IRBuilder.bundle_arithmetic: `bundle OP x` becomes ONE each-combinator: operator OP, left = `each` over the bundle's
producer, right = x unchanged, output `each`; when x is a signal the node is flagged for wire separation (the scalar must not
be iterated by `each`); the result is a bundle with exactly the members of the input bundle, produced by that node."""
from __future__ import annotations

import z3

from pyvc import types as ty
from pyvc.contract import Contract
from pyvc.ghost import isa
from pyvc.values import SObj, fresh_name
from spec.ops import And, Implies, Not, Or

IRB = "dsl_compiler/src/ir/builder.py::IRBuilder."
_OPQ = ty.TOpaque("x")
ADDED = []


def _add_op(ex, a):
    ADDED.append(a.op)
    return None


add_operation = Contract(qualname=IRB + "add_operation", params={"self": _OPQ, "op": _OPQ}, effect=_add_op, verify=False, note="appends the node to the IR (recorded)")
next_id = Contract(qualname=IRB + "next_id", params={"self": _OPQ, "prefix": _OPQ}, effect=lambda ex, a: z3.String(fresh_name("node_id")), verify=False, note="fresh node id")


def _ba_post(a, res):
    if len(ADDED) != 1:
        return False
    n = ADDED[0]
    operand = a.operand
    is_sig = isinstance(operand, SObj) and "SignalRef" in operand._cls_set
    cs = [isa(n, "IRArith"), n.op is a.op, n.output_type == "signal-each",
          isa(n.left, "SignalRef"), n.left.signal_type == "signal-each", n.left.source_id is a.bundle.source_id,
          n.right is operand, bool(n.needs_wire_separation) == is_sig,
          isa(res, "BundleRef"), res.source_id is n.node_id, res.signal_types == a.bundle.signal_types, res.signal_types is not a.bundle.signal_types]
    return And(*[c for c in cs])


bundle_arith = Contract(
    qualname=IRB + "bundle_arithmetic",
    params={"self": ty.TObj("IRBuilder", only=("IRBuilder",)), "op": ty.Str,
            "bundle": ty.TObj("BundleRef", only=("BundleRef",), ftypes=(("signal_types", ty.TConcrete({"signal-A", "signal-B"})), ("source_id", ty.Str))),
            "operand": ty.TUnion((ty.Int, ty.TObj("SignalRef", only=("SignalRef",)))), "source_ast": ty.TConcrete(None)},
    requires=[("(reset)", lambda a: ADDED.clear() or True)],
    ensures=[("one each-combinator: same operator, each over the bundle, operand unchanged, separation flag iff the operand is a signal; result = same members", _ba_post)],
    uses={"IRBuilder.add_operation": add_operation, "IRBuilder.next_id": next_id},
    properties=("C02",), min_obligations=2, no_replay=True,
)
CONTRACTS = [bundle_arith, add_operation, next_id]
