"""StatementLowerer.lower_decl_stmt (C02, C11, C16, C20): what a declaration `T name = expr;` binds.

  * `int name = <compile-time constant>`  binds the name to that INTEGER (the S3 constant value of the initialiser, by the
    contract of ConstantFolder.extract_constant_int) and lowers nothing: later uses fold like the literal would;
  * otherwise the name is bound to exactly what the initialiser lowers to;
  * a signal whose producer is a constant node becomes a declared input: user_declared is set on THAT node (it must be
    materialised as declared, never inlined, never folded away) and it is labelled with the name;
  * a bundle's producer — whatever kind of node computes it — is marked user_declared and labelled (a named bundle keeps its
    combinator: its `each` output must not be retyped by a later projection or folded into a consumer);
  * a Signal declared with an integer initialiser becomes a constant node with that value on the declared (or a fresh implicit)
    type, user_declared, bound to the name.
Initialisers that are calls (`place`, functions) are a separate path (entity bookkeeping): not covered here (stated)."""
from __future__ import annotations

import z3

from pyvc import types as ty
from pyvc.contract import Contract
from pyvc.ghost import ghost, isa
from pyvc.values import SObj, fresh_name
from spec import ops
from spec.ops import And, Implies, Not, Or

SL = "dsl_compiler/src/lowering/statement_lowerer.py::StatementLowerer."
_OPQ = ty.TOpaque("x")
CONSTS, ANNOTATED = [], []
_LOWERED = ty.TUnion((ty.Int, ty.TObj("SignalRef", only=("SignalRef",)), ty.TObj("BundleRef", only=("BundleRef",))))
_PRODUCERS = ("IRConst", "IRArith", "IRDecider", "IRWireMerge", "IREntityOutput")


def cval(expr):
    return ghost(expr, "cval", ty.TOpt(ty.Int))


def _extract(ex, a):
    return cval(a.expr)


def _lower(ex, a):
    return ghost(a.args[0], "lowered", _LOWERED)


def _get_op(ex, a):
    stmt = ex.args_ns.stmt
    lowered = stmt.value._fields.get("@lowered")
    if isinstance(lowered, SObj) and a.args[0] is lowered.source_id:
        node = lowered._fields.get("@producer")
        if node is None:
            node = SObj(list(_PRODUCERS), fresh_name("producer"), lazy=True)
            node._fields["debug_metadata"] = dict(ex.contract.scenario_metadata)
            lowered._fields["@producer"] = node
        return node
    for ref, node in CONSTS:
        if a.args[0] is ref.source_id:
            return node
    raise NotImplementedError("lookup of another node")


def _const(ex, a):
    node = SObj(["IRConst"], fresh_name("const"), lazy=False)
    node._fields.update({"debug_metadata": {}, "debug_label": None, "value": a.value, "output_type": a.signal_type})
    ref = SObj(["SignalRef"], fresh_name("const_ref"), lazy=False)
    ref._fields.update({"signal_type": a.signal_type, "source_id": z3.String(fresh_name("const_id"))})
    CONSTS.append((ref, node))
    return ref


def _annotate(ex, a):
    ANNOTATED.append(tuple(a.args))
    return None


def _lookup(ex, a):
    return ghost(ex.args_ns.stmt, "symbol", ty.TOpt(ty.TObj("Symbol", only=("Symbol",), ftypes=(("value_type", ty.TObj("ValueInfo", only=("IntValue", "SignalValue"))),))))


def _type_name(ex, a):
    return ghost(ex.args_ns.stmt, "declared_signal", ty.TOpt(ty.Str))


def _implicit(ex, a):
    return z3.String("fresh_implicit_type")


def _reset(a):
    CONSTS.clear(), ANNOTATED.clear()
    return True


def _bound(a):
    """the value the name is bound to after the call (None = not bound)"""
    refs = a.self.parent.signal_refs
    hits = [v for k, v in refs.__dict__.get("stores", []) if k is a.stmt.name]
    return hits[-1] if hits else None


def _md(node):
    return node._fields.get("debug_metadata")


def _post(a, res):
    stmt = a.stmt
    expr = stmt.value
    bound = _bound(a)
    lowered = expr._fields.get("@lowered")
    c = expr._fields.get("@cval")
    is_int_decl = stmt.type_name == "int"
    if "@lowered" not in expr._fields:
        # nothing was lowered: only an int declaration with a constant initialiser may do that, and it binds the constant
        return And(is_int_decl, c is not None and bound is c, not CONSTS)
    # an int declaration whose initialiser is a compile-time constant must not reach the lowering path
    cs = [Not(is_int_decl)] if c is not None else []
    if isinstance(lowered, SObj) and "SignalRef" in lowered._cls_set:
        node = lowered._fields.get("@producer")
        cs += [bound is lowered, len(ANNOTATED) == 1 and ANNOTATED[0][0] is stmt.name and ANNOTATED[0][1] is lowered]
        if node is not None and isinstance(_md(node), dict):
            md = _md(node)
            if isa(node, "IRConst") is True:
                cs += [md.get("user_declared") is True, node.debug_label is stmt.name, md.get("declared_name") is not None]
            elif isa(node, "IRConst") is False:
                cs += ["user_declared" not in md]
    elif isinstance(lowered, SObj):  # bundle
        node = lowered._fields.get("@producer")
        cs += [bound is lowered, node is not None and isinstance(_md(node), dict) and _md(node).get("user_declared") is True
               and _md(node).get("declared_name") is stmt.name and node.debug_label is stmt.name]
    else:  # integer
        sym = stmt._fields.get("@symbol")
        if sym is not None and isa(sym.value_type, "IntValue") is True:
            cs += [bound is lowered, not CONSTS]
        else:
            ok = len(CONSTS) == 1
            if ok:
                ref, node = CONSTS[0]
                declared = stmt._fields.get("@declared_signal") if sym is not None else None
                want_type = declared if declared is not None else z3.String("fresh_implicit_type")
                ok = (bound is ref and node.value is lowered and ops.eq(node.output_type, want_type) is not False
                      and _md(node).get("user_declared") is True and _md(node).get("declared_name") is stmt.name and node.debug_label is stmt.name)
                cs.append(ops.eq(node.output_type, want_type))
            cs.append(ok)
    return And(*[x if not isinstance(x, bool) else z3.BoolVal(x) for x in cs])


def _mk(note, metadata):
    c = Contract(
        qualname=SL + "lower_decl_stmt",
        params={"self": ty.TObj("StatementLowerer", only=("StatementLowerer",)),
                "stmt": ty.TObj("DeclStmt", only=("DeclStmt",), ftypes=(("name", ty.Str), ("type_name", ty.Str),
                                                                         ("value", ty.TObj("Expr", only=("BinaryOp", "Identifier", "NumberLiteral", "SignalLiteral", "BundleLiteral"))),))},
        requires=[("(reset capture)", _reset), ("(the initialiser's compile-time value, if it has one)", lambda a: cval(a.stmt.value) is None or True)],
        ensures=[("the name is bound to the initialiser's constant / lowered value; declared constants and named bundles are marked user_declared on their producer", _post)],
        uses={"ConstantFolder.extract_constant_int": Contract(qualname="dsl_compiler/src/lowering/constant_folder.py::ConstantFolder.extract_constant_int",
                                                              params={"cls": _OPQ, "expr": _OPQ, "diagnostics": _OPQ, "symbol_resolver": _OPQ}, defaults={"diagnostics": None, "symbol_resolver": None},
                                                              effect=_extract, verify=False, note="verified separately (contracts.c11): the S3 constant value of the expression, or None"),
              "opaque.lower_expr": Contract(qualname="dsl_compiler/src/lowering/expression_lowerer.py::ExpressionLowerer.lower_expr", params={"args": _OPQ}, effect=_lower, verify=False,
                                            note="the lowered value of the initialiser (contracts.c01 ...): an integer, a signal reference or a bundle reference"),
              "opaque.get_operation": Contract(qualname="dsl_compiler/src/ir/builder.py::IRBuilder.get_operation", params={"args": _OPQ}, effect=_get_op, verify=False,
                                               note="dictionary lookup: the producer node of the reference"),
              "opaque.const": Contract(qualname="dsl_compiler/src/ir/builder.py::IRBuilder.const", params={"self": _OPQ, "signal_type": _OPQ, "value": _OPQ, "source_ast": _OPQ},
                                       defaults={"source_ast": None}, effect=lambda ex, a: _const(ex, type("NS", (), {"signal_type": a.args[0], "value": a.args[1]})()), verify=False,
                                       note="verified separately (contracts.c02 IRBuilder.const): a constant node with that type and value"),
              "opaque.allocate_implicit_type": Contract(qualname="dsl_compiler/src/ir/builder.py::IRBuilder.allocate_implicit_type", params={"args": _OPQ}, effect=_implicit, verify=False,
                                                        note="fresh implicit type name"),
              "opaque.annotate_signal_ref": Contract(qualname="dsl_compiler/src/lowering/lowerer.py::ASTLowerer.annotate_signal_ref", params={"args": _OPQ}, effect=_annotate, verify=False,
                                                     note="debug annotation of the binding (recorded)"),
              "opaque.lookup": Contract(qualname="dsl_compiler/src/semantic/symbol_table.py::SymbolTable.lookup", params={"args": _OPQ}, effect=_lookup, verify=False,
                                        note="the declared symbol (None when unknown)"),
              "fn:get_signal_type_name": Contract(qualname="dsl_compiler/src/semantic/type_system.py::get_signal_type_name", params={"value_type": _OPQ}, effect=_type_name, verify=False,
                                                  note="three-line accessor"),
              "ASTLowerer.push_expr_context": "skip", "ASTLowerer.pop_expr_context": "skip", "ASTLowerer.annotate_signal_ref": Contract(
                  qualname="dsl_compiler/src/lowering/lowerer.py::ASTLowerer.annotate_signal_ref", params={"self": _OPQ, "name": _OPQ, "ref": _OPQ, "node": _OPQ},
                  effect=lambda ex, a: ANNOTATED.append((a.name, a.ref)), verify=False, note="debug annotation of the binding (recorded)")},
        dynamic_types={"self": {"parent": ty.TObj("ASTLowerer", only=("ASTLowerer",)), "ir_builder": ty.TOpaque("builder"), "semantic": ty.TObj("SemanticAnalyzer", only=("SemanticAnalyzer",))},
                       "self.parent": {"signal_refs": ty.TObjMap(ty.Str, ty.TObj("SignalRef", only=("SignalRef",))), "expr_lowerer": ty.TOpaque("expr_lowerer"), "diagnostics": ty.TOpaque("diag"), "entity_refs": ty.TConcrete({})},
                       "self.semantic": {"symbol_table": ty.TOpaque("symbols")}},
        properties=("C02", "C11", "C16", "C20", "C10"), min_obligations=3, no_replay=True, note=note)
    c.scenario_metadata = metadata
    return c


CONTRACTS = [_mk("fresh producer", {}), _mk("producer already named", {"declared_name": "earlier"})]


# =================================================================================================
# StatementLowerer.lower_assign_stmt (C06 for `entity.prop = expr`, C20 for `name = expr`):
#   entity.prop = expr   exactly ONE property write is added, for the entity the NAME denotes (its id in entity_refs), on that
#                        property, carrying what expr lowers to (lowered once) — an INTEGER `enable` as a constant signal of that value
#                        on a fresh type (a bare integer cannot be a circuit condition: nothing would evaluate it);
#                        `entity.enable = any/all(bundle) CMP constant` is handed to the inlining path with that entity's id instead
#   name = expr          the name is re-bound to what expr lowers to; a constant producer becomes a declared input, a bundle's
#                        producer is kept; an integer becomes a declared constant node with that value
# (assignments from calls — place(...), functions — are the entity bookkeeping path: not covered here.)
# =================================================================================================
AS = {}


def _isinst(ex, v, cls):
    from pyvc.values import ClassRef
    t = ex.isinstance_(v, ClassRef(cls))
    return t if isinstance(t, bool) else ex.branch(t)


def _as_reset(a):
    AS.clear(), CONSTS.clear(), ANNOTATED.clear()
    return True


def _as_lower(ex, a):
    AS.setdefault("lowered", []).append(a.args[0])
    return ghost(a.args[0], "lowered", _LOWERED)


def _as_add(ex, a):
    AS.setdefault("added", []).append(a.args[0])
    return None


def _as_inline(ex, a):
    AS.setdefault("inlined", []).append((a.entity_id, a.expr, a.stmt))
    return None


def _as_get_op(ex, a):
    stmt = ex.args_ns.stmt
    lowered = stmt.value._fields.get("@lowered")
    if isinstance(lowered, SObj) and a.args[0] is lowered.source_id:
        node = lowered._fields.get("@producer")
        if node is None:
            node = SObj(list(_PRODUCERS), fresh_name("producer"), lazy=True)
            node._fields["debug_metadata"] = {}
            lowered._fields["@producer"] = node
        return node
    for ref, node in CONSTS:
        if a.args[0] is ref.source_id:
            return node
    raise NotImplementedError("lookup of another node")


def _as_prop_post(a, res):
    stmt = a.stmt
    refs = a.self.parent.entity_refs
    name, prop = stmt.target.object_name, stmt.target.property_name
    known = z3.Select(refs.present, name)
    eid = z3.Select(refs.vals, name)
    inlined, added, lowered = AS.get("inlined", []), AS.get("added", []), AS.get("lowered", [])
    inl = stmt.value._fields.get("@inlinable")
    if inlined:
        return And(known, prop == "enable", inl if inl is not None else False, len(inlined) == 1 and inlined[0][1] is stmt.value and inlined[0][2] is stmt, inlined[0][0] == eid,
                   not added and not lowered)
    if len(lowered) != 1 or lowered[0] is not stmt.value:
        return False
    v = stmt.value._fields.get("@lowered")
    not_inline = Not(And(prop == "enable", inl)) if inl is not None else True
    if not added:
        return Not(known)
    w = added[0]
    is_int = isinstance(v, int) or (ops.is_sym(v) and z3.is_int(v))
    if is_int and w.value is not v:
        # an integer condition: only for `enable`, and then a constant signal of exactly that value on a fresh type (a circuit condition needs a network to be evaluated on)
        ok = len(CONSTS) == 1 and w.value is CONSTS[0][0] and CONSTS[0][1].value is v and ops.eq(CONSTS[0][1].output_type, z3.String("fresh_implicit_type")) is not False
        return And(known, not_inline, prop == "enable", len(added) == 1 and ok, isa(w, "IREntityPropWrite"), w.entity_id == eid, w.property_name is prop,
                   ops.eq(CONSTS[0][1].output_type, z3.String("fresh_implicit_type")) if ok else False)
    carried = Not(prop == "enable") if is_int else True   # ... and an integer `enable` is never written as a bare integer
    return And(known, not_inline, carried, len(added) == 1 and not CONSTS, isa(w, "IREntityPropWrite"), w.entity_id == eid, w.property_name is prop, w.value is v)


_VALUE_T = ty.TObj("Expr", only=("BinaryOp", "IdentifierExpr", "NumberLiteral", "SignalLiteral"))
_AS_USES = {"opaque.lower_expr": Contract(qualname="dsl_compiler/src/lowering/expression_lowerer.py::ExpressionLowerer.lower_expr", params={"args": _OPQ}, effect=_as_lower, verify=False,
                                          note="the lowered value of the right-hand side"),
            "opaque.add_operation": Contract(qualname="dsl_compiler/src/ir/builder.py::IRBuilder.add_operation", params={"args": _OPQ}, effect=_as_add, verify=False, note="appends the node to the IR (recorded)"),
            "opaque.get_operation": Contract(qualname="dsl_compiler/src/ir/builder.py::IRBuilder.get_operation", params={"args": _OPQ}, effect=_as_get_op, verify=False, note="the producer node of the reference"),
            "opaque.const": Contract(qualname="dsl_compiler/src/ir/builder.py::IRBuilder.const", params={"args": _OPQ}, effect=lambda ex, a: _const(ex, type("NS", (), {"signal_type": a.args[0], "value": a.args[1]})()),
                                     verify=False, note="verified separately (contracts.c02 IRBuilder.const)"),
            "opaque.allocate_implicit_type": Contract(qualname="dsl_compiler/src/ir/builder.py::IRBuilder.allocate_implicit_type", params={"args": _OPQ}, effect=_implicit, verify=False, note="fresh implicit type name"),
            "opaque.lookup": Contract(qualname="dsl_compiler/src/semantic/symbol_table.py::SymbolTable.lookup", params={"args": _OPQ}, effect=_lookup, verify=False, note="the declared symbol"),
            "fn:get_signal_type_name": Contract(qualname="dsl_compiler/src/semantic/type_system.py::get_signal_type_name", params={"value_type": _OPQ}, effect=_type_name, verify=False, note="three-line accessor"),
            "StatementLowerer._is_inlinable_bundle_condition": Contract(qualname=SL + "_is_inlinable_bundle_condition", params={"self": _OPQ, "expr": _OPQ},
                                                                        effect=lambda ex, a: (ghost(a.expr, "inlinable", ty.Bool) if _isinst(ex, a.expr, "BinaryOp") else False), verify=False,
                                                                        note="any()/all() of a bundle compared with a constant (only a BinaryOp can be one)"),
            "StatementLowerer._lower_inlined_bundle_condition": Contract(qualname=SL + "_lower_inlined_bundle_condition", params={"self": _OPQ, "entity_id": _OPQ, "expr": _OPQ, "stmt": _OPQ, "value_ref": _OPQ},
                                                                         effect=_as_inline, verify=False, note="records the inlined condition on the entity"),
            "ASTLowerer.push_expr_context": "skip", "ASTLowerer.pop_expr_context": "skip",
            "ASTLowerer.annotate_signal_ref": Contract(qualname="dsl_compiler/src/lowering/lowerer.py::ASTLowerer.annotate_signal_ref", params={"self": _OPQ, "name": _OPQ, "ref": _OPQ, "node": _OPQ},
                                                       effect=lambda ex, a: ANNOTATED.append((a.name, a.ref)), verify=False, note="debug annotation of the binding (recorded)")}
_AS_DYN = {"self": {"parent": ty.TObj("ASTLowerer", only=("ASTLowerer",)), "ir_builder": ty.TOpaque("builder"), "semantic": ty.TObj("SemanticAnalyzer", only=("SemanticAnalyzer",))},
           "self.parent": {"signal_refs": ty.TObjMap(ty.Str, ty.TObj("SignalRef", only=("SignalRef",))), "expr_lowerer": ty.TOpaque("expr_lowerer"), "diagnostics": ty.TOpaque("diag"),
                           "entity_refs": ty.TDict(ty.Str, ty.Str)},
           "self.semantic": {"symbol_table": ty.TOpaque("symbols")}}

CONTRACTS.append(Contract(
    qualname=SL + "lower_assign_stmt",
    params={"self": ty.TObj("StatementLowerer", only=("StatementLowerer",)),
            "stmt": ty.TObj("AssignStmt", only=("AssignStmt",), ftypes=(("target", ty.TObj("PropertyAccess", only=("PropertyAccess",), ftypes=(("object_name", ty.Str), ("property_name", ty.Str)))),
                                                                         ("value", _VALUE_T)))},
    requires=[("(reset capture)", _as_reset)],
    ensures=[("one property write for the entity the name denotes, on that property, with the lowered value — or the inlined bundle condition for that entity; nothing for an unknown entity", _as_prop_post)],
    uses=_AS_USES, dynamic_types=_AS_DYN, properties=("C06",), min_obligations=3, no_replay=True, note="entity.property = expression"))


def _as_name_post(a, res):
    stmt = a.stmt
    name = stmt.target.name
    refs = a.self.parent.signal_refs
    hits = [v for k, v in refs.__dict__.get("stores", []) if k is name]
    bound = hits[-1] if hits else None
    lowered_calls = AS.get("lowered", [])
    if len(lowered_calls) != 1 or lowered_calls[0] is not stmt.value or AS.get("added"):
        return False
    v = stmt.value._fields.get("@lowered")
    if isinstance(v, SObj):
        node = v._fields.get("@producer")
        md = node._fields.get("debug_metadata") if node is not None else None
        cs = [bound is v]
        if "BundleRef" in v._cls_set:
            cs.append(md is not None and md.get("user_declared") is True and node.debug_label is name)
        elif md is not None and isa(node, "IRConst") is True:
            cs.append(md.get("user_declared") is True and node.debug_label is name)
        elif md is not None and isa(node, "IRConst") is False:
            cs.append("user_declared" not in md)
        return And(*[x if not isinstance(x, bool) else z3.BoolVal(x) for x in cs])
    if len(CONSTS) != 1:
        return False
    ref, node = CONSTS[0]
    return bound is ref and node.value is v and node._fields["debug_metadata"].get("user_declared") is True and node._fields["debug_metadata"].get("declared_name") is name


CONTRACTS.append(Contract(
    qualname=SL + "lower_assign_stmt",
    params={"self": ty.TObj("StatementLowerer", only=("StatementLowerer",)),
            "stmt": ty.TObj("AssignStmt", only=("AssignStmt",), ftypes=(("target", ty.TObj("Identifier", only=("Identifier",), ftypes=(("name", ty.Str),))), ("value", _VALUE_T)))},
    requires=[("(reset capture)", _as_reset)],
    ensures=[("the name is re-bound to the lowered value; a constant producer becomes a declared input, a bundle's producer is kept, an integer becomes a declared constant with that value",
              _as_name_post)],
    uses=_AS_USES, dynamic_types=_AS_DYN, properties=("C20", "C02"), min_obligations=3, no_replay=True, note="name = expression"))


# =================================================================================================
# The inlined entity condition `entity.enable = any(b) CMP k` / `all(b) CMP k` (C06, C02):
#   _is_inlinable_bundle_condition   exactly the comparisons (<, <=, >, >=, ==, !=) whose left side is any(...) / all(...) and whose
#                                    right side is a compile-time constant
#   _lower_inlined_bundle_condition  ONE property write `enable` for that entity whose inline condition is: signal-everything for
#                                    all(), signal-anything for any(); the comparison's own operator; the constant's value; and the
#                                    lowered bundle as the source to wire from
#   _extract_constant                a number literal's value, an untyped literal's inner value, an int variable's bound value
# =================================================================================================
IB = {}


def _ib_lower(ex, a):
    IB["lowered_arg"] = a.args[0]
    return ghost(a.args[0], "lowered", ty.TUnion((ty.TObj("BundleRef", only=("BundleRef",)), ty.TObj("SignalRef", only=("SignalRef",)))))


def _ib_extract(ex, a):
    IB["extracted_from"] = a.expr
    return ghost(a.expr, "constant", ty.Int)


def _ib_add(ex, a):
    IB.setdefault("added", []).append(a.args[0])
    return None


def _ib_post(a, res):
    e = a.expr
    added = IB.get("added", [])
    if len(added) != 1:
        return False
    w = added[0]
    cond = w.inline_bundle_condition
    if not isinstance(cond, dict):
        return False
    want_sig = "signal-everything" if isa(e.left, "BundleAllExpr") is True else "signal-anything"
    return And(isa(w, "IREntityPropWrite"), w.entity_id is a.entity_id, w.property_name == "enable", cond.get("signal") == want_sig, cond.get("operator") is e.op,
               cond.get("constant") is e.right._fields.get("@constant"), IB.get("extracted_from") is e.right,
               IB.get("lowered_arg") is e.left.bundle, cond.get("input_source") is e.left.bundle._fields.get("@lowered"))


for _cls in ("BundleAllExpr", "BundleAnyExpr"):
    CONTRACTS.append(Contract(
        qualname=SL + "_lower_inlined_bundle_condition",
        params={"self": ty.TObj("StatementLowerer", only=("StatementLowerer",)), "entity_id": ty.Str,
                "expr": ty.TObj("BinaryOp", only=("BinaryOp",), ftypes=(("op", ty.Str), ("left", ty.TObj(_cls, only=(_cls,), ftypes=(("bundle", ty.TObj("Expr")),))), ("right", ty.TObj("Expr")))),
                "stmt": ty.TObj("AssignStmt", only=("AssignStmt",)), "value_ref": ty.TConcrete(None)},
        requires=[("(reset capture)", lambda a: IB.clear() or True)],
        ensures=[("one `enable` write for this entity: everything / anything, the comparison's operator, the constant's value, wired from the lowered bundle", _ib_post)],
        uses={"opaque.lower_expr": Contract(qualname="dsl_compiler/src/lowering/expression_lowerer.py::ExpressionLowerer.lower_expr", params={"args": _OPQ}, effect=_ib_lower, verify=False,
                                            note="the lowered bundle argument"),
              "StatementLowerer._extract_constant": Contract(qualname=SL + "_extract_constant", params={"self": _OPQ, "expr": _OPQ}, effect=_ib_extract, verify=False, note="proved below"),
              "opaque.add_operation": Contract(qualname="dsl_compiler/src/ir/builder.py::IRBuilder.add_operation", params={"args": _OPQ}, effect=_ib_add, verify=False, note="appends the node to the IR (recorded)"),
              "StatementLowerer._error": "skip"},
        dynamic_types=_AS_DYN, properties=("C06", "C02"), min_obligations=1, no_replay=True, note=f"left side {_cls}"))


def _inl_post(a, res):
    e = a.expr
    cmp_ = Or(*[e.op == o for o in ("<", "<=", ">", ">=", "==", "!=")])
    wild = isa(e.left, "BundleAnyExpr") is True or isa(e.left, "BundleAllExpr") is True
    const = ghost(e.right, "is_constant", ty.Bool)
    want = And(cmp_, const) if wild else False
    if isinstance(res, bool):
        return want if res else Not(want)
    return ops.eq(res, want)


_inl_uses = {"StatementLowerer._is_constant": Contract(qualname=SL + "_is_constant", params={"self": _OPQ, "expr": _OPQ}, effect=lambda ex, a: ghost(a.expr, "is_constant", ty.Bool), verify=False,
                                                       note="number literal, untyped literal or int variable (seventeen-line case distinction)")}
CONTRACTS.append(Contract(
    qualname=SL + "_is_inlinable_bundle_condition",
    params={"self": ty.TObj("StatementLowerer", only=("StatementLowerer",)),
            "expr": ty.TObj("BinaryOp", only=("BinaryOp",), ftypes=(("op", ty.Str), ("left", ty.TObj("Expr", only=("BundleAnyExpr", "BundleAllExpr", "IdentifierExpr"))), ("right", ty.TObj("Expr"))))},
    requires=[("(constancy of the right side)", lambda a: ghost(a.expr.right, "is_constant", ty.Bool) is None or True)],
    ensures=[("true exactly for a comparison with any()/all() on the left and a compile-time constant on the right", _inl_post)],
    uses=_inl_uses, dynamic_types=_AS_DYN, properties=("C06", "C02"), min_obligations=3, no_replay=True, note="a binary operation"))
CONTRACTS.append(Contract(
    qualname=SL + "_is_inlinable_bundle_condition",
    params={"self": ty.TObj("StatementLowerer", only=("StatementLowerer",)), "expr": ty.TObj("Expr", only=("IdentifierExpr", "NumberLiteral", "BundleAllExpr"))},
    ensures=[("anything that is not a binary operation is not inlinable", lambda a, res: res is False or res == False)],  # noqa: E712
    uses=_inl_uses, dynamic_types=_AS_DYN, properties=("C06", "C02"), min_obligations=1, no_replay=True, note="not a binary operation"))


# =================================================================================================
# lower_decl_stmt, initialiser is a function call `T name = f(...)` (C15 / C20): the call is lowered once; a BUNDLE result is declared
# under the name exactly like any other bundle (its producer keeps its combinator and carries the name: user_declared, declared_name,
# label); a signal / integer result is bound and annotated; an entity the call returned is registered under the name.
# =================================================================================================
def _call_lower(ex, a):
    e = a.args[0]
    r = ghost(e, "lowered", _LOWERED)
    ent = ghost(e, "returned_entity", ty.TOpt(ty.Str))
    ex.set_attr(ex.args_ns.self.parent, "returned_entity_id", ent)
    return r


def _call_post(a, res):
    stmt = a.stmt
    lowered = stmt.value._fields.get("@lowered")
    if "@lowered" not in stmt.value._fields:
        return False
    bound = _bound(a)
    ent = stmt.value._fields.get("@returned_entity")
    erefs, erefs0 = a.self.parent.entity_refs, a.old.self.parent.entity_refs
    k = z3.String("any_name")
    if ent is not None:
        ent_ok = And(z3.Select(erefs.present, stmt.name), z3.Select(erefs.vals, stmt.name) == ent, a.self.parent.returned_entity_id is None)
    else:
        ent_ok = z3.ForAll([k], And(z3.Select(erefs.present, k) == z3.Select(erefs0.present, k), z3.Select(erefs.vals, k) == z3.Select(erefs0.vals, k)))
    if isinstance(lowered, SObj) and "BundleRef" in lowered._cls_set:
        node = lowered._fields.get("@producer")
        ok = (bound is lowered and node is not None and isinstance(_md(node), dict) and _md(node).get("user_declared") is True and _md(node).get("declared_name") is stmt.name
              and node.debug_label is stmt.name)
        return And(ent_ok, z3.BoolVal(bool(ok)))
    ok = bound is lowered and len(ANNOTATED) == 1 and ANNOTATED[0][0] is stmt.name and ANNOTATED[0][1] is lowered
    return And(ent_ok, z3.BoolVal(bool(ok)))


_call_decl = _mk("initialiser is a function call", {"declared_name": "local name inside the function"})
_call_decl.params = {"self": ty.TObj("StatementLowerer", only=("StatementLowerer",)),
                     "stmt": ty.TObj("DeclStmt", only=("DeclStmt",), ftypes=(("name", ty.Str), ("type_name", ty.Str), ("value", ty.TObj("CallExpr", only=("CallExpr",), ftypes=(("name", ty.Str),)))))}
_call_decl.requires = [("(reset capture)", _reset), ("the call is not place(...) (entity placement: contracts.c09)", lambda a: Not(a.stmt.value.name == "place"))]
_call_decl.ensures = [("the call is lowered once; a bundle result is declared under the name like any other bundle; other results are bound and annotated; a returned entity is registered", _call_post)]
_call_decl.uses = {**_call_decl.uses, "opaque.lower_expr": Contract(qualname="dsl_compiler/src/lowering/expression_lowerer.py::ExpressionLowerer.lower_expr", params={"args": _OPQ}, effect=_call_lower,
                                                                     verify=False, note="the lowered call (contracts.c15): its result, and the entity it returned if any"),
                   "StatementLowerer._declare_bundle": "inline"}
_call_decl.dynamic_types = {**_call_decl.dynamic_types, "self.parent": {**_call_decl.dynamic_types["self.parent"], "entity_refs": ty.TDict(ty.Str, ty.Str), "returned_entity_id": ty.TOpt(ty.Str)}}
_call_decl.properties = ("C15", "C20", "C02")
CONTRACTS.insert(2, _call_decl)
