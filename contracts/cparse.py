"""C01 (documented precedence and associativity) — DSLParser.parse against an INDEPENDENT reading of the precedence table of
LANGUAGE_SPEC.md ("Operator Precedence"): the S3 semantics and the e2e judge take their syntax trees from the compiler's own parser, so a
precedence fault would be invisible to them; this box closes that gap.

Documented, tightest first: unary + - !  >  ** (right-assoc.)  >  * / %  >  + -  >  << >>  >  AND  >  XOR  >  OR  >  projection `|`  >
comparisons  >  output specifier `:`  >  && and  >  || or ; all binary operators but ** associate to the left.
For every ordered pair of binary operators the flat text `a OP1 b OP2 c` (and the forms with a unary operator, a projection and an output
specifier) must parse to the tree the table prescribes.  Evaluated on the REAL parser over the enumerated texts: bounded."""
from __future__ import annotations

from pyvc import types as ty
from pyvc.contract import Contract

PQ = "dsl_compiler/src/parsing/parser.py::DSLParser.parse"
# level: higher binds tighter
LEVELS = [(1, ["||", "or"]), (2, ["&&", "and"]), (4, ["==", "!=", "<", "<=", ">", ">="]), (6, ["OR"]), (7, ["XOR"]), (8, ["AND"]), (9, ["<<", ">>"]),
          (10, ["+", "-"]), (11, ["*", "/", "%"]), (12, ["**"])]
LEVEL = {op: lv for lv, ops in LEVELS for op in ops}
NORMAL = {"and": "&&", "or": "||"}
RIGHT_ASSOC = {"**"}


def sexpr(node):
    """the shape of a parsed expression"""
    n = type(node).__name__
    if n == "BinaryOp":
        return (node.op, sexpr(node.left), sexpr(node.right))
    if n == "UnaryOp":
        return ("u" + node.op, sexpr(node.expr))
    if n == "ProjectionExpr":
        return ("|", sexpr(node.expr), str(node.target_type))
    if n == "OutputSpecExpr":
        return (":", sexpr(node.condition), sexpr(node.output_value))
    if n == "IdentifierExpr":
        return node.name
    if n == "NumberLiteral":
        return node.value
    if n == "SignalLiteral" and node.signal_type is None:
        return sexpr(node.value)
    return (n,)


def _binary_expected(o1, o2):
    n1, n2 = NORMAL.get(o1, o1), NORMAL.get(o2, o2)
    l1, l2 = LEVEL[o1], LEVEL[o2]
    if l1 > l2 or (l1 == l2 and o1 not in RIGHT_ASSOC):
        return (n2, (n1, "a", "b"), "c")
    return (n1, "a", (n2, "b", "c"))


def parse_arg_sets():
    from dsl_compiler.src.parsing.parser import DSLParser
    out = []
    ops = [op for _lv, os_ in LEVELS for op in os_]
    cases = []
    for o1 in ops:
        for o2 in ops:
            cases.append((f"a {o1} b {o2} c", _binary_expected(o1, o2)))
    for o in ops:
        n = NORMAL.get(o, o)
        # unary binds tighter than every binary operator, on either side
        cases.append((f"-a {o} b", (n, ("u-", "a"), "b")))
        cases.append((f"!a {o} b", (n, ("u!", "a"), "b")))
        cases.append((f"a {o} -b", (n, "a", ("u-", "b"))))
        # projection: looser than arithmetic / bitwise, tighter than comparisons and logic
        if LEVEL[o] >= 6:
            cases.append((f'a {o} b | "signal-C"', ("|", (n, "a", "b"), "signal-C")))
        else:
            cases.append((f'a {o} b | "signal-C"', (n, "a", ("|", "b", "signal-C"))))
            cases.append((f'a | "signal-C" {o} b', (n, ("|", "a", "signal-C"), "b")))
    # the output specifier: looser than comparisons, tighter than && / ||
    cases += [("a > b : c", (":", (">", "a", "b"), "c")), ("a > b : c && d", ("&&", (":", (">", "a", "b"), "c"), "d")),
              ("d || a > b : c", ("||", "d", (":", (">", "a", "b"), "c"))), ("a + 1 > b : c", (":", (">", ("+", "a", 1), "b"), "c")),
              ("a ** b ** c ** d", ("**", "a", ("**", "b", ("**", "c", "d")))), ("a - b - c - d", ("-", ("-", ("-", "a", "b"), "c"), "d")),
              ("a / b * c % d", ("%", ("*", ("/", "a", "b"), "c"), "d")), ("-a ** b", ("**", ("u-", "a"), "b")), ("- - a", ("u-", ("u-", "a"))),
              ("!(a > b) && c", ("&&", ("u!", (">", "a", "b")), "c"))]
    for text, want in cases:
        p = DSLParser()
        p._scenario = {"text": text, "expected": want}
        out.append({"self": p, "source_code": f"Signal r = {text};", "filename": "<string>"})
    return out


def _parse_post(a, res):
    stmt = res.statements[0]
    return sexpr(stmt.value) == a.self._scenario["expected"]


parse_c = Contract(qualname=PQ, params={"self": ty.TOpaque("parser"), "source_code": ty.TOpaque("text"), "filename": ty.TOpaque("name")},
                   ensures=[("the expression parses to the tree the documented precedence table prescribes", _parse_post)],
                   verify=False, properties=("C01",), note="evaluated on the real parser over an enumerated box (bounded stand-in)")
CONTRACTS = [parse_c]
