"""C01 (documented precedence and associativity) — DSLParser.parse against an INDEPENDENT reading of the precedence table of
LANGUAGE_SPEC.md ("Operator Precedence"): the S3 semantics and the e2e judge take their syntax trees from the compiler's own parser, so a
precedence fault would be invisible to them; this box closes that gap.

Documented, tightest first: unary + - !  >  ** (right-assoc.)  >  * / %  >  + -  >  << >>  >  AND  >  XOR  >  OR  >  projection `|`  >
comparisons  >  output specifier `:`  >  && and  >  || or ; all binary operators but ** associate to the left.
For every ordered pair of binary operators the flat text `a OP1 b OP2 c` (and the forms with a unary operator, a projection and an output
specifier) must parse to the tree the table prescribes.  Evaluated on the REAL parser over the enumerated texts: bounded."""
from __future__ import annotations

from pyvc import types as ty
from pyvc.contract import Contract

PQ = "dsl_compiler/src/parsing/parser.py::DSLParser.parse"
# level: higher binds tighter
LEVELS = [(1, ["||", "or"]), (2, ["&&", "and"]), (4, ["==", "!=", "<", "<=", ">", ">="]), (6, ["OR"]), (7, ["XOR"]), (8, ["AND"]), (9, ["<<", ">>"]),
          (10, ["+", "-"]), (11, ["*", "/", "%"]), (12, ["**"])]
LEVEL = {op: lv for lv, ops in LEVELS for op in ops}
NORMAL = {"and": "&&", "or": "||"}
RIGHT_ASSOC = {"**"}


def sexpr(node):
    """the shape of a parsed expression"""
    n = type(node).__name__
    if n == "BinaryOp":
        return (node.op, sexpr(node.left), sexpr(node.right))
    if n == "UnaryOp":
        return ("u" + node.op, sexpr(node.expr))
    if n == "ProjectionExpr":
        return ("|", sexpr(node.expr), str(node.target_type))
    if n == "OutputSpecExpr":
        return (":", sexpr(node.condition), sexpr(node.output_value))
    if n == "IdentifierExpr":
        return node.name
    if n == "NumberLiteral":
        return node.value
    if n == "SignalLiteral" and node.signal_type is None:
        return sexpr(node.value)
    return expr_shape(node, fallback=False)


def _binary_expected(o1, o2):
    n1, n2 = NORMAL.get(o1, o1), NORMAL.get(o2, o2)
    l1, l2 = LEVEL[o1], LEVEL[o2]
    if l1 > l2 or (l1 == l2 and o1 not in RIGHT_ASSOC):
        return (n2, (n1, "a", "b"), "c")
    return (n1, "a", (n2, "b", "c"))


def parse_arg_sets():
    from dsl_compiler.src.parsing.parser import DSLParser
    out = []
    ops = [op for _lv, os_ in LEVELS for op in os_]
    cases = []
    for o1 in ops:
        for o2 in ops:
            cases.append((f"a {o1} b {o2} c", _binary_expected(o1, o2)))
    for o in ops:
        n = NORMAL.get(o, o)
        # unary binds tighter than every binary operator, on either side
        cases.append((f"-a {o} b", (n, ("u-", "a"), "b")))
        cases.append((f"!a {o} b", (n, ("u!", "a"), "b")))
        cases.append((f"a {o} -b", (n, "a", ("u-", "b"))))
        # projection: looser than arithmetic / bitwise, tighter than comparisons and logic
        if LEVEL[o] >= 6:
            cases.append((f'a {o} b | "signal-C"', ("|", (n, "a", "b"), "signal-C")))
        else:
            cases.append((f'a {o} b | "signal-C"', (n, "a", ("|", "b", "signal-C"))))
            cases.append((f'a | "signal-C" {o} b', (n, ("|", "a", "signal-C"), "b")))
    # the output specifier: looser than comparisons, tighter than && / ||
    cases += [("a > b : c", (":", (">", "a", "b"), "c")), ("a > b : c && d", ("&&", (":", (">", "a", "b"), "c"), "d")),
              ("d || a > b : c", ("||", "d", (":", (">", "a", "b"), "c"))), ("a + 1 > b : c", (":", (">", ("+", "a", 1), "b"), "c")),
              ("a ** b ** c ** d", ("**", "a", ("**", "b", ("**", "c", "d")))), ("a - b - c - d", ("-", ("-", ("-", "a", "b"), "c"), "d")),
              ("a / b * c % d", ("%", ("*", ("/", "a", "b"), "c"), "d")), ("-a ** b", ("**", ("u-", "a"), "b")), ("- - a", ("u-", ("u-", "a"))),
              ("!(a > b) && c", ("&&", ("u!", (">", "a", "b")), "c"))]
    for text, want in cases:
        p = DSLParser()
        p._scenario = {"text": text, "expected": want}
        out.append({"self": p, "source_code": f"Signal r = {text};", "filename": "<string>"})
    return out


def _parse_post(a, res):
    stmt = res.statements[0]
    return sexpr(stmt.value) == a.self._scenario["expected"]


parse_c = Contract(qualname=PQ, params={"self": ty.TOpaque("parser"), "source_code": ty.TOpaque("text"), "filename": ty.TOpaque("name")},
                   ensures=[("the expression parses to the tree the documented precedence table prescribes", _parse_post)],
                   verify=False, properties=("C01",), note="evaluated on the real parser over an enumerated box (bounded stand-in)")
CONTRACTS = [parse_c]


# =================================================================================================
# Statements and the non-operator expression forms (C03 C05 C09 C14 C15 C16): the tree carries exactly what the text says —
# loop headers (start, stop, step incl. negative literals and names, value lists in order), declarations (type, name), memory declarations,
# write arguments (value / when / set / reset and WHICH of set / reset came first), reads, place arguments in order with their property
# dictionary, function parameters (type and name, in order), returns, bundle literals / selections / any / all, `.output`, `.type`.
# Evaluated on the REAL parser over the enumerated texts: bounded.
# =================================================================================================
def stmt_shape(node):
    n = type(node).__name__
    if n == "ForStmt":
        return ("for", node.iterator_name, node.start, node.stop, node.step, node.values, [stmt_shape(s) for s in node.body])
    if n == "DeclStmt":
        return ("decl", node.type_name, node.name, expr_shape(node.value))
    if n == "AssignStmt":
        t = node.target
        tgt = ("prop", t.object_name, t.property_name) if type(t).__name__ == "PropertyAccess" else ("name", t.name)
        return ("assign", tgt, expr_shape(node.value))
    if n == "MemDecl":
        return ("mem", node.name, node.signal_type)
    if n == "ExprStmt":
        return ("expr", expr_shape(node.expr))
    if n == "ReturnStmt":
        return ("return", expr_shape(node.expr))
    if n == "FuncDecl":
        return ("func", node.name, [(p.type_name, p.name) for p in node.params], [stmt_shape(s) for s in node.body])
    if n == "ImportStmt":
        return ("import", node.path)
    return (n,)


def expr_shape(node, fallback=True):
    n = type(node).__name__
    if n == "SignalLiteral" and node.signal_type is None:
        return sexpr(node.value)   # a bare number / expression
    if n == "WriteExpr":
        return ("write", node.memory_name, expr_shape(node.value), expr_shape(node.when) if node.when is not None else None,
                expr_shape(node.set_signal) if node.set_signal is not None else None, expr_shape(node.reset_signal) if node.reset_signal is not None else None, node.set_priority)
    if n == "ReadExpr":
        return ("read", node.memory_name)
    if n == "CallExpr":
        return ("call", node.name, [expr_shape(x) for x in node.args])
    if n == "SignalLiteral":
        return ("lit", node.signal_type if not hasattr(node.signal_type, "object_name") else ("type-of", node.signal_type.object_name), expr_shape(node.value))
    if n == "StringLiteral":
        return ("str", node.value)
    if n == "DictLiteral":
        return ("dict", [(k, expr_shape(v)) for k, v in node.entries.items()])
    if n == "BundleLiteral":
        return ("bundle", [expr_shape(x) for x in node.elements])
    if n == "BundleSelectExpr":
        return ("select", expr_shape(node.bundle), node.signal_type)
    if n == "BundleAnyExpr":
        return ("any", expr_shape(node.bundle))
    if n == "BundleAllExpr":
        return ("all", expr_shape(node.bundle))
    if n == "EntityOutputExpr":
        return ("output", node.entity_name)
    if n == "PropertyAccessExpr":
        return ("propread", node.object_name, node.property_name)
    if n == "ProjectionExpr" and hasattr(node.target_type, "object_name"):
        return ("|", expr_shape(node.expr), ("type-of", node.target_type.object_name))
    return sexpr(node) if fallback else (n,)


def statement_arg_sets():
    from dsl_compiler.src.parsing.parser import DSLParser
    cases = []
    body = "Signal t = i;"
    bshape = [("decl", "Signal", "t", "i")]
    for a, b in ((0, 3), (5, 0), (-3, -4), (-2, 3), (2, 2), (0x10, 0b11)):
        cases.append((f"for i in {a}..{b} {{ {body} }}", ("for", "i", a, b, 1, None, bshape)))
        for s in (1, 2, -1, -3, 7):
            cases.append((f"for i in {a}..{b} step {s} {{ {body} }}", ("for", "i", a, b, s, None, bshape)))
    cases += [(f"for k in n..m step s {{ {body} }}", ("for", "k", "n", "m", "s", None, bshape)),
              (f"for k in 0..n {{ {body} }}", ("for", "k", 0, "n", 1, None, bshape)),
              (f"for i in [4, -1, 9] {{ {body} }}", ("for", "i", None, None, None, [4, -1, 9], bshape)),
              (f"for i in [7] {{ {body} }}", ("for", "i", None, None, None, [7], bshape)),
              ("for i in 0..2 { for j in [1, 2] { Signal t = i + j; } }", ("for", "i", 0, 2, 1, None, [("for", "j", None, None, None, [1, 2], [("decl", "Signal", "t", ("+", "i", "j"))])]))]
    for tname in ("int", "Signal", "Bundle", "Entity"):
        cases.append((f"{tname} v = w;", ("decl", tname, "v", "w")))
    cases += [('Memory m: "signal-M";', ("mem", "m", "signal-M")), ("Memory m;", ("mem", "m", None)),
              ("m.write(v);", ("expr", ("write", "m", "v", None, None, None, True))),
              ("m.write(v, when=c > 0);", ("expr", ("write", "m", "v", (">", "c", 0), None, None, True))),
              ("m.write(1, set=s, reset=r);", ("expr", ("write", "m", 1, None, "s", "r", True))),
              ("m.write(1, reset=r, set=s);", ("expr", ("write", "m", 1, None, "s", "r", False))),
              ("m.write(v + 1, set=s > 3, reset=r < 2);", ("expr", ("write", "m", ("+", "v", 1), None, (">", "s", 3), ("<", "r", 2), True))),
              ("Signal o = m.read();", ("decl", "Signal", "o", ("read", "m"))),
              ('Entity e = place("small-lamp", 3, -4);', ("decl", "Entity", "e", ("call", "place", [("str", "small-lamp"), 3, -4]))),
              ('Entity e = place("inserter", x, y + 1, {direction: 4, recipe: "gear"});',
               ("decl", "Entity", "e", ("call", "place", [("str", "inserter"), "x", ("+", "y", 1), ("dict", [("direction", 4), ("recipe", ("str", "gear"))])]))),
              ("e.enable = x > 3;", ("assign", ("prop", "e", "enable"), (">", "x", 3))), ("v = w + 1;", ("assign", ("name", "v"), ("+", "w", 1))),
              ("func f(Signal a, int b, Entity c) { Signal t = a + b; return t; }",
               ("func", "f", [("Signal", "a"), ("int", "b"), ("Entity", "c")], [("decl", "Signal", "t", ("+", "a", "b")), ("return", "t")])),
              ("func g() { return 1; }", ("func", "g", [], [("return", 1)])),
              ("Signal r = f(x, 2, y + 1);", ("decl", "Signal", "r", ("call", "f", ["x", 2, ("+", "y", 1)]))),
              ('Signal s = ("signal-A", 5);', ("decl", "Signal", "s", ("lit", "signal-A", 5))), ('Signal s = ("signal-A", x + 1);', ("decl", "Signal", "s", ("lit", "signal-A", ("+", "x", 1)))),
              ("Signal s = (a.type, 3);", ("decl", "Signal", "s", ("lit", ("type-of", "a"), 3))), ("Signal s = x | a.type;", ("decl", "Signal", "s", ("|", "x", ("type-of", "a")))),
              ('Bundle b = { ("signal-A", 1), x, c };', ("decl", "Bundle", "b", ("bundle", [("lit", "signal-A", 1), "x", "c"]))),
              ('Signal s = b["signal-A"];', ("decl", "Signal", "s", ("select", "b", "signal-A"))),
              ("Signal s = any(b) > 3;", ("decl", "Signal", "s", (">", ("any", "b"), 3))), ("Signal s = all(b) < 3;", ("decl", "Signal", "s", ("<", ("all", "b"), 3))),
              ("Bundle c = ch.output;", ("decl", "Bundle", "c", ("output", "ch"))), ('Signal s = ch.output["iron-plate"];', ("decl", "Signal", "s", ("select", ("output", "ch"), "iron-plate"))),
              ("Bundle f = (b > 3) : b;", ("decl", "Bundle", "f", (":", (">", "b", 3), "b"))), ("Signal s = (x > 3) : -2;", ("decl", "Signal", "s", (":", (">", "x", 3), -2)))]
    out = []
    for text, want in cases:
        p = DSLParser()
        p._scenario = {"text": text, "expected": want}
        out.append({"self": p, "source_code": text, "filename": "<string>"})
    return out


def _stmt_post(a, res):
    got = stmt_shape(res.statements[0])
    return _norm(got) == _norm(a.self._scenario["expected"])


def _norm(x):
    if isinstance(x, (list, tuple)):
        return tuple(_norm(y) for y in x)
    return x


statement_c = Contract(qualname=PQ, params={"self": ty.TOpaque("parser"), "source_code": ty.TOpaque("text"), "filename": ty.TOpaque("name")},
                       ensures=[("the statement parses to a tree that carries exactly what the text says (names, numbers with their sign, order of arguments, which of set / reset came first)",
                                 _stmt_post)],
                       verify=False, properties=("C16", "C05", "C03", "C09", "C15", "C14"), note="statement forms; evaluated on the real parser over an enumerated box (bounded stand-in)")
CONTRACTS.append(statement_c)
