"""C01 / C12: ExpressionLowerer._attempt_wire_merge — an addition is turned into a shared wire only when the wire adds.

Physical fact used (S2, assumed in the effect of IRBuilder.wire_merge and in the well-formedness of existing merge nodes):
the value of signal T on a wire is the int32 wrap-around sum, over the DISTINCT producer entities connected to it, of what
each producer emits on T.  So a merge node over references r_1..r_n with output type T carries

    mv(r_1..r_n, T) = wrap32( sum of den(r_i) over the i whose source id differs from every earlier one and whose signal
                              type is T )

and `l + r` may be replaced by a merge only if that equals wrap32(den(l) + den(r)): every member must have type T and
no producer may occur twice (x + x is 2x, but one producer wired twice is x).

Contract (postcondition taken from the property: the result denotes the value of the expression):
  result is None (the caller falls back to an arithmetic combinator), or
  value(result) == wrap32(den(left_ref) + den(right_ref)), where value(result) is the mv of the node the result refers to
  (a fresh merge, the reused merge node in its FINAL state, or a folded constant by the contract of _try_fold_wire_merge),
and every merge node created or re-used is well formed afterwards (members pairwise distinct, all of the node's type) —
which is what the precondition assumes of the merge nodes it is given (inductive invariant of IRWireMerge nodes of
scalar type; `bundle` merges are created elsewhere and never reach this function: their type name is not a signal type).

Scenarios: each operand is an integer / a reference to a non-merge producer ("simple"), a reference to a two-member merge
node created for exactly this sub-expression ("own": may be re-used) or for another one ("other").  Bounded in the number
of members of the merges given (2); values, ids and types symbolic."""
from __future__ import annotations

import z3

from contracts.c01 import den
from pyvc import types as ty
from pyvc.contract import Contract
from pyvc.ghost import ghost, isa
from pyvc.values import SObj, fresh_name
from spec import arith32 as A
from spec import ops
from spec.ops import And, Implies, Not, Or

EL = "dsl_compiler/src/lowering/expression_lowerer.py::ExpressionLowerer."
IRB = "dsl_compiler/src/ir/builder.py::IRBuilder."
_OPQ = ty.TOpaque("x")
_SRC = ty.TObj("SignalRef", only=("SignalRef",), ftypes=(("signal_type", ty.Str), ("source_id", ty.Str)))
_REF = ty.TUnion((ty.Int, _SRC))
STATE = {}


def mv(refs, out):
    """value a wire merge of `refs` carries on signal `out` (see module docstring)"""
    total = 0
    for i, r in enumerate(refs):
        first = And(*[r.source_id != q.source_id for q in refs[:i]]) if i else True
        total = total + ops.ite(And(first, r.signal_type == out), den(r), 0)
    return A.wrap32(total)


def well_formed(refs, out):
    cs = [r.signal_type == out for r in refs]
    cs += [refs[i].source_id != refs[j].source_id for i in range(len(refs)) for j in range(i)]
    return And(*cs) if cs else True


def _node_for(ex, ref, shape, side):
    key = ("node", side)
    if key in STATE:
        return STATE[key]
    if shape == "simple":
        node = SObj(["IRConst", "IREntityPropRead", "IRArith", "IRDecider", "IREntityOutput", "IRMemRead"], fresh_name("producer_" + side), lazy=True)
    else:
        node = SObj(["IRWireMerge"], fresh_name("merge_" + side), lazy=True)
        members = [ex.mk(_SRC, fresh_name(f"{side}_member{i}"), register=True) for i in range(2)]
        node._fields["sources"] = members
        node._fields["output_type"] = z3.String(fresh_name(f"{side}_merge_type"))
        node._fields["node_id"] = ref.source_id
        expr = ex.args_ns.expr
        node._fields["source_ast"] = getattr(expr, side) if shape == "own" else SObj(["BinaryOp"], fresh_name("other_expr"), lazy=True)
        STATE[("members", side)] = list(members)
        STATE[("type", side)] = node._fields["output_type"]
    STATE[key] = node
    return node


def _make(shapes):
    lshape, rshape = shapes

    def get_op(ex, a):
        ns = ex.args_ns
        for side, ref, shape in (("left", ns.left_ref, lshape), ("right", ns.right_ref, rshape)):
            if isinstance(ref, SObj) and a.node_id is ref.source_id:
                return _node_for(ex, ref, shape, side)
        raise NotImplementedError("lookup of a node that is not an operand's producer")

    def simple(ex, a):
        ns = ex.args_ns
        ref = a.value_ref
        side = "left" if ref is ns.left_ref else "right"
        return ghost(ref, "simple", ty.Bool)

    def reset(a):
        STATE.clear()
        return True

    def all_refs(a):
        out = [r for r in (a.left_ref, a.right_ref) if isinstance(r, SObj)]
        for side in ("left", "right"):
            out += STATE.get(("members", side), [])
        return out

    def pre_nodes(a):
        """materialise the operand nodes up front so that the preconditions can talk about them"""
        ex = SObj.CUR
        for side, ref, shape in (("left", a.left_ref, lshape), ("right", a.right_ref, rshape)):
            if isinstance(ref, SObj):
                _node_for(ex, ref, shape, side)
        return True

    def pre_merges(a):
        cs = []
        for side, ref, shape in (("left", a.left_ref, lshape), ("right", a.right_ref, rshape)):
            if isinstance(ref, SObj) and shape != "simple":
                members, t = STATE[("members", side)], STATE[("type", side)]
                cs += [well_formed(members, t), ref.signal_type == t, den(ref) == mv(members, t)]
        return And(*cs) if cs else True

    def pre_same_producer(a):
        refs = all_refs(a)
        cs = []
        for i in range(len(refs)):
            for j in range(i):
                cs.append(Implies(refs[i].source_id == refs[j].source_id, And(den(refs[i]) == den(refs[j]), refs[i].signal_type == refs[j].signal_type)))
        return And(*cs) if cs else True

    def pre_i32(a):
        return And(*[A.i32(den(r)) for r in all_refs(a)] + [A.i32(den(r)) for r in (a.left_ref, a.right_ref) if not isinstance(r, SObj)])

    def merge_effect(ex, a):
        srcs = list(a.sources)
        STATE["created"] = (srcs, a.output_type)
        r = SObj(["SignalRef"], fresh_name("merge_ref"), lazy=False)
        r._fields.update({"signal_type": a.output_type, "source_id": z3.String(fresh_name("merge_id")), "@den": mv(srcs, a.output_type)})
        return r

    def fold_effect(ex, a):
        srcs = list(a.sources)
        folded = ghost(ex.args_ns.expr, "folded", ty.TOpt(ty.TObj("SignalRef", only=("SignalRef",))))
        if folded is not None:
            ex.assume(den(folded) == A.wrap32(sum(den(s) for s in srcs)))
            STATE["folded"] = folded
        return folded

    def post(a, res):
        if res is None:
            return True
        want = A.wrap32(den(a.left_ref) + den(a.right_ref))
        return And(a.expr.op == "+", _value_ok(a, res, want))

    def _value_ok(a, res, want):
        if res is STATE.get("folded"):
            return den(res) == want
        if "created" in STATE and res._fields.get("@den") is not None and res is not a.left_ref and res is not a.right_ref:
            srcs, out = STATE["created"]
            return And(den(res) == want, well_formed(srcs, out), res.signal_type == out)
        # re-used merge node: the value is that of the node in its final state
        for side, ref in (("left", a.left_ref), ("right", a.right_ref)):
            if res is ref and ("node", side) in STATE and "IRWireMerge" in STATE[("node", side)]._cls_set:
                node = STATE[("node", side)]
                srcs = node.sources
                if not isinstance(srcs, list):
                    return False
                return And(mv(srcs, node.output_type) == want, well_formed(srcs, node.output_type), res.signal_type == node.output_type)
        return False

    return Contract(
        qualname=EL + "_attempt_wire_merge",
        params={"self": ty.TObj("ExpressionLowerer", only=("ExpressionLowerer",)),
                "expr": ty.TObj("BinaryOp", only=("BinaryOp",), ftypes=(("op", ty.Str), ("left", ty.TObj("Expr")), ("right", ty.TObj("Expr")))),
                "left_ref": _REF if lshape == "simple" else _SRC, "right_ref": _REF if rshape == "simple" else _SRC,
                "result_type": ty.TOpt(ty.TObj("ValueInfo", only=("SignalValue", "IntValue")))},
        requires=[("(reset capture)", reset), ("(operand nodes)", pre_nodes),
                  ("merge nodes given are well formed and denote the sum of their members", pre_merges),
                  ("references to one producer denote one value", pre_same_producer), ("values are int32", pre_i32)],
        ensures=[("None, or the result denotes wrap32(left + right) on a well-formed merge", post)],
        uses={"ExpressionLowerer._gather_merge_sources_from_ref": "inline", "IRBuilder.get_operation": Contract(
                  qualname=IRB + "get_operation", params={"self": _OPQ, "node_id": _OPQ}, effect=get_op, verify=False, note="dictionary lookup: the producer node of the reference"),
              "ExpressionLowerer._is_simple_source_ref": Contract(
                  qualname=EL + "_is_simple_source_ref", params={"self": _OPQ, "value_ref": _OPQ}, effect=simple, verify=False,
                  note="verified separately (contracts.c06): any outcome here"),
              "fn:get_signal_type_name": Contract(
                  qualname="dsl_compiler/src/semantic/type_system.py::get_signal_type_name", params={"value_type": _OPQ}, returns=ty.TOpt(ty.Str), verify=False,
                  note="three-line accessor (any name or None)"),
              "opaque.ensure_signal_registered": "skip",
              "ExpressionLowerer._try_fold_wire_merge": Contract(
                  qualname=EL + "_try_fold_wire_merge", params={"self": _OPQ, "sources": _OPQ, "output_type": _OPQ, "source_ast": _OPQ}, effect=fold_effect, verify=False,
                  note="verified separately (contracts.c11, lists of 2..4 members): None, or a constant carrying the wrap-around sum of the members"),
              "IRBuilder.wire_merge": Contract(
                  qualname=IRB + "wire_merge", params={"self": _OPQ, "sources": _OPQ, "output_type": _OPQ, "source_ast": _OPQ}, effect=merge_effect, verify=False,
                  note="ASSUMED (S2 network sum): a merge node carries, on its type, the sum over its DISTINCT producers of that type"),
              "opaque.info": "skip"},
        dynamic_types={"self": {"ir_builder": ty.TObj("IRBuilder", only=("IRBuilder",)), "parent": ty.TOpaque("parent"), "diagnostics": ty.TOpaque("diag")}},
        properties=("C01", "C12", "C06"), min_obligations=2, no_replay=True, note=f"left {lshape}, right {rshape}")


CONTRACTS = [_make((l, r)) for l in ("simple", "own", "other") for r in ("simple", "own", "other")]


# =================================================================================================
# Projection `expr | "signal-T"` (C01, C13): the result carries the VALUE of expr on signal T.
#   _lower_projection_from_signal   same type -> the reference itself; else the producer is retyped (contract of
#                                   _try_fold_projection_into_source: same node, target type) or a `+ 0` combinator onto T is added;
#                                   a declared input stays declared through the projection
#   _lower_projection_from_int      a constant with that value on T
#   lower_projection_expr           dispatch by what the operand lowers to; the target name is registered with the signal registry
# =================================================================================================
from contracts.c01 import builder_arith as _builder_arith, builder_const as _builder_const  # noqa: E402

PJ = {}


def _pj_reset(a):
    PJ.clear()
    return True


def _pj_fold(ex, a):
    src = a.source_ref
    r = ghost(ex.args_ns.expr, "folded", ty.TOpt(ty.TObj("SignalRef", only=("SignalRef",))))
    if r is not None:
        ex.assume(And(den(r) == den(src), r.signal_type == a.target_type, r.source_id == src.source_id))
        PJ["folded"] = r
    return r


def _pj_get_op(ex, a):
    ns = ex.args_ns
    if a.node_id is ns.source_ref.source_id:
        return ghost(ns.source_ref, "node", ty.TOpt(ty.TObj("IRNode", only=("IRConst", "IRArith", "IRDecider", "IRMemRead"), ftypes=(("debug_metadata", ty.TRecord((("user_declared", ty.Bool),))),))))
    node = PJ.get("result_node")
    if node is None:
        node = SObj(["IRArith"], fresh_name("projection_node"), lazy=False)
        node._fields["debug_metadata"] = {}
        PJ["result_node"] = node
    return node


def _pj_register(ex, a):
    PJ.setdefault("registered", []).append(a.signal_key)
    return None


_pj_fold_c = Contract(qualname=EL + "_try_fold_projection_into_source", params={"self": _OPQ, "source_ref": _OPQ, "target_type": _OPQ, "proj_expr": _OPQ}, effect=_pj_fold, verify=False,
                      note="verified separately (contracts.c13): None, or a reference to the SAME node on the target type (the node now outputs on it)")
_pj_getop_c = Contract(qualname=IRB + "get_operation", params={"self": _OPQ, "node_id": _OPQ}, effect=_pj_get_op, verify=False, note="dictionary lookup: the producer node of a reference")
_pj_reg_c = Contract(qualname="dsl_compiler/src/lowering/lowerer.py::ASTLowerer.ensure_signal_registered", params={"self": _OPQ, "signal_key": _OPQ, "signal_type": _OPQ},
                     defaults={"signal_type": None}, effect=_pj_register, verify=False, note="registers the name with the signal registry (recorded)")
_PJ_USES = {"ExpressionLowerer._try_fold_projection_into_source": _pj_fold_c, "IRBuilder.get_operation": _pj_getop_c, "ASTLowerer.ensure_signal_registered": _pj_reg_c,
            "IRBuilder.arithmetic": _builder_arith, "IRBuilder.const": _builder_const, "ExpressionLowerer._attach_expr_context": "skip", "ExpressionLowerer._error": "skip"}
_PJ_DYN = {"self": {"ir_builder": ty.TObj("IRBuilder", only=("IRBuilder",)), "parent": ty.TObj("ASTLowerer", only=("ASTLowerer",)), "diagnostics": ty.TOpaque("diag")}}
_PEXPR = ty.TObj("ProjectionExpr", only=("ProjectionExpr",))


def _from_signal_post(a, res):
    src = a.source_ref
    cs = [den(res) == den(src), res.signal_type == a.target_type]
    if res is src:
        return And(*cs)
    if res is PJ.get("folded"):
        return And(*cs)
    # a new combinator: the target is registered, and a declared producer stays declared
    node = src._fields.get("@node")
    rn = PJ.get("result_node")
    cs.append(any(r is a.target_type for r in PJ.get("registered", [])))
    if node is not None:
        declared = node.debug_metadata["user_declared"]
        marked = rn is not None and rn._fields["debug_metadata"].get("user_declared") is True
        cs.append(declared if marked else Not(declared))
    return And(*[x if not isinstance(x, bool) else z3.BoolVal(x) for x in cs])


CONTRACTS.append(Contract(
    qualname=EL + "_lower_projection_from_signal", params={"self": ty.TObj("ExpressionLowerer", only=("ExpressionLowerer",)), "expr": _PEXPR, "source_ref": _SRC, "target_type": ty.Str},
    requires=[("(reset capture)", _pj_reset), ("values are int32", lambda a: A.i32(den(a.source_ref)))],
    ensures=[("the result carries the operand's value on the target signal (same reference / retyped producer / `+ 0` combinator); a declared input stays declared", _from_signal_post)],
    uses=_PJ_USES, dynamic_types=_PJ_DYN, properties=("C01", "C13"), min_obligations=3, no_replay=True))

CONTRACTS.append(Contract(
    qualname=EL + "_lower_projection_from_int", params={"self": ty.TObj("ExpressionLowerer", only=("ExpressionLowerer",)), "expr": _PEXPR, "source_value": ty.Int, "target_type": ty.Str},
    requires=[("(reset capture)", _pj_reset)],
    ensures=[("a constant with that value on the target signal, the target registered",
              lambda a, res: And(den(res) == a.source_value, res.signal_type == a.target_type, any(r is a.target_type for r in PJ.get("registered", []))))],
    uses=_PJ_USES, dynamic_types=_PJ_DYN, properties=("C01", "C13"), min_obligations=1, no_replay=True))


def _pj_lower(ex, a):
    v = ex.mk(_REF, fresh_name("operand"), register=True)
    PJ["operand"] = v
    return v


def _pj_resolve_type(ex, a):
    return ghost(ex.args_ns.expr, "target", ty.TOpt(ty.Str))


def _pj_from(kind):
    def eff(ex, a):
        PJ[kind] = a
        r = SObj(["SignalRef"], fresh_name(kind), lazy=True)
        PJ[kind + "_result"] = r
        return r
    return eff


def _dispatch_post(a, res):
    v = PJ.get("operand")
    t = a.expr._fields.get("@target")
    want_t = t if t is not None else z3.String("fresh_implicit_type")
    if isinstance(v, SObj):
        c = PJ.get("from_signal")
        return c is not None and "from_int" not in PJ and res is PJ["from_signal_result"] and c.source_ref is v and (c.target_type is want_t or c.target_type.eq(want_t))
    c = PJ.get("from_int")
    return c is not None and "from_signal" not in PJ and res is PJ["from_int_result"] and c.source_value is v and (c.target_type is want_t or c.target_type.eq(want_t))


CONTRACTS.append(Contract(
    qualname=EL + "lower_projection_expr", params={"self": ty.TObj("ExpressionLowerer", only=("ExpressionLowerer",)), "expr": ty.TObj("ProjectionExpr", only=("ProjectionExpr",), ftypes=(("expr", ty.TObj("Expr")),))},
    requires=[("(reset capture)", _pj_reset)],
    ensures=[("the operand is lowered once and projected by the rule for what it lowered to, onto the resolved target (a fresh implicit type after a reported error)", _dispatch_post)],
    uses={"ExpressionLowerer.lower_expr": Contract(qualname=EL + "lower_expr", params={"self": _OPQ, "expr": _OPQ}, effect=_pj_lower, verify=False, note="the lowered operand: an integer or a signal reference"),
          "ExpressionLowerer._resolve_signal_type": Contract(qualname=EL + "_resolve_signal_type", params={"self": _OPQ, "type_ref": _OPQ, "node": _OPQ}, effect=_pj_resolve_type, verify=False,
                                                             note="the target signal name (None after a reported error)"),
          "IRBuilder.allocate_implicit_type": Contract(qualname=IRB + "allocate_implicit_type", params={"self": _OPQ}, effect=lambda ex, a: z3.String("fresh_implicit_type"), verify=False,
                                                       note="fresh implicit type name"),
          "ExpressionLowerer._lower_projection_from_signal": Contract(qualname=EL + "_lower_projection_from_signal", params={"self": _OPQ, "expr": _OPQ, "source_ref": _OPQ, "target_type": _OPQ},
                                                                      effect=_pj_from("from_signal"), verify=False, note="proved above"),
          "ExpressionLowerer._lower_projection_from_int": Contract(qualname=EL + "_lower_projection_from_int", params={"self": _OPQ, "expr": _OPQ, "source_value": _OPQ, "target_type": _OPQ},
                                                                   effect=_pj_from("from_int"), verify=False, note="proved above"),
          "ExpressionLowerer._error": "skip"},
    dynamic_types=_PJ_DYN, properties=("C01", "C13"), min_obligations=2, no_replay=True))


# =================================================================================================
# Signal literals `("signal-T", value)` (C01, C11):
#   _lower_literal_value   the compile-time value when the value expression has one (contract of extract_constant_int), else what
#                          the expression lowers to
#   _literal_ref           an integer value -> a constant with that value on T; a run-time value -> THAT value carried on T (the
#                          projection contract above); never the constant 0 for a value that exists
#   lower_signal_literal   typed literal: the value on the resolved type T (registered); untyped literal of integer kind: the bare
#                          integer expression
# =================================================================================================
SLIT = {}


def _sl_reset(a):
    SLIT.clear()
    return True


def _sl_extract(ex, a):
    return ghost(a.expr, "cval", ty.TOpt(ty.Int))


def _sl_lower(ex, a):
    SLIT.setdefault("lowered", []).append(a.expr)
    v = ex.mk(_REF, fresh_name("value"), register=True)
    a.expr._fields["@lowered_value"] = v
    return v


_sl_extract_c = Contract(qualname="dsl_compiler/src/lowering/constant_folder.py::ConstantFolder.extract_constant_int", params={"cls": _OPQ, "expr": _OPQ, "diagnostics": _OPQ, "symbol_resolver": _OPQ},
                         defaults={"diagnostics": None, "symbol_resolver": None}, effect=_sl_extract, verify=False, note="verified separately (contracts.c11): the S3 constant value, or None")
_sl_lower_c = Contract(qualname=EL + "lower_expr", params={"self": _OPQ, "expr": _OPQ}, effect=_sl_lower, verify=False, note="the lowered value expression: an integer or a signal reference")


def _llv_post(a, res):
    c = a.value_expr._fields.get("@cval")
    if c is not None:
        return And(not SLIT.get("lowered"), res is c)
    return len(SLIT.get("lowered", [])) == 1 and res is a.value_expr._fields.get("@lowered_value")


CONTRACTS.append(Contract(
    qualname=EL + "_lower_literal_value", params={"self": ty.TObj("ExpressionLowerer", only=("ExpressionLowerer",)), "value_expr": ty.TObj("Expr")},
    requires=[("(reset capture)", _sl_reset)],
    ensures=[("the compile-time value when there is one, else the lowered expression", _llv_post)],
    uses={"ConstantFolder.extract_constant_int": _sl_extract_c, "ExpressionLowerer.lower_expr": _sl_lower_c, "ExpressionLowerer.diagnostics": "inline"},
    dynamic_types={"self": {"parent": ty.TObj("ASTLowerer", only=("ASTLowerer",))}, "self.parent": {"diagnostics": ty.TOpaque("diag")}},
    properties=("C01", "C11"), min_obligations=2, no_replay=True))


def _pj_from_signal_value(ex, a):
    SLIT["projected"] = (a.source_ref, a.target_type)
    r = SObj(["SignalRef"], fresh_name("projected"), lazy=True)
    ex.assume(And(den(r) == den(a.source_ref), r.signal_type == a.target_type))
    return r


def _lref_post(a, res):
    v = a.value_ref
    if isinstance(v, SObj):
        return And(den(res) == den(v), res.signal_type == a.output_type, SLIT.get("projected") is not None and SLIT["projected"][0] is v)
    return And(den(res) == v, res.signal_type == a.output_type)


CONTRACTS.append(Contract(
    qualname=EL + "_literal_ref", params={"self": ty.TObj("ExpressionLowerer", only=("ExpressionLowerer",)), "output_type": ty.Str, "value_ref": _REF,
                                          "expr": ty.TObj("SignalLiteral", only=("SignalLiteral",))},
    requires=[("(reset capture)", _sl_reset)],
    ensures=[("the literal carries its value — constant or computed at run time — on its signal", _lref_post)],
    uses={"IRBuilder.const": _builder_const, "ExpressionLowerer._lower_projection_from_signal": Contract(
        qualname=EL + "_lower_projection_from_signal", params={"self": _OPQ, "expr": _OPQ, "source_ref": _OPQ, "target_type": _OPQ}, effect=_pj_from_signal_value, verify=False, note="proved above"),
          "ExpressionLowerer.ir_builder": "inline"},
    dynamic_types=_PJ_DYN | {"self.parent": {"ir_builder": ty.TObj("IRBuilder", only=("IRBuilder",))}}, properties=("C01", "C11"), min_obligations=2, no_replay=True))


def _sl_value(ex, a):
    v = ex.mk(_REF, fresh_name("literal_value"), register=True)
    SLIT["value"] = v
    SLIT["value_of"] = a.value_expr
    return v


def _sl_literal_ref(ex, a):
    SLIT["literal_ref_args"] = (a.output_type, a.value_ref)
    r = SObj(["SignalRef"], fresh_name("literal"), lazy=True)
    ex.assume(den(r) == den(a.value_ref))
    r._fields["signal_type"] = a.output_type
    r._fields["source_id"] = z3.String(fresh_name("literal_id"))
    SLIT["ref"] = r
    return r


def _sl_type(ex, a):
    return ghost(ex.args_ns.expr, "semantic_type", ty.TObj("ValueInfo", only=("IntValue", "SignalValue")))


def _sl_type_name(ex, a):
    from pyvc.values import ClassRef
    t = a.value_type
    is_int = ex.isinstance_(t, ClassRef("IntValue"))
    if is_int if isinstance(is_int, bool) else ex.branch(is_int):
        return None            # an integer has no signal name
    n = ghost(t, "name", ty.TOpt(ty.Str))
    if n is not None:
        ex.assume(z3.Length(n) > 0)   # a signal name is non-empty (as in contracts.c01 sig_type_name)
    return n


def _sl_post(typed):
    def post(a, res):
        e = a.expr
        if typed:
            t = e._fields.get("@target")
            want_t = t if t is not None else z3.String("fresh_implicit_type")
            args = SLIT.get("literal_ref_args")
            return And(res is SLIT.get("ref"), SLIT.get("value_of") is e.value, args is not None and args[1] is SLIT.get("value"), ops.eq(res.signal_type, want_t),
                       any((r is want_t) or (ops.is_sym(r) and ops.is_sym(want_t) and r.eq(want_t)) for r in PJ.get("registered", [])))
        st = e._fields.get("@semantic_type")
        name = st._fields.get("@name") if st is not None else None
        if name is not None:
            return And(res is SLIT.get("ref"), ops.eq(res.signal_type, name), SLIT.get("value_of") is e.value)
        if st is not None and isa(st, "IntValue") is True:
            return res is e.value._fields.get("@lowered_value") and "ref" not in SLIT   # the bare integer expression
        return res is SLIT.get("ref")
    return post


for _typed in (True, False):
    CONTRACTS.append(Contract(
        qualname=EL + "lower_signal_literal",
        params={"self": ty.TObj("ExpressionLowerer", only=("ExpressionLowerer",)),
                "expr": ty.TObj("SignalLiteral", only=("SignalLiteral",), ftypes=(("signal_type", ty.Str if _typed else ty.TConcrete(None)), ("value", ty.TObj("Expr"))))},
        requires=[("(reset capture)", lambda a: (_sl_reset(a), _pj_reset(a)) and True)],
        ensures=[("the literal's value on its resolved (registered) signal; an untyped integer literal stays the bare integer expression", _sl_post(_typed))],
        uses={"ExpressionLowerer._resolve_signal_type": Contract(qualname=EL + "_resolve_signal_type", params={"self": _OPQ, "type_ref": _OPQ, "node": _OPQ}, effect=_pj_resolve_type, verify=False,
                                                                 note="the literal's signal name (None after a reported error)"),
              "IRBuilder.allocate_implicit_type": Contract(qualname=IRB + "allocate_implicit_type", params={"self": _OPQ}, effect=lambda ex, a: z3.String("fresh_implicit_type"), verify=False,
                                                           note="fresh implicit type name"),
              "ASTLowerer.ensure_signal_registered": _pj_reg_c,
              "ExpressionLowerer._lower_literal_value": Contract(qualname=EL + "_lower_literal_value", params={"self": _OPQ, "value_expr": _OPQ}, effect=_sl_value, verify=False, note="proved above"),
              "ExpressionLowerer._literal_ref": Contract(qualname=EL + "_literal_ref", params={"self": _OPQ, "output_type": _OPQ, "value_ref": _OPQ, "expr": _OPQ}, effect=_sl_literal_ref, verify=False,
                                                         note="proved above: the value carried on the signal"),
              "opaque.get_expr_type": Contract(qualname="dsl_compiler/src/semantic/analyzer.py::SemanticAnalyzer.get_expr_type", params={"args": _OPQ}, effect=_sl_type, verify=False, note="the literal's type"),
              "fn:get_signal_type_name": Contract(qualname="dsl_compiler/src/semantic/type_system.py::get_signal_type_name", params={"value_type": _OPQ}, effect=_sl_type_name, verify=False,
                                                  note="three-line accessor: the signal name of a SignalValue, None for an IntValue"),
              "ExpressionLowerer.lower_expr": _sl_lower_c, "ExpressionLowerer._attach_expr_context": "skip", "ExpressionLowerer.ir_builder": "inline", "ExpressionLowerer.semantic": "inline"},
        dynamic_types=_PJ_DYN | {"self.parent": {"ir_builder": ty.TObj("IRBuilder", only=("IRBuilder",)), "semantic": ty.TOpaque("semantic")}},
        properties=("C01", "C11"), min_obligations=2, no_replay=True, note="typed literal" if _typed else "untyped literal"))
