"""SignalGraph and LayoutPlan — the two data structures every layout contract talks about through recorded effects
("records the source", "registers the reader", "adds the wire").  Data structure against an abstract view:

  view(graph) = (sources: signal -> list of producers without repetition, in first-registration order,
                 sinks:   signal -> list of readers   without repetition, in first-registration order)

  set_source(s, e)   sources[s] gets e appended unless present; nothing else changes
  add_sink(s, e)     sinks[s] gets e appended unless present; nothing else changes
  remove_sink(s, e)  e leaves sinks[s] if present; nothing else changes
  get_source(s)      the FIRST producer of s, None when there is none (observer: view unchanged)
  iter_sinks(s)      a copy of sinks[s] (observer)
  signals()          the signals that have a producer or a reader entry (observer)
  iter_edges()       for every signal with a reader entry, in sorted order: (signal, its producers, its readers) (observer)

  LayoutPlan.add_placement / get_placement / add_wire_connection / create_and_add_placement: the placement map and the wire list
  grow by exactly the given element (create_and_add_placement: a placement with the given id, type, position, role and the
  remaining keywords as properties, footprint included), lookups return the element stored under the id.

The containers are dictionaries of lists keyed by symbolic strings (outside the executor's subset), so each contract is evaluated on
the REAL method in every state reachable by up to three mutating operations over two signals and two entities: bounded stand-ins."""
from __future__ import annotations

import copy
import itertools

from pyvc import types as ty
from pyvc.contract import Contract

SG = "dsl_compiler/src/layout/signal_graph.py::SignalGraph."
LP = "dsl_compiler/src/layout/layout_plan.py::LayoutPlan."
_OPQ = ty.TOpaque("x")
_SIGS, _ENTS = ("s1", "s2"), ("A", "B")
_MUTATORS = ("set_source", "add_sink", "remove_sink")


def _view(g):
    return ({k: list(v) for k, v in g._sources.items()}, {k: list(v) for k, v in g._sinks.items()})


def _norm(view):
    """views are compared modulo empty entries (a defaultdict creates them on first touch)"""
    return ({k: v for k, v in view[0].items() if v}, {k: v for k, v in view[1].items() if v})


def _states():
    from dsl_compiler.src.layout.signal_graph import SignalGraph
    ops = [(m, s, e) for m in _MUTATORS for s in _SIGS for e in _ENTS]
    out = []
    for n in range(0, 4):
        for seq in itertools.product(ops, repeat=n):
            g = SignalGraph()
            for m, s, e in seq:
                getattr(g, m)(s, e)
            out.append(g)
    return out


def _mut_post(which):
    def post(a, res):
        before = a.self._before
        src, snk = copy.deepcopy(before[0]), copy.deepcopy(before[1])
        s, e = a.signal_id, a.entity_id
        if which == "set_source":
            if e not in src.get(s, []):
                src.setdefault(s, []).append(e)
        elif which == "add_sink":
            if e not in snk.get(s, []):
                snk.setdefault(s, []).append(e)
        else:
            if e in snk.get(s, []):
                snk[s].remove(e)
        return res is None and _norm(_view(a.self)) == _norm((src, snk))
    return post


def _obs(expect):
    def post(a, res):
        before = a.self._before
        return _norm(_view(a.self)) == _norm(before) and expect(a, before, res)
    return post


def _graph_contract(name, params, post, what):
    return Contract(qualname=SG + name, params=params, ensures=[(what, post)], verify=False, properties=("C12", "C07", "C10"),
                    note="evaluated on the real method over an enumerated box (bounded stand-in)")


_P2 = {"self": _OPQ, "signal_id": ty.Str, "entity_id": ty.Str}
_P1 = {"self": _OPQ, "signal_id": ty.Str}
graph_contracts = {
    "set_source": _graph_contract("set_source", _P2, _mut_post("set_source"), "the producer is appended unless present; nothing else changes"),
    "add_sink": _graph_contract("add_sink", _P2, _mut_post("add_sink"), "the reader is appended unless present; nothing else changes"),
    "remove_sink": _graph_contract("remove_sink", _P2, _mut_post("remove_sink"), "the reader leaves the signal's readers; nothing else changes"),
    "get_source": _graph_contract("get_source", _P1, _obs(lambda a, b, res: res == (b[0].get(a.signal_id) or [None])[0]), "the first producer, None without one; the graph is unchanged"),
    "iter_sinks": _graph_contract("iter_sinks", _P1, _obs(lambda a, b, res: res == b[1].get(a.signal_id, []) and res is not a.self._sinks.get(a.signal_id)),
                                  "a copy of the signal's readers; the graph is unchanged"),
    "signals": _graph_contract("signals", {"self": _OPQ}, _obs(lambda a, b, res: res == set(b[0]) | set(b[1])), "the signals with a producer or reader entry"),
    "iter_edges": _graph_contract("iter_edges", {"self": _OPQ}, _obs(lambda a, b, res: [(s, list(p), list(k)) for s, p, k in res] == [(s, b[0].get(s, []), b[1][s]) for s in sorted(b[1])]),
                                  "(signal, producers, readers) for every signal with a reader entry, sorted by signal"),
}
CONTRACTS = list(graph_contracts.values())


def graph_arg_sets(name):
    out = []
    for g in _states():
        calls = [()]
        if name in ("set_source", "add_sink", "remove_sink"):
            calls = [(s, e) for s in _SIGS + ("s3",) for e in _ENTS]
        elif name in ("get_source", "iter_sinks"):
            calls = [(s,) for s in _SIGS + ("s3",)]
        for c in calls:
            g2 = copy.deepcopy(g)
            g2._before = _view(g2)
            args = {"self": g2}
            if len(c) >= 1:
                args["signal_id"] = c[0]
            if len(c) == 2:
                args["entity_id"] = c[1]
            out.append(args)
    return out


def materialise(args):
    """iter_edges is a generator: the contract is stated over the list of what it yields"""
    return args


# ---------------------------------------------------------------------------------------------------------------------
def _plan_states():
    from dsl_compiler.src.layout.layout_plan import EntityPlacement, LayoutPlan, WireConnection
    out = []
    for ids in ((), ("a",), ("a", "b")):
        for nw in (0, 1, 2):
            plan = LayoutPlan()
            for i in ids:
                plan.entity_placements[i] = EntityPlacement(ir_node_id=i, entity_type="arithmetic-combinator", position=None, properties={"k": i}, role="x")
            for j in range(nw):
                plan.wire_connections.append(WireConnection(source_entity_id="a", sink_entity_id="b", signal_name=f"s{j}", wire_color="red"))
            out.append(plan)
    return out


def _plan_view(p):
    return (dict(p.entity_placements), list(p.wire_connections), list(p.power_poles))


def _add_placement_post(a, res):
    b = a.self._before
    want = dict(b[0])
    want[a.placement.ir_node_id] = a.placement
    return res is None and a.self.entity_placements == want and all(a.self.entity_placements[k] is v for k, v in want.items()) and a.self.wire_connections == b[1]


def _get_placement_post(a, res):
    b = a.self._before
    return res is b[0].get(a.ir_node_id) and _plan_view(a.self)[0] == b[0] and a.self.wire_connections == b[1]


def _add_wire_post(a, res):
    b = a.self._before
    return res is None and len(a.self.wire_connections) == len(b[1]) + 1 and a.self.wire_connections[-1] is a.connection and all(x is y for x, y in zip(a.self.wire_connections, b[1])) \
        and a.self.entity_placements == b[0]


def _create_post(a, res):
    b = a.self._before
    p = a.self.entity_placements.get(a.ir_node_id)
    if p is None or p is not res:
        return False
    extra = {k: getattr(a, k) for k in ("operation", "left_operand", "needs_wire_separation") if hasattr(a, k)}
    ok = [p.ir_node_id == a.ir_node_id, p.entity_type == a.entity_type, p.position == a.position, p.role == a.role, p.properties.get("footprint") == a.footprint,
          p.properties.get("debug_info") == a.debug_info]
    ok += [p.properties.get(k) == v for k, v in extra.items()]
    ok.append({k: v for k, v in a.self.entity_placements.items() if k != a.ir_node_id} == {k: v for k, v in b[0].items() if k != a.ir_node_id})
    ok.append(a.self.wire_connections == b[1])
    return all(ok)


def _plan_contract(name, params, post, what):
    return Contract(qualname=LP + name, params=params, ensures=[(what, post)], verify=False, properties=("C07", "C09", "C12"),
                    note="evaluated on the real method over an enumerated box (bounded stand-in)")


plan_contracts = {
    "add_placement": _plan_contract("add_placement", {"self": _OPQ, "placement": _OPQ}, _add_placement_post, "stored under its own id; every other placement and the wires unchanged"),
    "get_placement": _plan_contract("get_placement", {"self": _OPQ, "ir_node_id": ty.Str}, _get_placement_post, "the placement stored under the id, None when absent; the plan is unchanged"),
    "add_wire_connection": _plan_contract("add_wire_connection", {"self": _OPQ, "connection": _OPQ}, _add_wire_post, "the wire is appended; earlier wires and the placements unchanged"),
    "create_and_add_placement": _plan_contract("create_and_add_placement", {"self": _OPQ, "ir_node_id": ty.Str, "entity_type": ty.Str, "position": _OPQ, "footprint": _OPQ, "role": ty.Str,
                                                                            "debug_info": _OPQ, "operation": _OPQ, "left_operand": _OPQ, "needs_wire_separation": _OPQ},
                                               _create_post, "a placement with this id, type, position, role; footprint, debug info and every further keyword become its properties"),
}
CONTRACTS += list(plan_contracts.values())


def plan_arg_sets(name):
    from dsl_compiler.src.layout.layout_plan import EntityPlacement, WireConnection
    out = []
    for plan in _plan_states():
        variants = []
        if name == "add_placement":
            variants = [{"placement": EntityPlacement(ir_node_id=i, entity_type="decider-combinator", position=(1.5, 2.0), properties={}, role="y")} for i in ("a", "c")]
        elif name == "get_placement":
            variants = [{"ir_node_id": i} for i in ("a", "b", "zz")]
        elif name == "add_wire_connection":
            variants = [{"connection": WireConnection(source_entity_id="b", sink_entity_id="a", signal_name="t", wire_color="green", source_side="output", sink_side="input")}]
        else:
            variants = [{"ir_node_id": i, "entity_type": "arithmetic-combinator", "position": pos, "footprint": (1, 2), "role": "arithmetic", "debug_info": {"variable": "v"},
                         "operation": "+", "left_operand": "signal-A", "needs_wire_separation": sep} for i in ("a", "c") for pos in (None, (3.5, 4.0)) for sep in (False, True)]
        for v in variants:
            p2 = copy.deepcopy(plan) if name in ("get_placement",) else copy.copy(plan)
            if name != "get_placement":
                p2 = copy.deepcopy(plan)
            p2._before = _plan_view(p2)
            out.append({"self": p2, **v})
    return out
