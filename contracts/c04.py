"""C04 contracts: detection of unconditional (always) writes."""
from __future__ import annotations

from pyvc import types as ty
from pyvc.contract import Contract
from pyvc.ghost import isa
from pyvc.values import SObj
from spec.ops import And, Implies, Not, Or

MB = "dsl_compiler/src/layout/memory_builder.py::MemoryBuilder."
_VREF = ty.TUnion((ty.TObj("SignalRef", only=("SignalRef",)), ty.Int))
_NODE = ty.TObj("IRNode", only=("IRConst", "IRArith", "IRDecider"),
                ftypes=(("debug_metadata", ty.TRecord((("user_declared", ty.Bool),))),))


def _post(a, res):
    """True exactly when the write enable is the literal 1 or a reference to an ANONYMOUS constant node with value 1
    (a declared constant is an input of the blueprint: its initial value 1 does not make the write unconditional)."""
    w = a.op.write_enable
    if not isinstance(w, SObj):
        return res == (w == 1)
    looked = [r for (_k, r) in a.self._ir_nodes.lookups]
    if not looked or looked[-1] is None:
        return res is False or res == False  # noqa: E712
    node = looked[-1]
    if isa(node, "IRConst"):
        return res == And(node.value == 1, Not(node.debug_metadata["user_declared"]))
    return res is False or res == False  # noqa: E712


is_always_write = Contract(
    qualname=MB + "_is_always_write",
    params={"self": ty.TObj("MemoryBuilder", only=("MemoryBuilder",)), "op": ty.TObj("IRMemWrite", only=("IRMemWrite",))},
    ensures=[("true iff the enable is the constant 1 (literal or anonymous constant node)", _post)],
    dynamic_types={"self": {"_ir_nodes": ty.TObjMap(ty.Str, _NODE)}, "op": {"write_enable": _VREF}},
    properties=("C04",), min_obligations=4,
)

CONTRACTS = [is_always_write]

# =================================================================================================
# MemoryBuilder.handle_write / handle_read: which circuit a write becomes and where a reader is attached.
#   handle_write: the loop is folded into arithmetic feedback ONLY for an unconditional write whose data depends on the
#                 cell (both callee verdicts required); every other write gets the two-gate cell.
#   handle_read:  a reader is attached to the element that carries the cell's VALUE — the folded combinator, else the
#                 multiplier, else the latch, else the hold gate — and is recorded as a read of that cell.
# =================================================================================================
import z3  # noqa: E402

from pyvc.values import fresh_name  # noqa: E402

LOG = []
_OPQ = ty.TOpaque("x")


def _mk_rec(tag, ret=None):
    def eff(ex, a):
        LOG.append(tag)
        return ret
    return eff


_ALWAYS, _CANFOLD = z3.Bool("always_write"), z3.Bool("can_fold")
always_c = Contract(qualname=MB + "_is_always_write", params={"self": _OPQ, "op": _OPQ}, effect=lambda ex, a: _ALWAYS, verify=False, note="proved above")
canfold_c = Contract(qualname=MB + "_can_use_arithmetic_feedback", params={"self": _OPQ, "op": _OPQ, "module": _OPQ}, effect=lambda ex, a: _CANFOLD, verify=False,
                     note="proved below (_can_use_arithmetic_feedback)")
fold_c = Contract(qualname=MB + "_optimize_to_arithmetic_feedback", params={"self": _OPQ, "op": _OPQ, "module": _OPQ, "signal_graph": _OPQ}, effect=_mk_rec("fold"), verify=False,
                  note="records the decision")
std_c = Contract(qualname=MB + "_setup_standard_write", params={"self": _OPQ, "op": _OPQ, "module": _OPQ, "signal_graph": _OPQ}, effect=_mk_rec("standard"), verify=False,
                 note="records the decision (topology proved in contracts.c03)")
_MOD = ty.TObj("MemoryModule", only=("MemoryModule",), ftypes=(
    ("_has_write", ty.Bool), ("optimization", ty.TOpt(ty.Str)), ("output_node_id", ty.TOpt(ty.Str)),
    ("multiplier_combinator", ty.TOpt(ty.TObj("EntityPlacement", only=("EntityPlacement",)))),
    ("latch_combinator", ty.TOpt(ty.TObj("EntityPlacement", only=("EntityPlacement",)))),
    ("hold_gate", ty.TOpt(ty.TObj("EntityPlacement", only=("EntityPlacement",))))))


def _write_post(a, res):
    mods = [r for (_k, r) in a.self._modules.lookups]
    if not mods or mods[-1] is None:
        return LOG == []
    want_fold = And(_ALWAYS, _CANFOLD)
    if LOG == ["fold"]:
        return want_fold
    if LOG == ["standard"]:
        return Not(want_fold)
    return False


handle_write = Contract(
    qualname=MB + "handle_write",
    params={"self": ty.TObj("MemoryBuilder", only=("MemoryBuilder",)), "op": ty.TObj("IRMemWrite", only=("IRMemWrite",)), "signal_graph": _OPQ},
    requires=[("(reset)", lambda a: LOG.clear() or True)],
    ensures=[("folded only for an unconditional write that depends on the cell; otherwise the two-gate cell; exactly one of them", _write_post)],
    uses={"MemoryBuilder._is_always_write": always_c, "MemoryBuilder._can_use_arithmetic_feedback": canfold_c,
          "MemoryBuilder._optimize_to_arithmetic_feedback": fold_c, "MemoryBuilder._setup_standard_write": std_c, "opaque.warning": "skip"},
    dynamic_types={"self": {"_modules": ty.TObjMap(ty.Str, _MOD), "diagnostics": ty.TOpaque("diag")}, "op": {"memory_id": ty.Str}},
    properties=("C04", "C03"), min_obligations=2, no_replay=True,
)

SRC = []


def _set_source_eff(ex, a):
    SRC.append((a.args[0], a.args[1]))


set_source = Contract(qualname="dsl_compiler/src/layout/signal_graph.py::SignalGraph.set_source", params={"kwargs": _OPQ}, effect=_set_source_eff, verify=False, note="records the source")


def _read_post(a, res):
    mods = [r for (_k, r) in a.self._modules.lookups]
    if not mods or mods[-1] is None:
        return SRC == []
    m = mods[-1]
    if m.optimization is not None and not ops_is_false(m.optimization == "arithmetic_feedback"):
        pass
    # expected attachment, by priority
    def attached(x):
        return len(SRC) == 1 and SRC[0][0] is a.op.node_id and SRC[0][1] is x
    folded = (m.optimization == "arithmetic_feedback") if m.optimization is not None else False
    cases = []
    if m.optimization is not None:
        if m.output_node_id is None:
            cases.append(Implies(folded, SRC == []))
        else:
            nonempty = z3.Length(m.output_node_id) > 0  # node ids are non-empty; an empty id attaches nothing
            cases.append(Implies(And(folded, nonempty), attached(m.output_node_id)))
            cases.append(Implies(And(folded, Not(nonempty)), SRC == []))
    nf = Not(folded) if m.optimization is not None else True
    if m.multiplier_combinator is not None:
        cases.append(Implies(nf, attached(m.multiplier_combinator.ir_node_id)))
    elif m.latch_combinator is not None:
        cases.append(Implies(nf, attached(m.latch_combinator.ir_node_id)))
    elif m.hold_gate is not None:
        cases.append(Implies(nf, attached(m.hold_gate.ir_node_id)))
    else:
        cases.append(Implies(nf, SRC == []))
    rs = a.self._read_sources
    recorded = z3.And(z3.Select(rs.present, a.op.node_id), z3.Select(rs.vals, a.op.node_id) == a.op.memory_id)
    return And(recorded, *cases)


def ops_is_false(x):
    return x is False


handle_read = Contract(
    qualname=MB + "handle_read",
    params={"self": ty.TObj("MemoryBuilder", only=("MemoryBuilder",)), "op": ty.TObj("IRMemRead", only=("IRMemRead",)), "signal_graph": _OPQ},
    requires=[("(reset)", lambda a: SRC.clear() or True)],
    ensures=[("the reader is attached to the element carrying the cell's value (folded node, else multiplier, else latch, else hold gate) and recorded", _read_post)],
    uses={"opaque.set_source": set_source, "opaque.warning": "skip"},
    dynamic_types={"self": {"_modules": ty.TObjMap(ty.Str, _MOD), "_read_sources": ty.TDict(ty.Str, ty.Str), "diagnostics": ty.TOpaque("diag")},
                   "op": {"memory_id": ty.Str, "node_id": ty.Str}},
    properties=("C03", "C04", "C05"), min_obligations=3, no_replay=True,
)
CONTRACTS += [handle_write, handle_read, always_c, canfold_c, fold_c, std_c, set_source]

# =================================================================================================
# MemoryBuilder._can_use_arithmetic_feedback / _operation_depends_on_memory: the loop is folded only if the written value IS
# an arithmetic node AND that node depends on a read of THIS cell — directly (it is a recorded read of the cell) or through
# an arithmetic operand that does (one unfolding; the recursive calls by contract: induction over the finite IR graph with the
# visited set as variant).
# =================================================================================================
from pyvc.ghost import ghost  # noqa: E402

_VREF2 = ty.TUnion((ty.TObj("SignalRef", only=("SignalRef",)), ty.Int))
_NODE2 = ty.TOpt(ty.TObj("IRNode", only=("IRArith", "IRConst", "IRDecider", "IRMemRead"), ftypes=(("left", _VREF2), ("right", _VREF2))))
DEP = z3.Function("depends_on_cell", z3.StringSort(), z3.StringSort(), z3.BoolSort())  # ghost: node id x memory id -> depends


def _dep_rec(ex, a):
    return DEP(a.op_id, a.memory_id)


dep_rec = Contract(qualname=MB + "_operation_depends_on_memory", params={"self": _OPQ, "op_id": _OPQ, "memory_id": _OPQ, "visited": _OPQ}, defaults={"visited": None},
                   effect=_dep_rec, verify=False, note="recursive call by contract (ghost relation depends_on_cell)")


def _dep_post(a, res):
    rs = a.self._read_sources
    is_read = z3.And(z3.Select(rs.present, a.op_id), z3.Select(rs.vals, a.op_id) == a.memory_id)
    looked = [r for (_k, r) in a.self._ir_nodes.lookups]
    node = looked[-1] if looked else None
    via = []
    if node is not None and isa(node, "IRArith"):
        for side in (node.left, node.right):
            if isinstance(side, SObj):
                via.append(DEP(side.source_id, a.memory_id))
    want = Or(is_read, *via) if via else is_read
    return res == want


depends = Contract(
    qualname=MB + "_operation_depends_on_memory",
    params={"self": ty.TObj("MemoryBuilder", only=("MemoryBuilder",)), "op_id": ty.Str, "memory_id": ty.Str, "visited": ty.TSet(ty.Str)},
    requires=[("the node has not been visited yet", lambda a: Not(z3.Select(a.visited.member, a.op_id)))],
    ensures=[("true iff the node is a recorded read of this cell or an arithmetic node with an operand that depends on it", _dep_post)],
    uses={"MemoryBuilder._operation_depends_on_memory": dep_rec},
    dynamic_types={"self": {"_read_sources": ty.TDict(ty.Str, ty.Str), "_ir_nodes": ty.TObjMap(ty.Str, _NODE2.inner)}},
    properties=("C04",), min_obligations=2, no_replay=True, note="node not yet visited (a visited node answers False: cycle cut)",
)


def _can_post(a, res):
    d = a.op.data_signal
    if not isinstance(d, SObj):
        return res is False or res == False  # noqa: E712
    looked = [r for (_k, r) in a.self._ir_nodes.lookups]
    node = looked[-1] if looked else None
    if node is None or not isa(node, "IRArith"):
        return res is False or res == False  # noqa: E712
    return res == DEP(d.source_id, a.op.memory_id)


can_fold = Contract(
    qualname=MB + "_can_use_arithmetic_feedback",
    params={"self": ty.TObj("MemoryBuilder", only=("MemoryBuilder",)), "op": ty.TObj("IRMemWrite", only=("IRMemWrite",)), "module": _OPQ},
    ensures=[("true only for an arithmetic data node that depends on a read of this cell", _can_post)],
    uses={"MemoryBuilder._operation_depends_on_memory": dep_rec},
    dynamic_types={"self": {"_ir_nodes": ty.TObjMap(ty.Str, _NODE2.inner)}, "op": {"data_signal": _VREF2, "memory_id": ty.Str}},
    properties=("C04",), min_obligations=2, no_replay=True,
)
CONTRACTS += [depends, can_fold, dep_rec]

# =================================================================================================
# MemoryBuilder._find_first_memory_consumer: the first arithmetic node that reads the cell — whether the read is its LEFT or
# its RIGHT operand — is found; None only if no arithmetic node reads it.  (Concrete node table of three nodes.)
# =================================================================================================
def _sref(nid):
    return ty.TObj("SignalRef", only=("SignalRef",), ftypes=(("source_id", ty.TConcrete(nid)),))


def _consumer_contract(left, right, want):
    arith = ty.TObj("IRArith", only=("IRArith",), ftypes=(("left", left), ("right", right)))
    return Contract(
        qualname=MB + "_find_first_memory_consumer",
        params={"self": ty.TObj("MemoryBuilder", only=("MemoryBuilder",)), "memory_id": ty.TConcrete("mem_m")},
        ensures=[("the arithmetic node reading the cell (left or right operand) is returned; None iff there is none", lambda a, res: res == want if want is not None else res is None)],
        dynamic_types={"self": {"_read_sources": ty.TConcrete({"other_read": "mem_x", "r1": "mem_m"}),
                                "_ir_nodes": ty.TRecord((("r1", ty.TObj("IRMemRead", only=("IRMemRead",))), ("k", ty.TObj("IRConst", only=("IRConst",))), ("n1", arith)))}},
        properties=("C04",), min_obligations=1, no_replay=True, note=f"node n1 = {('read' if left is not ty.Int and left.ftypes[0][1].value == 'r1' else 'x')} op {('read' if right is not ty.Int and right.ftypes[0][1].value == 'r1' else 'x')}")


CONTRACTS += [_consumer_contract(_sref("r1"), ty.Int, "n1"), _consumer_contract(ty.Int, _sref("r1"), "n1"),
              _consumer_contract(_sref("k"), _sref("r1"), "n1"), _consumer_contract(_sref("k"), ty.Int, None)]


# =================================================================================================
# MemoryBuilder._optimize_to_arithmetic_feedback (C04: the folded cell IS the written function's last combinator).
# After the call every read of the optimised memory — and the memory id itself — has exactly ONE source, the combinator that
# computes f (no stale gate source is left, so a reader sees f's output and only that); reads of OTHER memories keep their
# sources; the two gates of the cell are sinks of nothing any more and are marked unused; a one-step f feeds itself
# (has_self_feedback with the cell's signal), a longer chain is closed by the edge last-combinator -> first consumer.
# Evaluated on the REAL method with real SignalGraph / IR node / placement objects over an enumerated box
# (0..2 readers x another memory's reader x one-step / two-step f x gates present / absent): bounded.
# =================================================================================================
import itertools as _it4  # noqa: E402

OFQ = "dsl_compiler/src/layout/memory_builder.py::MemoryBuilder._optimize_to_arithmetic_feedback"


def _feedback_post(a, res):
    g, me, module = a.signal_graph, a.self, a.module
    sc = a.self._scenario
    arith = "arith_last"
    ok = [list(g._sources.get("m")) == [arith]]
    for r in sc["readers"]:
        ok.append(list(g._sources.get(r)) == [arith])
    if sc["other_reader"]:
        ok.append(list(g._sources.get("read_other")) == ["other_gate"])
    for gate in ("m_write_gate", "m_hold_gate"):
        ok.append(all(gate not in sinks for sinks in g._sinks.values()))
    ok += [module.optimization == "arithmetic_feedback", module.output_node_id == arith, module.write_gate_unused is True, module.hold_gate_unused is True]
    # the enable constant of the replaced gates has no reader any more: it is remembered for removal (a bare integer has no combinator)
    ok.append(module.unused_enable_id == ("enable_const" if sc["enable_ref"] else None))
    props = me.layout_plan.get_placement(arith).properties
    if sc["steps"] == 1 or not sc["readers"]:
        ok += [props.get("has_self_feedback") is True, props.get("feedback_signal") == "signal-M"]
    else:
        first = "arith_first"
        ok += [not props.get("has_self_feedback"), list(g._sources.get(arith)) == [arith], first in g._sinks.get(arith, [])]
    return all(ok)


optimize_feedback = Contract(qualname=OFQ, params={"self": ty.TOpaque("builder"), "op": ty.TOpaque("write"), "module": ty.TOpaque("module"), "signal_graph": ty.TOpaque("graph")},
                             ensures=[("readers and the cell itself are sourced by f's last combinator alone; gates detached; the loop is closed", _feedback_post)],
                             verify=False, properties=("C04",), note="evaluated on the real method over an enumerated box (bounded stand-in)")
CONTRACTS.append(optimize_feedback)


def feedback_arg_sets():
    from dsl_compiler.src.ir.nodes import IRArith, IRMemRead, IRMemWrite, SignalRef
    from dsl_compiler.src.layout.layout_plan import LayoutPlan
    from dsl_compiler.src.layout.memory_builder import MemoryBuilder, MemoryModule
    from dsl_compiler.src.layout.signal_graph import SignalGraph

    class _Diag:
        def info(self, *a, **k):
            pass
        warning = error = info

    class _Analyzer:
        def get_signal_name(self, t):
            return t

    out = []
    for n_readers, other, steps, gates, enable_ref in _it4.product((0, 1, 2), (False, True), (1, 2), (True, False), (True, False)):
        plan = LayoutPlan()
        for nid in ("arith_last", "arith_first", "m_write_gate", "m_hold_gate", "other_gate"):
            plan.create_and_add_placement(ir_node_id=nid, entity_type="arithmetic-combinator" if nid.startswith("arith") else "decider-combinator",
                                          position=None, footprint=(1, 2), role="x", debug_info={"details": "d"})
        g = SignalGraph()
        readers = [f"read_{i}" for i in range(n_readers)]
        mb = object.__new__(MemoryBuilder)
        mb.layout_plan, mb.diagnostics, mb.signal_analyzer = plan, _Diag(), _Analyzer()
        mb._read_sources, mb._ir_nodes = {}, {}
        g.set_source("m", "m_hold_gate")
        for r in readers:
            mb._read_sources[r] = "m"
            mb._ir_nodes[r] = IRMemRead(r, "signal-M") if _ctor_ok(IRMemRead) else object()
            g.set_source(r, "m_hold_gate")
        if other:
            mb._read_sources["read_other"] = "other"
            g.set_source("read_other", "other_gate")
        # f: one step  last = read_0 + 1 ; two steps  first = read_0 * 3, last = first + 1
        first_operand = SignalRef("signal-M", readers[0]) if readers else 5
        if steps == 1:
            mb._ir_nodes["arith_last"] = _arith(IRArith, "arith_last", first_operand, 1)
        else:
            mb._ir_nodes["arith_first"] = _arith(IRArith, "arith_first", first_operand, 3)
            mb._ir_nodes["arith_last"] = _arith(IRArith, "arith_last", SignalRef("signal-M", "arith_first"), 1)
            g.set_source("arith_first", "arith_first")
            g.add_sink("arith_first", "arith_last")
        for r in readers:
            g.add_sink(r, "arith_last" if steps == 1 else "arith_first")
        g.add_sink("arith_last", "m_write_gate")
        g.add_sink("m", "m_hold_gate")
        module = MemoryModule("m", "signal-M")
        if gates:
            module.write_gate, module.hold_gate = plan.get_placement("m_write_gate"), plan.get_placement("m_hold_gate")
        mb._scenario = {"readers": readers, "other_reader": other, "steps": steps, "enable_ref": enable_ref}
        op = IRMemWrite("m", SignalRef("signal-M", "arith_last"), SignalRef("signal-W", "enable_const") if enable_ref else 1)
        if not gates:
            # without gate placements the stale sink entries cannot be attributed: leave them out of the scenario
            g._sinks["arith_last"].remove("m_write_gate")
            g._sinks["m"].remove("m_hold_gate")
        out.append({"self": mb, "op": op, "module": module, "signal_graph": g})
    return out


def _ctor_ok(cls):
    return True


def _arith(IRArith, nid, left, right):
    node = IRArith(nid, "signal-M")
    node.op, node.left, node.right = "+", left, right
    return node


# =================================================================================================
# ConnectionPlanner._add_self_feedback_connections: every placement flagged has_self_feedback (a one-combinator folded
# cell) gets exactly one RED wire from its own output to its own input carrying its feedback signal; a placement without
# the flag (or without a feedback signal) gets none.  Evaluated on the REAL method over an enumerated box (three placements,
# each flagged / flagged without signal / unflagged): bounded.
# =================================================================================================
SFQ = "dsl_compiler/src/layout/connection_planner.py::ConnectionPlanner._add_self_feedback_connections"


def _selffb_post(a, res):
    plan = a.self.layout_plan
    want = [(pid, p.properties["feedback_signal"]) for pid, p in plan.entity_placements.items()
            if p.properties.get("has_self_feedback") and p.properties.get("feedback_signal")]
    got = [(w.source_entity_id, w.signal_name) for w in plan.wire_connections]
    shape = all(w.source_entity_id == w.sink_entity_id and w.wire_color == "red" and w.source_side == "output" and w.sink_side == "input" for w in plan.wire_connections)
    return sorted(got) == sorted(want) and shape


self_feedback = Contract(qualname=SFQ, params={"self": ty.TOpaque("planner")},
                         ensures=[("one red output->input self-wire per flagged placement on its feedback signal, none otherwise", _selffb_post)],
                         verify=False, properties=("C04",), note="evaluated on the real method over an enumerated box (bounded stand-in)")
CONTRACTS.append(self_feedback)


def self_feedback_arg_sets():
    from dsl_compiler.src.layout.connection_planner import ConnectionPlanner
    from dsl_compiler.src.layout.layout_plan import LayoutPlan

    class _Diag:
        def info(self, *a, **k):
            pass
        warning = error = info

    out = []
    for kinds in _it4.product(("flagged", "nosignal", "plain"), repeat=3):
        plan = LayoutPlan()
        for i, k in enumerate(kinds):
            extra = {}
            if k in ("flagged", "nosignal"):
                extra["has_self_feedback"] = True
            if k == "flagged":
                extra["feedback_signal"] = f"signal-{'ABC'[i]}"
            plan.create_and_add_placement(ir_node_id=f"e{i}", entity_type="arithmetic-combinator", position=None, footprint=(1, 2), role="arithmetic", debug_info={}, **extra)
        cp = object.__new__(ConnectionPlanner)
        cp.layout_plan, cp.diagnostics = plan, _Diag()
        out.append({"self": cp})
    return out


# =================================================================================================
# MemoryBuilder.cleanup_unused_gates: exactly the gates marked unused (and the enable constant of a folded cell) disappear — their placements, every wire that touches
# them and every sink entry naming them — and nothing else does (the gates of other cells, their wires and sinks stay).
# Evaluated on the REAL method over an enumerated box (two cells x {no gate unused, write gate, hold gate, both}): bounded.
# =================================================================================================
CUQ = "dsl_compiler/src/layout/memory_builder.py::MemoryBuilder.cleanup_unused_gates"


def _cleanup_post(a, res):
    sc = a.self._scenario
    plan, g = a.layout_plan, a.signal_graph
    removed, kept = set(sc["removed"]), set(sc["all"]) - set(sc["removed"])
    ok = [set(plan.entity_placements) == kept | {"consumer"}]
    wires = {(w.source_entity_id, w.sink_entity_id) for w in plan.wire_connections}
    ok.append(wires == {(s, t) for (s, t) in sc["wires"] if s not in removed and t not in removed})
    for sig, sinks in sc["sinks"].items():
        ok.append(list(g._sinks.get(sig, [])) == [x for x in sinks if x not in removed])
    return all(ok)


cleanup_gates = Contract(qualname=CUQ, params={"self": ty.TOpaque("builder"), "layout_plan": ty.TOpaque("plan"), "signal_graph": ty.TOpaque("graph")},
                         ensures=[("exactly the unused gates, their wires and their sink entries are removed", _cleanup_post)],
                         verify=False, properties=("C04", "C03"), note="evaluated on the real method over an enumerated box (bounded stand-in)")
CONTRACTS.append(cleanup_gates)


def cleanup_arg_sets():
    from dsl_compiler.src.layout.layout_plan import LayoutPlan, WireConnection
    from dsl_compiler.src.layout.memory_builder import MemoryBuilder, MemoryModule
    from dsl_compiler.src.layout.signal_graph import SignalGraph

    class _Diag:
        def info(self, *a, **k):
            pass
        warning = error = info

    out = []
    modes = ((False, False), (True, False), (False, True), (True, True))
    for m0, m1 in _it4.product(modes, repeat=2):
        plan, g = LayoutPlan(), SignalGraph()
        mb = object.__new__(MemoryBuilder)
        mb.diagnostics, mb._modules = _Diag(), {}
        all_ids, removed, wires, sinks = [], [], [], {}
        plan.create_and_add_placement(ir_node_id="consumer", entity_type="arithmetic-combinator", position=None, footprint=(1, 2), role="arithmetic", debug_info={})
        for name, (wu, hu) in (("a", m0), ("b", m1)):
            w, h = f"{name}_write_gate", f"{name}_hold_gate"
            for nid in (w, h):
                plan.create_and_add_placement(ir_node_id=nid, entity_type="decider-combinator", position=None, footprint=(1, 2), role="memory", debug_info={})
                all_ids.append(nid)
            mod = MemoryModule(name, "signal-M")
            mod.write_gate, mod.hold_gate = plan.get_placement(w), plan.get_placement(h)
            mod.write_gate_unused, mod.hold_gate_unused = wu, hu
            mb._modules[name] = mod
            removed += ([w] if wu else []) + ([h] if hu else [])
            # the enable constant: kept while a gate reads it, removed with the gates of a cell folded into arithmetic feedback
            en = f"{name}_enable"
            plan.create_and_add_placement(ir_node_id=en, entity_type="constant-combinator", position=None, footprint=(1, 1), role="literal", debug_info={})
            all_ids.append(en)
            if wu and hu:
                mod.unused_enable_id = en
                removed.append(en)
            plan.add_wire_connection(WireConnection(source_entity_id=en, sink_entity_id=w, signal_name="signal-W", wire_color="green"))
            wires.append((en, w))
            for s, t in ((w, h), (h, h), (h, "consumer"), ("consumer", w)):
                plan.add_wire_connection(WireConnection(source_entity_id=s, sink_entity_id=t, signal_name="signal-M", wire_color="red"))
                wires.append((s, t))
            for sig, sk in ((f"data_{name}", [w, "consumer"]), (f"cell_{name}", [h, "consumer", w])):
                for x in sk:
                    g.add_sink(sig, x)
                sinks[sig] = list(sk)
        mb._scenario = {"all": all_ids, "removed": removed, "wires": wires, "sinks": sinks}
        out.append({"self": mb, "layout_plan": plan, "signal_graph": g})
    return out
