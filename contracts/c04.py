"""C04 contracts: detection of unconditional (always) writes."""
from __future__ import annotations

from pyvc import types as ty
from pyvc.contract import Contract
from pyvc.ghost import isa
from pyvc.values import SObj
from spec.ops import And, Implies, Not, Or

MB = "dsl_compiler/src/layout/memory_builder.py::MemoryBuilder."
_VREF = ty.TUnion((ty.TObj("SignalRef", only=("SignalRef",)), ty.Int))
_NODE = ty.TObj("IRNode", only=("IRConst", "IRArith", "IRDecider"),
                ftypes=(("debug_metadata", ty.TRecord((("user_declared", ty.Bool),))),))


def _post(a, res):
    """True exactly when the write enable is the literal 1 or a reference to an ANONYMOUS constant node with value 1
    (a declared constant is an input of the blueprint: its initial value 1 does not make the write unconditional)."""
    w = a.op.write_enable
    if not isinstance(w, SObj):
        return res == (w == 1)
    looked = [r for (_k, r) in a.self._ir_nodes.lookups]
    if not looked or looked[-1] is None:
        return res is False or res == False  # noqa: E712
    node = looked[-1]
    if isa(node, "IRConst"):
        return res == And(node.value == 1, Not(node.debug_metadata["user_declared"]))
    return res is False or res == False  # noqa: E712


is_always_write = Contract(
    qualname=MB + "_is_always_write",
    params={"self": ty.TObj("MemoryBuilder", only=("MemoryBuilder",)), "op": ty.TObj("IRMemWrite", only=("IRMemWrite",))},
    ensures=[("true iff the enable is the constant 1 (literal or anonymous constant node)", _post)],
    dynamic_types={"self": {"_ir_nodes": ty.TObjMap(ty.Str, _NODE)}, "op": {"write_enable": _VREF}},
    properties=("C04",), min_obligations=4,
)

CONTRACTS = [is_always_write]

# =================================================================================================
# MemoryBuilder.handle_write / handle_read: which circuit a write becomes and where a reader is attached.
#   handle_write: the loop is folded into arithmetic feedback ONLY for an unconditional write whose data depends on the
#                 cell (both callee verdicts required); every other write gets the two-gate cell.
#   handle_read:  a reader is attached to the element that carries the cell's VALUE — the folded combinator, else the
#                 multiplier, else the latch, else the hold gate — and is recorded as a read of that cell.
# =================================================================================================
import z3  # noqa: E402

from pyvc.values import fresh_name  # noqa: E402

LOG = []
_OPQ = ty.TOpaque("x")


def _mk_rec(tag, ret=None):
    def eff(ex, a):
        LOG.append(tag)
        return ret
    return eff


_ALWAYS, _CANFOLD = z3.Bool("always_write"), z3.Bool("can_fold")
always_c = Contract(qualname=MB + "_is_always_write", params={"self": _OPQ, "op": _OPQ}, effect=lambda ex, a: _ALWAYS, verify=False, note="proved above")
canfold_c = Contract(qualname=MB + "_can_use_arithmetic_feedback", params={"self": _OPQ, "op": _OPQ, "module": _OPQ}, effect=lambda ex, a: _CANFOLD, verify=False,
                     note="proved below (_can_use_arithmetic_feedback)")
fold_c = Contract(qualname=MB + "_optimize_to_arithmetic_feedback", params={"self": _OPQ, "op": _OPQ, "module": _OPQ, "signal_graph": _OPQ}, effect=_mk_rec("fold"), verify=False,
                  note="records the decision")
std_c = Contract(qualname=MB + "_setup_standard_write", params={"self": _OPQ, "op": _OPQ, "module": _OPQ, "signal_graph": _OPQ}, effect=_mk_rec("standard"), verify=False,
                 note="records the decision (topology proved in contracts.c03)")
_MOD = ty.TObj("MemoryModule", only=("MemoryModule",), ftypes=(
    ("_has_write", ty.Bool), ("optimization", ty.TOpt(ty.Str)), ("output_node_id", ty.TOpt(ty.Str)),
    ("multiplier_combinator", ty.TOpt(ty.TObj("EntityPlacement", only=("EntityPlacement",)))),
    ("latch_combinator", ty.TOpt(ty.TObj("EntityPlacement", only=("EntityPlacement",)))),
    ("hold_gate", ty.TOpt(ty.TObj("EntityPlacement", only=("EntityPlacement",))))))


def _write_post(a, res):
    mods = [r for (_k, r) in a.self._modules.lookups]
    if not mods or mods[-1] is None:
        return LOG == []
    want_fold = And(_ALWAYS, _CANFOLD)
    if LOG == ["fold"]:
        return want_fold
    if LOG == ["standard"]:
        return Not(want_fold)
    return False


handle_write = Contract(
    qualname=MB + "handle_write",
    params={"self": ty.TObj("MemoryBuilder", only=("MemoryBuilder",)), "op": ty.TObj("IRMemWrite", only=("IRMemWrite",)), "signal_graph": _OPQ},
    requires=[("(reset)", lambda a: LOG.clear() or True)],
    ensures=[("folded only for an unconditional write that depends on the cell; otherwise the two-gate cell; exactly one of them", _write_post)],
    uses={"MemoryBuilder._is_always_write": always_c, "MemoryBuilder._can_use_arithmetic_feedback": canfold_c,
          "MemoryBuilder._optimize_to_arithmetic_feedback": fold_c, "MemoryBuilder._setup_standard_write": std_c, "opaque.warning": "skip"},
    dynamic_types={"self": {"_modules": ty.TObjMap(ty.Str, _MOD), "diagnostics": ty.TOpaque("diag")}, "op": {"memory_id": ty.Str}},
    properties=("C04", "C03"), min_obligations=2, no_replay=True,
)

SRC = []


def _set_source_eff(ex, a):
    SRC.append((a.args[0], a.args[1]))


set_source = Contract(qualname="dsl_compiler/src/layout/signal_graph.py::SignalGraph.set_source", params={"kwargs": _OPQ}, effect=_set_source_eff, verify=False, note="records the source")


def _read_post(a, res):
    mods = [r for (_k, r) in a.self._modules.lookups]
    if not mods or mods[-1] is None:
        return SRC == []
    m = mods[-1]
    if m.optimization is not None and not ops_is_false(m.optimization == "arithmetic_feedback"):
        pass
    # expected attachment, by priority
    def attached(x):
        return len(SRC) == 1 and SRC[0][0] is a.op.node_id and SRC[0][1] is x
    folded = (m.optimization == "arithmetic_feedback") if m.optimization is not None else False
    cases = []
    if m.optimization is not None:
        if m.output_node_id is None:
            cases.append(Implies(folded, SRC == []))
        else:
            nonempty = z3.Length(m.output_node_id) > 0  # node ids are non-empty; an empty id attaches nothing
            cases.append(Implies(And(folded, nonempty), attached(m.output_node_id)))
            cases.append(Implies(And(folded, Not(nonempty)), SRC == []))
    nf = Not(folded) if m.optimization is not None else True
    if m.multiplier_combinator is not None:
        cases.append(Implies(nf, attached(m.multiplier_combinator.ir_node_id)))
    elif m.latch_combinator is not None:
        cases.append(Implies(nf, attached(m.latch_combinator.ir_node_id)))
    elif m.hold_gate is not None:
        cases.append(Implies(nf, attached(m.hold_gate.ir_node_id)))
    else:
        cases.append(Implies(nf, SRC == []))
    rs = a.self._read_sources
    recorded = z3.And(z3.Select(rs.present, a.op.node_id), z3.Select(rs.vals, a.op.node_id) == a.op.memory_id)
    return And(recorded, *cases)


def ops_is_false(x):
    return x is False


handle_read = Contract(
    qualname=MB + "handle_read",
    params={"self": ty.TObj("MemoryBuilder", only=("MemoryBuilder",)), "op": ty.TObj("IRMemRead", only=("IRMemRead",)), "signal_graph": _OPQ},
    requires=[("(reset)", lambda a: SRC.clear() or True)],
    ensures=[("the reader is attached to the element carrying the cell's value (folded node, else multiplier, else latch, else hold gate) and recorded", _read_post)],
    uses={"opaque.set_source": set_source, "opaque.warning": "skip"},
    dynamic_types={"self": {"_modules": ty.TObjMap(ty.Str, _MOD), "_read_sources": ty.TDict(ty.Str, ty.Str), "diagnostics": ty.TOpaque("diag")},
                   "op": {"memory_id": ty.Str, "node_id": ty.Str}},
    properties=("C03", "C04", "C05"), min_obligations=3, no_replay=True,
)
CONTRACTS += [handle_write, handle_read, always_c, canfold_c, fold_c, std_c, set_source]

# =================================================================================================
# MemoryBuilder._can_use_arithmetic_feedback / _operation_depends_on_memory: the loop is folded only if the written value IS
# an arithmetic node AND that node depends on a read of THIS cell — directly (it is a recorded read of the cell) or through
# an arithmetic operand that does (one unfolding; the recursive calls by contract: induction over the finite IR graph with the
# visited set as variant).
# =================================================================================================
from pyvc.ghost import ghost  # noqa: E402

_VREF2 = ty.TUnion((ty.TObj("SignalRef", only=("SignalRef",)), ty.Int))
_NODE2 = ty.TOpt(ty.TObj("IRNode", only=("IRArith", "IRConst", "IRDecider", "IRMemRead"), ftypes=(("left", _VREF2), ("right", _VREF2))))
DEP = z3.Function("depends_on_cell", z3.StringSort(), z3.StringSort(), z3.BoolSort())  # ghost: node id x memory id -> depends


def _dep_rec(ex, a):
    return DEP(a.op_id, a.memory_id)


dep_rec = Contract(qualname=MB + "_operation_depends_on_memory", params={"self": _OPQ, "op_id": _OPQ, "memory_id": _OPQ, "visited": _OPQ}, defaults={"visited": None},
                   effect=_dep_rec, verify=False, note="recursive call by contract (ghost relation depends_on_cell)")


def _dep_post(a, res):
    rs = a.self._read_sources
    is_read = z3.And(z3.Select(rs.present, a.op_id), z3.Select(rs.vals, a.op_id) == a.memory_id)
    looked = [r for (_k, r) in a.self._ir_nodes.lookups]
    node = looked[-1] if looked else None
    via = []
    if node is not None and isa(node, "IRArith"):
        for side in (node.left, node.right):
            if isinstance(side, SObj):
                via.append(DEP(side.source_id, a.memory_id))
    want = Or(is_read, *via) if via else is_read
    return res == want


depends = Contract(
    qualname=MB + "_operation_depends_on_memory",
    params={"self": ty.TObj("MemoryBuilder", only=("MemoryBuilder",)), "op_id": ty.Str, "memory_id": ty.Str, "visited": ty.TSet(ty.Str)},
    requires=[("the node has not been visited yet", lambda a: Not(z3.Select(a.visited.member, a.op_id)))],
    ensures=[("true iff the node is a recorded read of this cell or an arithmetic node with an operand that depends on it", _dep_post)],
    uses={"MemoryBuilder._operation_depends_on_memory": dep_rec},
    dynamic_types={"self": {"_read_sources": ty.TDict(ty.Str, ty.Str), "_ir_nodes": ty.TObjMap(ty.Str, _NODE2.inner)}},
    properties=("C04",), min_obligations=2, no_replay=True, note="node not yet visited (a visited node answers False: cycle cut)",
)


def _can_post(a, res):
    d = a.op.data_signal
    if not isinstance(d, SObj):
        return res is False or res == False  # noqa: E712
    looked = [r for (_k, r) in a.self._ir_nodes.lookups]
    node = looked[-1] if looked else None
    if node is None or not isa(node, "IRArith"):
        return res is False or res == False  # noqa: E712
    return res == DEP(d.source_id, a.op.memory_id)


can_fold = Contract(
    qualname=MB + "_can_use_arithmetic_feedback",
    params={"self": ty.TObj("MemoryBuilder", only=("MemoryBuilder",)), "op": ty.TObj("IRMemWrite", only=("IRMemWrite",)), "module": _OPQ},
    ensures=[("true only for an arithmetic data node that depends on a read of this cell", _can_post)],
    uses={"MemoryBuilder._operation_depends_on_memory": dep_rec},
    dynamic_types={"self": {"_ir_nodes": ty.TObjMap(ty.Str, _NODE2.inner)}, "op": {"data_signal": _VREF2, "memory_id": ty.Str}},
    properties=("C04",), min_obligations=2, no_replay=True,
)
CONTRACTS += [depends, can_fold, dep_rec]

# =================================================================================================
# MemoryBuilder._find_first_memory_consumer: the first arithmetic node that reads the cell — whether the read is its LEFT or
# its RIGHT operand — is found; None only if no arithmetic node reads it.  (Concrete node table of three nodes.)
# =================================================================================================
def _sref(nid):
    return ty.TObj("SignalRef", only=("SignalRef",), ftypes=(("source_id", ty.TConcrete(nid)),))


def _consumer_contract(left, right, want):
    arith = ty.TObj("IRArith", only=("IRArith",), ftypes=(("left", left), ("right", right)))
    return Contract(
        qualname=MB + "_find_first_memory_consumer",
        params={"self": ty.TObj("MemoryBuilder", only=("MemoryBuilder",)), "memory_id": ty.TConcrete("mem_m")},
        ensures=[("the arithmetic node reading the cell (left or right operand) is returned; None iff there is none", lambda a, res: res == want if want is not None else res is None)],
        dynamic_types={"self": {"_read_sources": ty.TConcrete({"other_read": "mem_x", "r1": "mem_m"}),
                                "_ir_nodes": ty.TRecord((("r1", ty.TObj("IRMemRead", only=("IRMemRead",))), ("k", ty.TObj("IRConst", only=("IRConst",))), ("n1", arith)))}},
        properties=("C04",), min_obligations=1, no_replay=True, note=f"node n1 = {('read' if left is not ty.Int and left.ftypes[0][1].value == 'r1' else 'x')} op {('read' if right is not ty.Int and right.ftypes[0][1].value == 'r1' else 'x')}")


CONTRACTS += [_consumer_contract(_sref("r1"), ty.Int, "n1"), _consumer_contract(ty.Int, _sref("r1"), "n1"),
              _consumer_contract(_sref("k"), _sref("r1"), "n1"), _consumer_contract(_sref("k"), ty.Int, None)]
