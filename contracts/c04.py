"""C04 contracts: detection of unconditional (always) writes."""
from __future__ import annotations

from pyvc import types as ty
from pyvc.contract import Contract
from pyvc.ghost import isa
from pyvc.values import SObj
from spec.ops import And, Implies, Not, Or

MB = "dsl_compiler/src/layout/memory_builder.py::MemoryBuilder."
_VREF = ty.TUnion((ty.TObj("SignalRef", only=("SignalRef",)), ty.Int))
_NODE = ty.TObj("IRNode", only=("IRConst", "IRArith", "IRDecider"),
                ftypes=(("debug_metadata", ty.TRecord((("user_declared", ty.Bool),))),))


def _post(a, res):
    """True exactly when the write enable is the literal 1 or a reference to an ANONYMOUS constant node with value 1
    (a declared constant is an input of the blueprint: its initial value 1 does not make the write unconditional)."""
    w = a.op.write_enable
    if not isinstance(w, SObj):
        return res == (w == 1)
    looked = [r for (_k, r) in a.self._ir_nodes.lookups]
    if not looked or looked[-1] is None:
        return res is False or res == False  # noqa: E712
    node = looked[-1]
    if isa(node, "IRConst"):
        return res == And(node.value == 1, Not(node.debug_metadata["user_declared"]))
    return res is False or res == False  # noqa: E712


is_always_write = Contract(
    qualname=MB + "_is_always_write",
    params={"self": ty.TObj("MemoryBuilder", only=("MemoryBuilder",)), "op": ty.TObj("IRMemWrite", only=("IRMemWrite",))},
    ensures=[("true iff the enable is the constant 1 (literal or anonymous constant node)", _post)],
    dynamic_types={"self": {"_ir_nodes": ty.TObjMap(ty.Str, _NODE)}, "op": {"write_enable": _VREF}},
    properties=("C04",), min_obligations=4,
)

CONTRACTS = [is_always_write]
