"""C03 contracts: the write enable of a standard memory write ends up on the reserved signal-W."""
from __future__ import annotations

import z3

from pyvc import types as ty
from pyvc.contract import Contract
from pyvc.ghost import ghost, isa
from pyvc.values import SObj, fresh_name
from spec.ops import And, Implies, Not, Or

ML = "dsl_compiler/src/lowering/memory_lowerer.py::MemoryLowerer."
_OPQ = ty.TOpaque("x")
_VREF = ty.TUnion((ty.TObj("SignalRef", only=("SignalRef",)), ty.Int))
_NODE = ty.TOpt(ty.TObj("IRNode", only=("IRDecider", "IRConst", "IRArith", "IRWireMerge"),
                       ftypes=(("debug_metadata", ty.TRecord((("user_declared", ty.Bool),))), ("signals", ty.TConcrete({})), ("value", ty.Int))))
CAPTURE = {}


def _lower_expr_effect(ex, a):
    return ex.mk(_VREF, fresh_name("lowered"), register=True)


def _get_operation_effect(ex, a):
    # the producer node of the reference whose source_id is looked up (one ghost per reference)
    for v in CAPTURE.get("refs", []):
        if v._fields.get("source_id") is a.node_id:
            return ghost(v, "node", _NODE)
    raise NotImplementedError("get_operation on an unknown id")


def _arith_effect(ex, a):
    r = SObj(["SignalRef"], fresh_name("ref"), lazy=False)
    r._fields.update({"signal_type": a.output_type, "source_id": z3.String(fresh_name("id")), "debug_metadata": {}})
    r._fields["@projection_of"] = a.left
    return r


def _const_effect(ex, a):
    r = SObj(["SignalRef"], fresh_name("ref"), lazy=False)
    r._fields.update({"signal_type": a.signal_type, "source_id": z3.String(fresh_name("id")), "debug_metadata": {}})
    r._fields["@const_value"] = a.value
    return r


def _memory_write_effect(ex, a):
    CAPTURE["write"] = a
    return None


def _coerce_effect(ex, a):
    return ex.mk(_VREF, fresh_name("coerced"), register=True)


lower_expr = Contract(qualname="dsl_compiler/src/lowering/expression_lowerer.py::ExpressionLowerer.lower_expr",
                      params={"self": _OPQ, "expr": _OPQ}, effect=_lower_expr_effect, verify=False,
                      note="ASSUMED here: returns an int or a SignalRef (bundles are rejected earlier for when=)")
get_operation = Contract(qualname="dsl_compiler/src/ir/builder.py::IRBuilder.get_operation", params={"self": _OPQ, "node_id": ty.Str},
                         effect=_get_operation_effect, verify=False, note="dictionary lookup of the producer node")
arithmetic = Contract(qualname="dsl_compiler/src/ir/builder.py::IRBuilder.arithmetic",
                      params={"self": _OPQ, "op": ty.Str, "left": _OPQ, "right": _OPQ, "output_type": ty.Str, "source_ast": _OPQ},
                      defaults={"source_ast": None}, effect=_arith_effect, verify=False, note="returns a reference typed output_type")
const = Contract(qualname="dsl_compiler/src/ir/builder.py::IRBuilder.const", params={"self": _OPQ, "signal_type": ty.Str, "value": ty.Int, "source_ast": _OPQ},
                 defaults={"source_ast": None}, effect=_const_effect, verify=False, note="returns a reference typed signal_type")
memory_write = Contract(qualname="dsl_compiler/src/ir/builder.py::IRBuilder.memory_write",
                        params={"self": _OPQ, "memory_id": _OPQ, "data_signal": _OPQ, "write_enable": _OPQ, "source_ast": _OPQ},
                        defaults={"source_ast": None}, effect=_memory_write_effect, verify=False, note="appends one IRMemWrite with these operands")
mem_sig_type = Contract(qualname=ML + "_memory_signal_type", params={"self": _OPQ, "memory_name": ty.Str}, returns=ty.TOpt(ty.Str), verify=False,
                        note="ASSUMED: the declared / inferred type of the cell or None")
coerce = Contract(qualname=ML + "_coerce_to_signal_type", params={"self": _OPQ, "value_ref": _OPQ, "signal_type": _OPQ, "node": _OPQ},
                  effect=_coerce_effect, verify=False, note="proved below (coerce_contract): the data reference on the cell's type")


def _post(a, res):
    """C03: the gates compare signal-W, so WHATEVER the condition is — absent, an integer, a folded constant on some other type, a comparison, a
    plain signal — the enable handed to the IR is a reference ON signal-W that carries the condition's value (never a bare integer, never another type)"""
    w = CAPTURE["write"].write_enable
    if not isinstance(w, SObj):
        return False
    lowered = CAPTURE.get("lowered", [])
    when = lowered[1] if len(lowered) > 1 else None   # (the first lowered expression is the data)
    cs = [w.signal_type == "signal-W"]
    if "@const_value" in w._fields:
        # a constant put on signal-W here: the implicit 1 of an unconditional write, the integer written, or the value of an anonymous constant
        v = w._fields["@const_value"]
        if when is None:
            cs.append(v == 1 if not isinstance(v, int) else z3.BoolVal(v == 1))
        elif not isinstance(when, SObj):
            cs.append(z3.BoolVal(v is when))
        else:
            node = when._fields.get("@node")
            cs.append(z3.BoolVal(node is not None and isa(node, "IRConst") is not False and v is node.value))
            if node is not None:
                cs += [isa(node, "IRConst"), Not(node.debug_metadata["user_declared"])]
    elif "@projection_of" in w._fields:
        cs.append(z3.BoolVal(w._fields["@projection_of"] is when))
    else:
        cs.append(z3.BoolVal(w is when))   # the comparison itself, retyped
    return And(*cs)


def _requires_capture(a):
    CAPTURE.clear()
    CAPTURE["refs"] = []
    return True


class _Refs(list):
    pass


def _track(ex, a):
    v = ex.mk(_VREF, fresh_name("lowered"), register=True)
    if isinstance(v, SObj):
        CAPTURE["refs"].append(v)
    CAPTURE.setdefault("lowered", []).append(v)
    return v


lower_expr.effect = _track

standard_write = Contract(
    qualname=ML + "_lower_standard_write",
    params={"self": ty.TObj("MemoryLowerer", only=("MemoryLowerer",)), "expr": ty.TObj("WriteExpr", only=("WriteExpr",))},
    requires=[("(reset capture)", _requires_capture)],
    ensures=[("the enable handed to the IR is a reference on signal-W carrying the condition: the constant (implicit 1 / integer / anonymous folded constant) put on signal-W, "
              "the comparison retyped, or a +0 projection of any other signal", _post)],
    raises={"KeyError": None},
    uses={"ExpressionLowerer.lower_expr": lower_expr, "IRBuilder.get_operation": get_operation, "IRBuilder.arithmetic": arithmetic,
          "IRBuilder.const": const, "IRBuilder.memory_write": memory_write, "MemoryLowerer._memory_signal_type": mem_sig_type,
          "MemoryLowerer._coerce_to_signal_type": coerce, "MemoryLowerer._error": "skip", "IRBuilder.allocate_implicit_type": "skip",
          "ASTLowerer.push_expr_context": "skip", "ASTLowerer.pop_expr_context": "skip", "ASTLowerer.ensure_signal_registered": "skip"},
    dynamic_types={"self": {"parent": ty.TObj("ASTLowerer", only=("ASTLowerer",)), "ir_builder": ty.TObj("IRBuilder", only=("IRBuilder",))},
                   "self.parent": {"expr_lowerer": ty.TObj("ExpressionLowerer", only=("ExpressionLowerer",)), "memory_refs": ty.TDict(ty.Str, ty.Str)},
                   "expr": {"when": ty.TOpt(ty.TObj("Expr", only=("BinaryOp",))), "value": ty.TObj("Expr", only=("BinaryOp",)), "memory_name": ty.Str}},
    properties=("C03",), min_obligations=4,
)

CONTRACTS = [standard_write, lower_expr, get_operation, arithmetic, const, memory_write, mem_sig_type, coerce]

# =================================================================================================
# MemoryBuilder._create_standard_memory: the cell is two copy-mode deciders on the cell's signal,
# the write gate passing its input while the reserved enable signal-W is positive and the hold gate
# while it is zero — for every enable value >= 0 exactly one of them passes (C03: follows v / keeps the value).
# =================================================================================================
from spec import arith32 as _A, ops  # noqa: E402

MBQ = "dsl_compiler/src/layout/memory_builder.py::MemoryBuilder."
GATES = []


def _gate_effect(ex, a):
    GATES.append({k: getattr(a, k) for k in ("ir_node_id", "entity_type", "role", "operation", "left_operand", "right_operand", "output_signal", "copy_count_from_input")})
    return SObj(["EntityPlacement"], fresh_name("gate"), lazy=True)


_OPQ3 = ty.TOpaque("x")
gate_placement = Contract(
    qualname="dsl_compiler/src/layout/layout_plan.py::LayoutPlan.create_and_add_placement",
    params={"self": _OPQ3, "ir_node_id": _OPQ3, "entity_type": _OPQ3, "position": _OPQ3, "footprint": _OPQ3, "role": _OPQ3, "debug_info": _OPQ3,
            "operation": _OPQ3, "left_operand": _OPQ3, "right_operand": _OPQ3, "output_signal": _OPQ3, "copy_count_from_input": _OPQ3},
    effect=_gate_effect, verify=False, note="records the placement properties")
CAPN = {}


def _name_effect(ex, a):
    v = z3.String(fresh_name("cell_signal_name"))
    CAPN["name"] = v
    return v


cell_name = Contract(qualname="dsl_compiler/src/layout/signal_analyzer.py::SignalAnalyzer.get_signal_name", params={"self": _OPQ3, "signal_type": _OPQ3},
                     effect=_name_effect, verify=False, note="name lookup")


def _gates_post(a, res):
    if len(GATES) != 2:
        return False
    wg = [g for g in GATES if g["role"] == "memory_write_gate"]
    hg = [g for g in GATES if g["role"] == "memory_hold_gate"]
    if len(wg) != 1 or len(hg) != 1:
        return False
    wg, hg = wg[0], hg[0]
    W = z3.Int("W")
    cs = []
    for g in (wg, hg):
        cs += [g["entity_type"] == "constant-combinator" or g["entity_type"] == "decider-combinator", g["left_operand"] == "signal-W",
               g["copy_count_from_input"] is True, g["output_signal"] is CAPN.get("name")]
    pass_w = _A.cmp(wg["operation"], W, wg["right_operand"])
    pass_h = _A.cmp(hg["operation"], W, hg["right_operand"])
    sem = Implies(W >= 0, And(ops.Iff(pass_w, W > 0), ops.Iff(pass_h, W == 0)))
    return And(*cs, sem, res.write_gate is not None, res.hold_gate is not None, res.signal_type is CAPN.get("name"))


create_standard = Contract(
    qualname=MBQ + "_create_standard_memory",
    params={"self": ty.TObj("MemoryBuilder", only=("MemoryBuilder",)), "op": ty.TObj("IRMemCreate", only=("IRMemCreate",)), "signal_graph": ty.TOpaque("graph")},
    requires=[("(reset capture)", lambda a: (GATES.clear(), CAPN.clear()) and True)],
    ensures=[("write gate passes iff W > 0, hold gate iff W = 0 (W >= 0), both copy the cell's signal", _gates_post)],
    uses={"LayoutPlan.create_and_add_placement": gate_placement, "SignalAnalyzer.get_signal_name": cell_name, "MemoryBuilder._make_debug_info": "skip",
          "opaque.set_source": "skip"},
    dynamic_types={"self": {"layout_plan": ty.TObj("LayoutPlan", only=("LayoutPlan",)), "signal_analyzer": ty.TObj("SignalAnalyzer", only=("SignalAnalyzer",)),
                            "_modules": ty.TObjMap(ty.Str, ty.TObj("MemoryModule", only=("MemoryModule",)))},
                   "op": {"memory_id": ty.Str, "signal_type": ty.Str}},
    properties=("C03",), min_obligations=1, no_replay=True,
)
CONTRACTS += [create_standard, gate_placement, cell_name]

# =================================================================================================
# MemoryLowerer.lower_mem_decl: every lowering of a declaration (one per call of the enclosing function / per loop
# iteration) gets a memory id of its own: the per-name instance counter grows by one and the id is derived
# injectively from (name, counter) — so no two instances share a cell.
# =================================================================================================
MADE = {}


def _mem_create_effect(ex, a):
    MADE["id"] = a.memory_id
    return None


mem_create = Contract(qualname="dsl_compiler/src/ir/builder.py::IRBuilder.memory_create",
                      params={"self": _OPQ3, "memory_id": _OPQ3, "signal_type": _OPQ3, "source_ast": _OPQ3, "memory_type": _OPQ3},
                      defaults={"source_ast": None, "memory_type": None}, effect=_mem_create_effect, verify=False, note="creates the cell under the given id")


def _decl_post(a, res):
    cnt_old, cnt_new = a.old.self._declared_instances, a.self._declared_instances
    base = z3.Concat(z3.StringVal("mem_"), a.stmt.name)
    n_old = z3.If(z3.Select(cnt_old.present, base), z3.Select(cnt_old.vals, base), 0)
    mid = MADE.get("id")
    if mid is None:
        return False
    k = z3.String("other_key")
    frame = z3.ForAll([k], Implies(k != base, And(z3.Select(cnt_new.present, k) == z3.Select(cnt_old.present, k),
                                                   z3.Select(cnt_new.vals, k) == z3.Select(cnt_old.vals, k))))
    want_id = z3.If(n_old == 0, base, z3.Concat(base, z3.StringVal("_"), z3.IntToStr(n_old + 1)))
    from pyvc.engine import lift as _lift
    mid_t = _lift(mid)
    refs = a.self.parent.memory_refs
    return And(z3.Select(cnt_new.present, base), z3.Select(cnt_new.vals, base) == n_old + 1, frame, mid_t == want_id,
               z3.Select(refs.present, a.stmt.name), z3.Select(refs.vals, a.stmt.name) == mid_t)


mem_decl = Contract(
    qualname=ML + "lower_mem_decl",
    params={"self": ty.TObj("MemoryLowerer", only=("MemoryLowerer",)), "stmt": ty.TObj("MemDecl", only=("MemDecl",))},
    requires=[("(reset)", lambda a: MADE.clear() or True), ("counters are natural numbers", lambda a: z3.ForAll([z3.String("k0")], z3.Select(a.self._declared_instances.vals, z3.String("k0")) >= 1))],
    ensures=[("the instance counter of this name grows by one, other counters are untouched, the id is name / name_<n>", _decl_post)],
    uses={"IRBuilder.memory_create": mem_create, "MemoryLowerer._error": "skip", "fn:get_signal_type_name": "skip", "opaque.lookup": "skip",
          "opaque.ensure_signal_registered": "skip", "opaque.get": "skip", "ASTLowerer.ensure_signal_registered": "skip"},
    dynamic_types={"self": {"_declared_instances": ty.TDict(ty.Str, ty.Int), "parent": ty.TObj("ASTLowerer", only=("ASTLowerer",)),
                            "ir_builder": ty.TObj("IRBuilder", only=("IRBuilder",)), "semantic": ty.TObj("SemanticAnalyzer", only=("SemanticAnalyzer",))},
                   "self.semantic": {"memory_types": ty.TObjMap(ty.Str, ty.TObj("MemoryInfo", only=("MemoryInfo",), ftypes=(("signal_type", ty.TOpt(ty.Str)),))),
                                     "symbol_table": ty.TOpaque("symtab")},
                   "self.parent": {"memory_refs": ty.TDict(ty.Str, ty.Str), "memory_types": ty.TDict(ty.Str, ty.Str)},
                   "stmt": {"name": ty.Str}},
    properties=("C03", "C15", "C16"), min_obligations=1, no_replay=True,
)
CONTRACTS += [mem_decl, mem_create]

# =================================================================================================
# MemoryLowerer._coerce_to_signal_type: whatever is written into a cell arrives ON THE CELL'S SIGNAL — the value's own
# reference when it already is on that signal, otherwise a +0 projection / a constant created on that signal.
# (C13: an untyped value is never re-labelled with the cell's explicit signal behind the allocator's back.)
# =================================================================================================
REG_CALLS = []


def _register_effect(ex, a):
    REG_CALLS.append(("register", a.args))
    return None


registry_register = Contract(qualname="dsl_compiler/src/common/signal_registry.py::SignalTypeRegistry.register", params={"kwargs": ty.TOpaque("kw")},
                             effect=_register_effect, verify=False, note="FRAME: a call is recorded; the coercion must not re-map signals in the registry")
registry_resolve = Contract(qualname="dsl_compiler/src/common/signal_registry.py::SignalTypeRegistry.resolve", params={"self": ty.TOpaque("r"), "signal_key": ty.TOpaque("k")},
                            returns=ty.TOpt(ty.TRecord((("name", ty.Str),))), verify=False, note="lookup (any answer)")


def _coerce_post(a, res):
    v = a.value_ref
    if REG_CALLS:
        return False  # frame: the signal registry is not written (an implicit type is never re-labelled here)
    cs = [res.signal_type == a.signal_type]
    if isinstance(v, SObj):
        cs.append(Implies(v.signal_type == a.signal_type, res is v))
        if res is v:
            cs.append(v.signal_type == a.signal_type)  # returned unchanged only when it already is on the cell's signal
        else:
            cs.append(res._fields.get("@projection_of") is v)
    else:
        cs.append(ops.eq(res._fields.get("@const_value"), v))
    return And(*cs)


coerce_contract = Contract(
    qualname=ML + "_coerce_to_signal_type",
    params={"self": ty.TObj("MemoryLowerer", only=("MemoryLowerer",)), "value_ref": _VREF, "signal_type": ty.Str, "node": ty.TOpaque("ast")},
    requires=[("(reset frame log)", lambda a: REG_CALLS.clear() or True)],
    ensures=[("the written value is on the cell's signal: itself, a +0 projection of itself, or the constant on that signal; the signal registry is not written", _coerce_post)],
    uses={"SignalTypeRegistry.register": registry_register, "SignalTypeRegistry.resolve": registry_resolve, "ASTLowerer._infer_signal_category": "skip",
          "IRBuilder.arithmetic": arithmetic, "IRBuilder.const": const, "ASTLowerer.ensure_signal_registered": "skip", "opaque.warning": "skip",
          "ProgramDiagnostics.warning": "skip", "MemoryLowerer._error": "skip"},
    dynamic_types={"self": {"parent": ty.TObj("ASTLowerer", only=("ASTLowerer",)), "ir_builder": ty.TObj("IRBuilder", only=("IRBuilder",))},
                   "self.ir_builder": {"signal_registry": ty.TObj("SignalTypeRegistry", only=("SignalTypeRegistry",))},
                   "self.parent": {"diagnostics": ty.TObj("ProgramDiagnostics", only=("ProgramDiagnostics",))}},
    properties=("C03", "C13"), min_obligations=2, no_replay=True,
)
CONTRACTS.append(coerce_contract)

# =================================================================================================
# MemoryBuilder._setup_standard_write: the topology of the two-gate cell — data reaches the WRITE gate only, the
# enable reaches BOTH gates, the write gate's output feeds the hold gate and the hold gate feeds itself (both on red,
# output -> input), and nothing else is wired.  (With the gates' conditions proved above this is the cell of C03:
# follows v while W > 0, recirculates the last value while W = 0.)
# =================================================================================================
TOPO = {"sinks": [], "wires": [], "sources": []}


def _sink_eff(ex, a):
    TOPO["sinks"].append((a.args[0], a.args[1]))


def _src_eff(ex, a):
    TOPO["sources"].append((a.args[0], a.args[1]))


def _wire_eff(ex, a):
    TOPO["wires"].append(a.connection)


g_add_sink = Contract(qualname="dsl_compiler/src/layout/signal_graph.py::SignalGraph.add_sink", params={"kwargs": _OPQ3}, effect=_sink_eff, verify=False, note="records the edge")
g_set_source = Contract(qualname="dsl_compiler/src/layout/signal_graph.py::SignalGraph.set_source", params={"kwargs": _OPQ3}, effect=_src_eff, verify=False, note="records the source")
p_add_wire = Contract(qualname="dsl_compiler/src/layout/layout_plan.py::LayoutPlan.add_wire_connection", params={"self": _OPQ3, "connection": _OPQ3},
                      effect=_wire_eff, verify=False, note="records the wire")


def _topo_post(a, res):
    wg, hg = a.module.write_gate.ir_node_id, a.module.hold_gate.ir_node_id
    d, e = a.op.data_signal, a.op.write_enable
    want_sinks = []
    if isinstance(d, SObj):
        want_sinks.append((d.source_id, wg))
    if isinstance(e, SObj):
        want_sinks += [(e.source_id, wg), (e.source_id, hg)]
    real = [(s, t) for (s, t) in TOPO["sinks"] if not (isinstance(s, str) or (hasattr(s, "skeleton")))]  # layout-only feedback ids are f-strings
    same_sinks = len(real) == len(want_sinks) and all(any(s is ws and t is wt for (ws, wt) in want_sinks) for (s, t) in real)
    ws = TOPO["wires"]
    ok_wires = len(ws) == 2 and all(w.wire_color == "red" and w.source_side == "output" and w.sink_side == "input" and w.signal_name is a.module.signal_type for w in ws) \
        and any(w.source_entity_id is wg and w.sink_entity_id is hg for w in ws) and any(w.source_entity_id is hg and w.sink_entity_id is hg for w in ws)
    return bool(same_sinks and ok_wires)


setup_write = Contract(
    qualname=MBQ + "_setup_standard_write",
    params={"self": ty.TObj("MemoryBuilder", only=("MemoryBuilder",)), "op": ty.TObj("IRMemWrite", only=("IRMemWrite",)),
            "module": ty.TObj("MemoryModule", only=("MemoryModule",)), "signal_graph": ty.TOpaque("graph")},
    requires=[("(reset)", lambda a: [TOPO[k].clear() for k in TOPO] and True)],
    ensures=[("data -> write gate only; enable -> both gates; write gate -> hold gate and hold gate -> itself on red; nothing else", _topo_post)],
    uses={"opaque.add_sink": g_add_sink, "opaque.set_source": g_set_source, "LayoutPlan.add_wire_connection": p_add_wire, "opaque.info": "skip", "opaque.warning": "skip"},
    dynamic_types={"self": {"layout_plan": ty.TObj("LayoutPlan", only=("LayoutPlan",)), "diagnostics": ty.TOpaque("diag")},
                   "op": {"data_signal": _VREF, "write_enable": _VREF, "memory_id": ty.Str},
                   "module": {"write_gate": ty.TObj("EntityPlacement", only=("EntityPlacement",)), "hold_gate": ty.TObj("EntityPlacement", only=("EntityPlacement",)),
                              "signal_type": ty.Str}},
    properties=("C03",), min_obligations=2, no_replay=True,
)
CONTRACTS += [setup_write, g_add_sink, g_set_source, p_add_wire]
