"""C05 contracts: latch priority flag and comparison inversion."""
from __future__ import annotations

import z3

from pyvc import types as ty
from pyvc.contract import Contract
from spec import arith32 as A
from spec import ops
from spec.ops import And, Implies, Not, Or

MB = "dsl_compiler/src/layout/memory_builder.py::MemoryBuilder."
TR = "dsl_compiler/src/parsing/transformer.py::DSLTransformer."
CMPS = ["<", "<=", ">", ">=", "==", "!="]


def _forall_x(fn):
    """forall x: fn(x) — SMT quantifier when symbolic, boundary sampling around the constants when concrete."""
    x = z3.Int("x_any")
    r = fn(x)
    if ops.is_sym(r):
        return z3.ForAll([x], r)
    return bool(r)


def _invert_post(a, res):
    op2, c2 = res[0], res[1]
    if ops.is_sym(a.const) or ops.is_sym(c2):
        x = z3.Int("x_any")
        return And(c2 == a.const, z3.ForAll([x], ops.Iff(A.cmp(op2, x, c2), Not(A.cmp(a.op, x, a.const)))))
    return c2 == a.const and all(bool(A.cmp(op2, x, c2)) == (not bool(A.cmp(a.op, x, a.const)))
                                 for x in range(a.const - 3, a.const + 4))


invert = Contract(
    qualname=MB + "_invert_comparison",
    params={"self": ty.TObj("MemoryBuilder"), "op": ty.Str, "const": ty.Int},
    ensures=[("for every x: inverted(x) iff not original(x), same constant", _invert_post)],
    case_split={"op": CMPS},
    properties=("C05",),
    min_obligations=len(CMPS),
)


def _order(first_is_set):
    def post(a, res):
        # items = [KW, expr1, KW, expr2]; result = (set_expr, reset_expr, set_priority)
        e1, e2 = a.items[1], a.items[3]
        if first_is_set:
            return And(res[0] is e1, res[1] is e2, res[2] is True)
        return And(res[0] is e2, res[1] is e1, res[2] is False)
    return post


_ITEMS = ty.TConcrete(None)


def _items_contract(name, first_is_set):
    return Contract(
        qualname=TR + name,
        params={"self": ty.TObj("DSLTransformer"), "items": ty.TTuple((ty.TOpaque("kw"), ty.TObj("Expr"), ty.TOpaque("kw"), ty.TObj("Expr")))},
        ensures=[("argument order decides the priority flag; set/reset expressions are not swapped", _order(first_is_set))],
        uses={"DSLTransformer._unwrap_tree": "inline"},
        properties=("C05",),
    )


latch_sr = _items_contract("latch_set_reset", True)
latch_rs = _items_contract("latch_reset_set", False)

CONTRACTS = [invert, latch_sr, latch_rs]
