"""C05 contracts: latch priority flag and comparison inversion."""
from __future__ import annotations

import z3

from pyvc import types as ty
from pyvc.contract import Contract
from spec import arith32 as A
from spec import ops
from spec.ops import And, Implies, Not, Or

MB = "dsl_compiler/src/layout/memory_builder.py::MemoryBuilder."
TR = "dsl_compiler/src/parsing/transformer.py::DSLTransformer."
CMPS = ["<", "<=", ">", ">=", "==", "!="]


def _forall_x(fn):
    """forall x: fn(x) — SMT quantifier when symbolic, boundary sampling around the constants when concrete."""
    x = z3.Int("x_any")
    r = fn(x)
    if ops.is_sym(r):
        return z3.ForAll([x], r)
    return bool(r)


def _invert_post(a, res):
    op2, c2 = res[0], res[1]
    if ops.is_sym(a.const) or ops.is_sym(c2):
        x = z3.Int("x_any")
        return And(c2 == a.const, z3.ForAll([x], ops.Iff(A.cmp(op2, x, c2), Not(A.cmp(a.op, x, a.const)))))
    return c2 == a.const and all(bool(A.cmp(op2, x, c2)) == (not bool(A.cmp(a.op, x, a.const)))
                                 for x in range(a.const - 3, a.const + 4))


invert = Contract(
    qualname=MB + "_invert_comparison",
    params={"self": ty.TObj("MemoryBuilder"), "op": ty.Str, "const": ty.Int},
    ensures=[("for every x: inverted(x) iff not original(x), same constant", _invert_post)],
    case_split={"op": CMPS},
    properties=("C05",),
    min_obligations=len(CMPS),
)


def _order(first_is_set):
    def post(a, res):
        # items = [KW, expr1, KW, expr2]; result = (set_expr, reset_expr, set_priority)
        e1, e2 = a.items[1], a.items[3]
        if first_is_set:
            return And(res[0] is e1, res[1] is e2, res[2] is True)
        return And(res[0] is e2, res[1] is e1, res[2] is False)
    return post


_ITEMS = ty.TConcrete(None)


def _items_contract(name, first_is_set):
    return Contract(
        qualname=TR + name,
        params={"self": ty.TObj("DSLTransformer"), "items": ty.TTuple((ty.TOpaque("kw"), ty.TObj("Expr"), ty.TOpaque("kw"), ty.TObj("Expr")))},
        ensures=[("argument order decides the priority flag; set/reset expressions are not swapped", _order(first_is_set))],
        uses={"DSLTransformer._unwrap_tree": "inline"},
        properties=("C05",),
    )


latch_sr = _items_contract("latch_set_reset", True)
latch_rs = _items_contract("latch_reset_set", False)

CONTRACTS = [invert, latch_sr, latch_rs]

# =================================================================================================
# Inlined latch (single multi-condition decider): the rows the real builder hands to the placement
# encode the set/reset/hold machine with the priority the latch type says — for every comparator pair,
# every pair of thresholds, every input value and every feedback value.
# =================================================================================================
from pyvc.values import SObj, fresh_name  # noqa: E402

CAP = {}


def _placement_effect(ex, a):
    CAP["conditions"] = a.conditions
    CAP["output_signal"] = a.output_signal
    CAP["copy"] = a.copy_count_from_input
    CAP["output_value"] = a.output_value
    return SObj(["EntityPlacement"], fresh_name("placement"), lazy=True)


_OPQ = ty.TOpaque("x")
create_placement = Contract(
    qualname="dsl_compiler/src/layout/layout_plan.py::LayoutPlan.create_and_add_placement",
    params={"self": _OPQ, "ir_node_id": _OPQ, "entity_type": _OPQ, "position": _OPQ, "footprint": _OPQ, "role": _OPQ, "debug_info": _OPQ,
            "conditions": _OPQ, "output_signal": _OPQ, "copy_count_from_input": _OPQ, "output_value": _OPQ},
    effect=_placement_effect, verify=False,
    note="records the placement properties (the rows are what the emitter turns into the decider's conditions: contracts.c07 / S2)")
signal_name = Contract(qualname="dsl_compiler/src/layout/signal_analyzer.py::SignalAnalyzer.get_signal_name", params={"self": _OPQ, "signal_type": _OPQ},
                       returns=ty.Str, verify=False, note="name lookup")


def _rows_active(conds, in_name, mem_name, x, fb):
    """Factorio 2.0 row semantics (AND binds tighter than OR) over: red = the input x on in_name,
    green = the latch's own output fb on mem_name."""
    groups, cur = [], []
    for i, row in enumerate(conds):
        if not isinstance(row, dict):
            return None
        name, wires = row.get("first_signal"), row.get("first_signal_wires")
        if wires == {"red"} and name is in_name:
            v = x
        elif wires == {"green"} and name is mem_name:
            v = fb
        else:
            return None
        if "second_constant" not in row or not isinstance(row.get("comparator"), str):
            return None
        t = A.cmp(row["comparator"], v, row["second_constant"])
        if i > 0 and row.get("compare_type", "or") == "or":
            groups.append(cur)
            cur = []
        cur.append(t)
    groups.append(cur)
    return Or(*[And(*g) for g in groups])


def _latch_post(set_op, reset_op, set_priority):
    def post(a, res):
        conds = CAP.get("conditions")
        x, fb = z3.Int("x_in"), z3.Int("fb")
        in_name = CAP.get("in_name")
        act = _rows_active(conds, CAP["in_name"], a.module.signal_type, x, fb) if conds is not None and in_name is not None else None
        if act is None:
            return False
        sc, rc = a.op.set_condition[2], a.op.reset_condition[2]
        S, R = A.cmp(set_op, x, sc), A.cmp(reset_op, x, rc)
        on = fb > 0
        spec = Or(S, And(on, Not(R))) if set_priority else And(Or(S, on), Not(R))
        return And(ops.Iff(act, spec), CAP["output_signal"] is a.module.signal_type, CAP["copy"] is False,
                   ops.eq(CAP["output_value"], 1))
    return post


def _signal_name_effect(ex, a):
    v = z3.String(fresh_name("input_signal_name"))
    CAP["in_name"] = v
    return v


signal_name_cap = Contract(qualname=signal_name.qualname, params=signal_name.params, effect=_signal_name_effect, verify=False,
                           note="name lookup (the name the rows must read from the red wire)")

_SR = ty.TObj("SignalRef", only=("SignalRef",))
for _prio, _lt in ((True, "sr_latch"), (False, "rs_latch")):
    for _so in CMPS:
        for _ro in CMPS:
            CONTRACTS.append(Contract(
                qualname=MB + "_handle_latch_write_inlined",
                params={"self": ty.TObj("MemoryBuilder", only=("MemoryBuilder",)), "op": ty.TObj("IRLatchWrite", only=("IRLatchWrite",)),
                        "module": ty.TObj("MemoryModule", only=("MemoryModule",)), "signal_graph": ty.TOpaque("graph")},
                ensures=[(f"rows encode {'set' if _prio else 'reset'}-priority latch for set {_so} / reset {_ro}", _latch_post(_so, _ro, _prio))],
                uses={"LayoutPlan.create_and_add_placement": create_placement, "opaque.create_and_add_placement": create_placement,
                      "SignalAnalyzer.get_signal_name": signal_name_cap, "opaque.get_signal_name": signal_name_cap,
                      "MemoryBuilder._invert_comparison": "inline", "MemoryBuilder._make_latch_debug_info": "skip",
                      "MemoryBuilder._setup_latch_feedback": "skip", "MemoryBuilder._create_latch_multiplier": "skip",
                      "opaque.info": "skip", "opaque.add_sink": "skip", "opaque.set_source": "skip"},
                dynamic_types={"self": {"layout_plan": ty.TObj("LayoutPlan", only=("LayoutPlan",)), "signal_analyzer": ty.TObj("SignalAnalyzer", only=("SignalAnalyzer",)),
                                        "diagnostics": ty.TOpaque("diag")},
                               "op": {"set_condition": ty.TTuple((_SR, ty.TConcrete(_so), ty.Int)), "reset_condition": ty.TTuple((_SR, ty.TConcrete(_ro), ty.Int)),
                                      "latch_type": ty.TConcrete(_lt), "value": ty.TUnion((_SR, ty.Int)), "memory_id": ty.Str},
                               "module": {"signal_type": ty.Str, "write_gate": ty.TOpt(ty.TObj("EntityPlacement", only=("EntityPlacement",))),
                                          "hold_gate": ty.TOpt(ty.TObj("EntityPlacement", only=("EntityPlacement",)))}},
                properties=("C05",), min_obligations=1, no_replay=True, note=f"{_lt} set {_so} reset {_ro}"))

CONTRACTS += [create_placement, signal_name_cap]

# =================================================================================================
# Non-inlined latches: _create_sr_latch_placement / _create_rs_latch_placement build the rows over three
# wire-filtered signals: S (set, red), R (reset, red), L (the latch's own output, green).
# For boolean S, R (the remapped comparison results) the rows encode
#     set priority:    on' = S>0 or (on and not R>0)          reset priority:   on' = not R>0 and (S>0 or on)
# whatever the three signal names are — provided set and reset arrive under different names (precondition).
# =================================================================================================
def _rows_active3(conds, set_name, reset_name, out_name, S, R, L):
    def red(name):
        return ops.ite(name == set_name, S, 0) + ops.ite(name == reset_name, R, 0)

    def green(name):
        return ops.ite(name == out_name, L, 0)
    groups, cur = [], []
    for i, row in enumerate(conds):
        wires, name = row.get("first_signal_wires"), row.get("first_signal")
        if wires == {"red"}:
            v = red(name)
        elif wires == {"green"}:
            v = green(name)
        else:
            return None
        t = A.cmp(row["comparator"], v, row["second_constant"])
        if i > 0 and row.get("compare_type", "or") == "or":
            groups.append(cur)
            cur = []
        cur.append(t)
    groups.append(cur)
    return Or(*[And(*g) for g in groups])


def _latch3_post(set_priority):
    def post(a, res):
        conds = CAP.get("conditions")
        S, R, L = z3.Int("S"), z3.Int("R"), z3.Int("L")
        act = _rows_active3(conds, a.set_signal_name, a.reset_signal_name, a.output_signal, S, R, L) if conds is not None else None
        if act is None:
            return False
        on = L > 0
        spec = Or(S > 0, And(on, Not(R > 0))) if set_priority else And(Not(R > 0), Or(S > 0, on))
        dom = And(S >= 0, S <= 1, R >= 0, R <= 1, L >= 0)
        return And(Implies(dom, ops.Iff(act, spec)), CAP["output_signal"] is a.output_signal, CAP["copy"] is False,
                   CAP["output_value"] is a.output_constant)
    return post


for _name, _prio in (("_create_sr_latch_placement", True), ("_create_rs_latch_placement", False)):
    CONTRACTS.append(Contract(
        qualname=MB + _name,
        params={"self": ty.TObj("MemoryBuilder", only=("MemoryBuilder",)), "latch_id": ty.Str, "op": ty.TOpaque("op"),
                "set_signal_name": ty.Str, "reset_signal_name": ty.Str, "output_signal": ty.Str, "output_constant": ty.Int},
        requires=[("set and reset arrive under different signal names", lambda a: a.set_signal_name != a.reset_signal_name)],
        ensures=[(f"rows encode the {'set' if _prio else 'reset'}-priority latch over boolean set / reset signals", _latch3_post(_prio))],
        uses={"LayoutPlan.create_and_add_placement": create_placement, "opaque.create_and_add_placement": create_placement,
              "MemoryBuilder._make_latch_debug_info": "skip"},
        dynamic_types={"self": {"layout_plan": ty.TObj("LayoutPlan", only=("LayoutPlan",))}},
        properties=("C05",), min_obligations=1, no_replay=True, note="non-inlined path"))

# =================================================================================================
# MemoryBuilder._handle_latch_write_standard: the remapping steps guarantee what the row builders need — the set
# signal reaches the latch under the cell's own signal name, the reset signal under a DIFFERENT name (an internal one
# when it would collide) — for every combination of set / reset / cell signal names.  The precondition of
# _create_sr/rs_latch_placement (set name != reset name) is checked at the call site.
# =================================================================================================
NAMES = {}


def _name_of_effect(ex, a):
    v = z3.String(fresh_name("signal_name"))
    NAMES.setdefault("seq", []).append(v)
    return v


name_lookup = Contract(qualname=signal_name.qualname, params=signal_name.params, effect=_name_of_effect, verify=False, note="name lookup (any name)")
_SRREF = ty.TUnion((ty.TObj("SignalRef", only=("SignalRef",)), ty.Int))


def _std_post(a, res):
    c = CAP.get("latch_call")
    if c is None:
        return False
    return And(c["set"] == a.module.signal_type, c["out"] == a.module.signal_type, c["const"] == 1)


def _latch_call_effect(ex, a):
    CAP["latch_call"] = {"set": a.set_signal_name, "reset": a.reset_signal_name, "out": a.output_signal, "const": a.output_constant}
    return SObj(["EntityPlacement"], fresh_name("latch"), lazy=True)


_P6 = {"self": _OPQ, "latch_id": _OPQ, "op": _OPQ, "set_signal_name": _OPQ, "reset_signal_name": _OPQ, "output_signal": _OPQ, "output_constant": _OPQ}
_NEQ = [("set and reset arrive under different signal names", lambda a: Not(SObj.CUR.py_eq(a.set_signal_name, a.reset_signal_name)) if True else True)]
sr_callee = Contract(qualname=MB + "_create_sr_latch_placement", params=_P6, requires=_NEQ, effect=_latch_call_effect, verify=False, note="proved above; precondition checked at this call")
rs_callee = Contract(qualname=MB + "_create_rs_latch_placement", params=_P6, requires=_NEQ, effect=_latch_call_effect, verify=False, note="proved above; precondition checked at this call")

for _lt in ("sr_latch", "rs_latch"):
    CONTRACTS.append(Contract(
        qualname=MB + "_handle_latch_write_standard",
        params={"self": ty.TObj("MemoryBuilder", only=("MemoryBuilder",)), "op": ty.TObj("IRLatchWrite", only=("IRLatchWrite",)),
                "module": ty.TObj("MemoryModule", only=("MemoryModule",)), "signal_graph": ty.TOpaque("graph")},
        requires=[("(reset)", lambda a: (CAP.clear(), NAMES.clear()) and True),
                  ("the cell is not declared on the internal remap signal", lambda a: a.module.signal_type != "signal-dot")],
        ensures=[("the latch is built with the set signal on the cell's name, output on the cell's name, constant 1", _std_post)],
        uses={"SignalAnalyzer.get_signal_name": name_lookup, "opaque.get_signal_name": name_lookup,
              "MemoryBuilder._create_sr_latch_placement": sr_callee, "MemoryBuilder._create_rs_latch_placement": rs_callee,
              "MemoryBuilder._create_signal_remapper": "skip", "MemoryBuilder._setup_latch_feedback": "skip", "MemoryBuilder._create_latch_multiplier": "skip",
              "LayoutPlan.add_wire_connection": "skip", "opaque.add_wire_connection": "skip", "opaque.add_sink": "skip", "opaque.set_source": "skip",
              "opaque.info": "skip", "opaque.warning": "skip"},
        dynamic_types={"self": {"layout_plan": ty.TObj("LayoutPlan", only=("LayoutPlan",)), "signal_analyzer": ty.TObj("SignalAnalyzer", only=("SignalAnalyzer",)),
                                "diagnostics": ty.TOpaque("diag")},
                       "op": {"set_signal": _SRREF, "reset_signal": _SRREF, "latch_type": ty.TConcrete(_lt), "value": _SRREF, "memory_id": ty.Str},
                       "module": {"signal_type": ty.Str, "write_gate": ty.TOpt(ty.TObj("EntityPlacement", only=("EntityPlacement",))),
                                  "hold_gate": ty.TOpt(ty.TObj("EntityPlacement", only=("EntityPlacement",)))}},
        properties=("C05",), min_obligations=2, no_replay=True, note=f"{_lt}; non-inlined path"))
CONTRACTS += [name_lookup, sr_callee, rs_callee]

# =================================================================================================
# MemoryBuilder._create_latch_multiplier: the cell reads v while the latch is on: one arithmetic combinator computing
# (latch output, from the GREEN feedback wire only) * (v: the constant, or the signal from the RED wire only), on the
# cell's signal, fed by an explicit green wire from the latch.
# =================================================================================================
MUL = {}


def _mul_place(ex, a):
    MUL["p"] = {k: getattr(a, k) for k in ("ir_node_id", "entity_type", "operation", "left_operand", "left_operand_wires", "right_operand",
                                           "right_operand_wires", "output_signal")}
    return SObj(["EntityPlacement"], fresh_name("mul"), lazy=True)


mul_place = Contract(qualname="dsl_compiler/src/layout/layout_plan.py::LayoutPlan.create_and_add_placement",
                     params={"self": _OPQ, "ir_node_id": _OPQ, "entity_type": _OPQ, "position": _OPQ, "footprint": _OPQ, "role": _OPQ, "debug_info": _OPQ,
                             "operation": _OPQ, "left_operand": _OPQ, "left_operand_wires": _OPQ, "right_operand": _OPQ, "right_operand_wires": _OPQ,
                             "output_signal": _OPQ}, effect=_mul_place, verify=False, note="records the placement")


def _wire_effect(ex, a):
    MUL["wire"] = a.connection
    return None


add_wire = Contract(qualname="dsl_compiler/src/layout/layout_plan.py::LayoutPlan.add_wire_connection", params={"self": _OPQ, "connection": _OPQ},
                    effect=_wire_effect, verify=False, note="records the explicit wire")


def _mul_post(a, res):
    p, w = MUL.get("p"), MUL.get("wire")
    if p is None or w is None:
        return False
    v = a.multiplier_value
    cs = [p["entity_type"] == "arithmetic-combinator", p["operation"] == "*", p["left_operand"] is a.latch_signal, p["left_operand_wires"] == {"green"},
          p["output_signal"] is a.module.signal_type,
          w.source_entity_id is a.latch_id, w.wire_color == "green", w.source_side == "output", w.sink_side == "input"]
    if isinstance(v, SObj):
        cs += [p["right_operand"] is MUL.get("vname"), p["right_operand_wires"] == {"red"}]
    else:
        cs += [p["right_operand"] is v]
    return all(bool(c) if not ops.is_sym(c) else True for c in cs) and And(*[c for c in cs if ops.is_sym(c)])


def _vname(ex, a):
    v = z3.String(fresh_name("value_signal_name"))
    MUL["vname"] = v
    return v


value_name = Contract(qualname=signal_name.qualname, params=signal_name.params, effect=_vname, verify=False, note="name lookup")
CONTRACTS.append(Contract(
    qualname=MB + "_create_latch_multiplier",
    params={"self": ty.TObj("MemoryBuilder", only=("MemoryBuilder",)), "op": ty.TObj("IRLatchWrite", only=("IRLatchWrite",)),
            "module": ty.TObj("MemoryModule", only=("MemoryModule",)), "latch_id": ty.Str, "latch_signal": ty.Str,
            "multiplier_value": _SRREF, "signal_graph": ty.TOpaque("graph")},
    requires=[("(reset)", lambda a: MUL.clear() or True)],
    ensures=[("latch output (green only) * v (constant, or signal from red only) on the cell's signal, fed by a green wire from the latch", _mul_post)],
    uses={"LayoutPlan.create_and_add_placement": mul_place, "LayoutPlan.add_wire_connection": add_wire, "SignalAnalyzer.get_signal_name": value_name,
          "MemoryBuilder._make_multiplier_debug_info": "skip", "opaque.add_sink": "skip"},
    dynamic_types={"self": {"layout_plan": ty.TObj("LayoutPlan", only=("LayoutPlan",)), "signal_analyzer": ty.TObj("SignalAnalyzer", only=("SignalAnalyzer",))},
                   "op": {"memory_id": ty.Str}, "module": {"signal_type": ty.Str}},
    properties=("C05",), min_obligations=1, no_replay=True))
CONTRACTS += [mul_place, add_wire, value_name]

# =================================================================================================
# MemoryLowerer._extract_simple_comparison (which comparisons are inlined into the latch): a triple (name, op, k) is
# returned only when it MEANS the comparison: ghost val(e) = the value of expression e; for a returned triple
#       val(expr.left) op k  <=>  the comparison expr holds,   with name = the left identifier;
# in particular a constant-first comparison is either declined or returned with the MIRRORED operator.
# =================================================================================================
from pyvc.ghost import ghost as _gh, isa as _isa  # noqa: E402

MLQ = "dsl_compiler/src/lowering/memory_lowerer.py::MemoryLowerer."


def _val(e):
    return _gh(e, "val", ty.Int)


_IDENT_T = ty.TObj("Expr", only=("IdentifierExpr",), ftypes=(("name", ty.Str),))
_NUM_T = ty.TObj("Expr", only=("NumberLiteral",), ftypes=(("value", ty.Int),))
_SIGLIT_T = ty.TObj("Expr", only=("SignalLiteral",), ftypes=(("value", _NUM_T), ("signal_type", ty.TConcrete(None))))


def _esc_post(op):
    def post(a, res):
        if res is None:
            return True  # declining is always sound (the non-inlined path is used)
        e = a.expr
        l, r = e.left, e.right
        def v(x):
            if _isa(x, "NumberLiteral"):
                return x.value
            if _isa(x, "SignalLiteral"):
                return x.value.value
            return _val(x)
        truth = A.cmp(op, v(l), v(r))
        name, rop, k = res[0], res[1], res[2]
        if not isinstance(rop, str):
            return False
        # the triple is read as  <signal called name> rop k : that signal must be the identifier operand
        ident = l if _isa(l, "IdentifierExpr") else (r if _isa(r, "IdentifierExpr") else None)
        if ident is None:
            return False
        return And(name == ident.name, ops.Iff(A.cmp(rop, _val(ident), k), truth))
    return post


for _op in CMPS:
    for _lt, _rt, _tag in ((_IDENT_T, _NUM_T, "x CMP 5"), (_NUM_T, _IDENT_T, "5 CMP x"), (_IDENT_T, _SIGLIT_T, "x CMP (5)"), (_IDENT_T, _IDENT_T, "x CMP y")):
        CONTRACTS.append(Contract(
            qualname=MLQ + "_extract_simple_comparison",
            params={"self": ty.TObj("MemoryLowerer", only=("MemoryLowerer",)),
                    "expr": ty.TObj("BinaryOp", only=("BinaryOp",), ftypes=(("op", ty.TConcrete(_op)), ("left", _lt), ("right", _rt)))},
            ensures=[("a returned (name, op, k) means the comparison: name is the identifier operand and  name op k  <=>  left CMP right", _esc_post(_op))],
            properties=("C05",), min_obligations=1, no_replay=True, note=f"{_tag} with CMP = {_op}"))


# =================================================================================================
# MemoryBuilder._setup_latch_feedback: a latch remembers through ONE wire from its own output back to its own input, on
# GREEN (the rows of the latch read the fed-back state on green and the set / reset inputs on red: contracts above), carrying
# the cell's signal; the loop is registered in the signal graph under an internal id and the module is marked connected.
# Without a latch combinator nothing is added.
# =================================================================================================
FB = {}


def _fb_wire(ex, a):
    FB.setdefault("wires", []).append(a.connection)
    return None


def _fb_graph(kind):
    def eff(ex, a):
        FB.setdefault(kind, []).append(tuple(a.args))
        return None
    return eff


def _fb_post(a, res):
    m = a.module
    wires = FB.get("wires", [])
    if m.latch_combinator is None:
        return not wires and not FB.get("src") and not FB.get("sink")
    if len(wires) != 1 or len(FB.get("src", [])) != 1 or len(FB.get("sink", [])) != 1:
        return False
    w, lid = wires[0], m.latch_combinator.ir_node_id
    return And(w.source_entity_id is lid, w.sink_entity_id is lid, w.wire_color == "green", w.source_side == "output", w.sink_side == "input",
               w.signal_name is m.signal_type, FB["src"][0][1] is lid, FB["sink"][0][1] is lid, FB["src"][0][0] is FB["sink"][0][0],
               m._feedback_connected is True)


setup_latch_feedback = Contract(
    qualname=MB + "_setup_latch_feedback",
    params={"self": ty.TObj("MemoryBuilder", only=("MemoryBuilder",)),
            "module": ty.TObj("MemoryModule", only=("MemoryModule",), ftypes=(("latch_combinator", ty.TOpt(ty.TObj("EntityPlacement", only=("EntityPlacement",), ftypes=(("ir_node_id", ty.Str),)))),
                                                                               ("memory_id", ty.Str), ("signal_type", ty.Str), ("memory_type", ty.Str))),
            "signal_graph": ty.TOpaque("graph")},
    requires=[("(reset capture)", lambda a: FB.clear() or True)],
    ensures=[("exactly one green output->input wire from the latch to itself on the cell's signal; loop registered; nothing without a latch", _fb_post)],
    uses={"opaque.set_source": Contract(qualname="dsl_compiler/src/layout/signal_graph.py::SignalGraph.set_source", params={"args": _OPQ}, effect=_fb_graph("src"), verify=False, note="records the source"),
          "opaque.add_sink": Contract(qualname="dsl_compiler/src/layout/signal_graph.py::SignalGraph.add_sink", params={"args": _OPQ}, effect=_fb_graph("sink"), verify=False, note="records the sink"),
          "opaque.add_wire_connection": Contract(qualname="dsl_compiler/src/layout/layout_plan.py::LayoutPlan.add_wire_connection", params={"self": _OPQ, "connection": _OPQ},
                                                 effect=lambda ex, a: _fb_wire(ex, type("NS", (), {"connection": a.args[0]})()), verify=False, note="records the explicit wire"),
          "opaque.info": "skip"},
    dynamic_types={"self": {"layout_plan": ty.TOpaque("plan"), "diagnostics": ty.TOpaque("diag")}},
    properties=("C05", "C08"), min_obligations=2, no_replay=True)
CONTRACTS.append(setup_latch_feedback)


# =================================================================================================
# MemoryBuilder.handle_latch_write / _create_signal_remapper:
#   handle_latch_write      a latch write to a declared cell upgrades the cell to the latch kind of the write and takes the inlined path
#                           exactly when the write carries inline conditions, the standard path otherwise — each exactly once, with this
#                           write and this cell; a write to an undeclared cell does nothing
#   _create_signal_remapper one arithmetic placement `input x 1 -> output` under the given id (a pass-through onto the other signal)
# =================================================================================================
HL = {}


def _hl_call(kind):
    def eff(ex, a):
        HL.setdefault(kind, []).append((a.op, a.module, a.signal_graph))
        return None
    return eff


def _hl_post(a, res):
    lk = a.self._modules.lookups
    module = lk[-1][1] if lk else None
    inl, std = HL.get("inlined", []), HL.get("standard", [])
    if module is None:
        return not inl and not std
    one = (len(inl) + len(std)) == 1
    call = (inl or std)[0] if one else None
    return And(one, call is not None and call[0] is a.op and call[1] is module and call[2] is a.signal_graph, module.memory_type is a.op.latch_type,
               a.op.has_inline_conditions if inl else Not(a.op.has_inline_conditions))


CONTRACTS.append(Contract(
    qualname=MB + "handle_latch_write",
    params={"self": ty.TObj("MemoryBuilder", only=("MemoryBuilder",)),
            "op": ty.TObj("IRLatchWrite", only=("IRLatchWrite",), ftypes=(("memory_id", ty.Str), ("latch_type", ty.Str), ("has_inline_conditions", ty.Bool))), "signal_graph": ty.TOpaque("graph")},
    requires=[("(reset capture)", lambda a: HL.clear() or True)],
    ensures=[("the cell takes the write's latch kind; the inlined path iff the write has inline conditions, else the standard path — once; nothing for an undeclared cell", _hl_post)],
    uses={"MemoryBuilder._handle_latch_write_inlined": Contract(qualname=MB + "_handle_latch_write_inlined", params={"self": _OPQ, "op": _OPQ, "module": _OPQ, "signal_graph": _OPQ},
                                                                effect=_hl_call("inlined"), verify=False, note="proved above (72 comparator pairs)"),
          "MemoryBuilder._handle_latch_write_standard": Contract(qualname=MB + "_handle_latch_write_standard", params={"self": _OPQ, "op": _OPQ, "module": _OPQ, "signal_graph": _OPQ},
                                                                 effect=_hl_call("standard"), verify=False, note="proved above"),
          "opaque.warning": "skip"},
    dynamic_types={"self": {"_modules": ty.TObjMap(ty.Str, ty.TObj("MemoryModule", only=("MemoryModule",), ftypes=(("memory_type", ty.Str),))), "diagnostics": ty.TOpaque("diag")}},
    properties=("C05",), min_obligations=3, no_replay=True))

RM = {}


def _rm_place(ex, a):
    RM["kw"] = dict(a.kwargs)
    r = SObj(["EntityPlacement"], fresh_name("remapper"), lazy=True)
    RM["placement"] = r
    return r


def _rm_post(a, res):
    kw = RM.get("kw")
    return (kw is not None and res is RM.get("placement") and kw.get("ir_node_id") is a.remapper_id and kw.get("entity_type") == "arithmetic-combinator" and kw.get("operation") == "*"
            and kw.get("left_operand") is a.input_signal and kw.get("right_operand") == 1 and kw.get("output_signal") is a.output_signal)


CONTRACTS.append(Contract(
    qualname=MB + "_create_signal_remapper",
    params={"self": ty.TObj("MemoryBuilder", only=("MemoryBuilder",)), "remapper_id": ty.Str, "op": ty.TObj("IRLatchWrite", only=("IRLatchWrite",), ftypes=(("memory_id", ty.Str),)),
            "input_signal": ty.Str, "output_signal": ty.Str, "signal_graph": ty.TOpaque("graph")},
    requires=[("(reset capture)", lambda a: RM.clear() or True)],
    ensures=[("one arithmetic placement under this id: input x 1 -> output", _rm_post)],
    uses={"opaque.create_and_add_placement": Contract(qualname="dsl_compiler/src/layout/layout_plan.py::LayoutPlan.create_and_add_placement", params={"kwargs": _OPQ}, effect=_rm_place, verify=False,
                                                      note="records the placement (contracts.cgraph: bounded box on the real method)")},
    dynamic_types={"self": {"layout_plan": ty.TOpaque("plan")}}, properties=("C05",), min_obligations=1, no_replay=True))
